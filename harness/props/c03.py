"""
C03 — propositional arguments are decided exactly, without limits.

Deciding method:
  * Lean: `C03_ttValid_iff` (the truth-table oracle means what it should: complete enumeration of
    assignments) and `C03_closed_implies_ttValid` (for EVERY legal derivation a closed tableau of a
    propositional argument is truth-table valid), instantiated per logic (`c03_closed_tt`).
  * correspondence / search: exhaustive small + random propositional arguments × logics × option
    matrix: the real verdict must equal `ttValid` computed by the Lean driver on the documented
    tables AND by an independent Python enumeration; the run must finish on its own (not
    premature, no quit flag); histories are replayed through the calculus model.
The "if" half (completeness) and termination are not theorems yet: they rest on this sweep.
"""
from __future__ import annotations

import collections
import itertools

from .. import logicobl, tabrun, wire
from ..common import Ctx, drive

LEVEL = 'proof'
THMS = ['sound_core', 'c03_closed_tt', 'tables_total']


def small_sentences():
    from pytableaux.lang import Atomic, Operated
    a, b = Atomic(0, 0), Atomic(1, 0)
    out = [a, b]
    for x in (a, b):
        for o in tabrun.UN_TF:
            out.append(Operated(o, (x,)))
    for o in tabrun.BIN:
        for x in (a, b):
            for y in (a, b):
                out.append(Operated(o, (x, y)))
    return out


def py_ttvalid(lg, prem, conc):
    """independent enumeration over the documented tables (implementation-side oracle helper)"""
    ev = logicobl.SpecEval(lg)
    atoms = sorted({x for s in prem + [conc] for x in s.atomics})
    for vals in itertools.product(ev.vals, repeat=len(atoms)):
        av = dict(zip(atoms, vals))
        if all(ev.value(p, av) in ev.des for p in prem) and ev.value(conc, av) not in ev.des:
            return False, {str(k): v for k, v in av.items()}
    return True, None


def run(ctx: Ctx):
    data = logicobl.regenerate()
    logicobl.spec_tables()
    cats = dict(sound_core=lambda c, lg, t: (f'C03:sound_core:{lg}:{"_".join(t)}', f'{lg}: side condition fails: {" ".join(t)}',
                                            dict(logic=lg, theorem=f'Ptx.Gen.Obl.{lg}.sound_core'), False),
                tables_total=lambda c, lg, t: (f'C03:tables_total:{lg}', f'{lg}: tables not total', dict(logic=lg, theorem='tables_total'), False))
    from .c02 import write_obligations
    write_obligations(sorted(n for n, d in logicobl.regenerate().items() if 'fatal' not in d))
    logicobl.decide_rows(ctx, cats, THMS, extra_modules=['Ptx.Props.C03', 'Ptx.Gen.ObMeasure'] + write_obligations.modules)
    rng = ctx.rng
    pool = small_sentences()
    logics = sorted(n for n, d in data.items() if 'fatal' not in d)
    jobs = []
    n_ex = ctx.scale(45, 1000)
    n_rand = ctx.scale(12, 150)
    for lg in logics:
        pairs = [([], c) for c in pool] + [([p], c) for p in pool for c in pool]
        chosen = pairs if len(pairs) <= n_ex else rng.sample(pairs, n_ex)
        for prem, conc in chosen:
            # "without limits": None, 0 and negative step limits mean unlimited — a tenth of the small arguments run that way
            jobs.append(tabrun.job_for(len(jobs), lg, prem, conc, opts=tabrun.OPTS[rng.randrange(4)], kind='exhaustive-small',
                                       max_steps=rng.choice([None, 0, -1]) if rng.random() < 0.1 else 1200))
        for _ in range(n_rand):
            prem, conc = tabrun.rand_argument(rng, depth=rng.choice([2, 3, 3]), max_prem=2)
            jobs.append(tabrun.job_for(len(jobs), lg, prem, conc, opts=tabrun.OPTS[rng.randrange(4)], kind='random',
                                       max_steps=1200))
    # targeted: every truth-functional rule row that fails exactness on the regenerated tables (and is not a committed known
    # finding) gets propositional arguments built around its node shape; the verdict is compared with the truth table
    from .c04 import _parse_keyname
    from pytableaux.lang import Atomic, Operated, Operator
    A, B, C = Atomic(0, 0), Atomic(1, 0), Atomic(2, 0)
    N = Operator.Negation
    opn = {o.name: o for o in Operator}
    rows = [(r[1], r[2]) for r in (logicobl.report_lines() or []) if r[0] == 'rules_exact']
    new_rows = [(lg, kn) for lg, kn in rows
                if ctx.match_known(f'C03:valid-not-tt:{lg}:{kn}') is None and ctx.match_known(f'C03:tt-valid-not-proved:{lg}:{kn}') is None]
    by_rule = collections.defaultdict(list)
    for lg, kn in new_rows:
        by_rule[kn].append(lg)
    ntarget = 0
    for kn, lgs in sorted(by_rule.items()):
        shape, ng, d = _parse_keyname(kn)
        if shape not in opn or opn[shape] in (Operator.Possibility, Operator.Necessity):
            continue
        o = opn[shape]
        inners = [Operated(o, (A,)), Operated(o, (N(A),))] if o.arity == 1 else \
                 [Operated(o, (A, B)), Operated(o, (A, N(B))), Operated(o, (N(A), B)), Operated(o, (A, A))]
        pool2 = [A, B, N(A), N(B), Operated(Operator.Conjunction, (A, B)), Operated(Operator.Disjunction, (A, B)),
                 Operated(Operator.Disjunction, (N(A), B)), Operated(Operator.Conjunction, (A, N(Operated(Operator.Disjunction, (B, N(B)))))),
                 Operated(Operator.Conditional, (B, N(A))), C]
        args = []
        for inner in inners:
            S = N(inner) if ng else inner
            args += [([], S)] + [([p1], S) for p1 in pool2] + [([p1, p2], S) for p1 in pool2[:4] for p2 in pool2[4:]]
            args += [([S], c) for c in pool2] + [([S, p1], c) for p1 in pool2[:4] for c in pool2]
            args += [([p1], Operated(Operator.Disjunction, (S, c))) for p1 in pool2[:4] for c in pool2[:4]]
        for lg in sorted(lgs)[:3]:
            for prem, conc in args:
                jobs.append(tabrun.job_for(len(jobs), lg, prem, conc, opts=tabrun.OPTS[0], kind='targeted:' + kn, max_steps=1200))
                ntarget += 1
    ctx.add_cov(targeted_jobs=ntarget, targeted_rules=sorted(by_rule))
    # shape-directed family: every truth-functional rule row (operator x negated) on every combination of OPERAND SHAPES
    # (letter, negation, double negation, compound) in arguments that put the compound on a designated and on an
    # undesignated node — a rule that treats some operand shape specially (e.g. un-negating a negated operand instead of
    # negating it) keeps its table on letters and is only exposed by such operands
    def ng1(x): return Operated(N, (x,))
    SH_X = [A, ng1(A), ng1(ng1(A)), Operated(Operator.Conjunction, (A, B))]
    SH_Y = [B, ng1(B), ng1(ng1(B)), A, ng1(A), Operated(Operator.Disjunction, (A, C))]
    tf_ops = [o for o in Operator if o not in (Operator.Possibility, Operator.Necessity)]
    combos = []
    for o in tf_ops:
        inners = [Operated(o, (x,)) for x in SH_X + SH_Y[:3]] if o.arity == 1 else [Operated(o, (x, y)) for x in SH_X for y in SH_Y]
        for inner in inners:
            for S in (inner, ng1(inner)):
                combos += [([], S)] + [([S], c) for c in (A, B, C, ng1(A), ng1(B))] + [([p1], S) for p1 in (A, B, ng1(A), ng1(B))]
    n_shape = ctx.scale(120, 1500)
    for lg in logics:
        for prem, conc in (combos if len(combos) <= n_shape else rng.sample(combos, n_shape)):
            jobs.append(tabrun.job_for(len(jobs), lg, prem, conc, opts=tabrun.OPTS[rng.randrange(4)], kind='shape-directed', max_steps=1200))
    ctx.add_cov(shape_directed_family=len(combos), shape_directed_per_logic=min(n_shape, len(combos)))
    outs = tabrun.run_jobs(jobs, order_seed=ctx.seed % 4)
    good = [(j, o) for j, o in zip(jobs, outs) if 'error' not in o]
    for j, o in zip(jobs, outs):
        if 'error' in o:
            ctx.fail(f'C03:run-exception:{j["logic"]}:{o["error"].split(":")[0]}', f'{j["logic"]}: the prover raised {o["error"]}',
                     dict(argument=tabrun.arg_text(j), traceback=o.get('traceback')), found_input=bool(o.get('repo')))
    reqs = [f'ttvalid {j["logic"]} ## ' + ' ; '.join(j['premises']) + ' ## ' + j['conclusion'] for j, o in good]
    tt = drive(reqs)
    rep = drive([o['request'] for j, o in good])
    stats = collections.Counter()
    rep_lines = logicobl.report_lines() or []
    for (j, o), t, r in zip(good, tt, rep):
        lg = j['logic']
        ctx.count((lg, tuple(j['premises']), j['conclusion']))
        stats['runs'] += 1
        stats['steps'] += o['nsteps']
        prem = [wire.dec_sent(s) for s in j['premises']]
        conc = wire.dec_sent(j['conclusion'])
        pyv, cex = py_ttvalid(lg, prem, conc)
        if t not in ('valid', 'invalid') or (t == 'valid') != pyv:
            ctx.fail(f'C03:oracle-disagree:{lg}', f'{lg}: Lean ttValid says {t}, Python enumeration says {pyv}',
                     dict(argument=tabrun.arg_text(j), correspondence='ttValid driver vs python enumeration'), found_input=False)
            continue
        if o['premature'] or any(o['quitflags']):
            if o['nsteps'] >= 1200:
                stats['inconclusive-step-cap'] += 1
                continue
            ctx.fail(f'C03:limit:{lg}:{"quit-flag" if any(o["quitflags"]) else "premature"}',
                     f'{lg}: a propositional proof hit a limit (premature={o["premature"]}, quit flags={o["quitflags"]})',
                     dict(argument=tabrun.arg_text(j), steps=o['nsteps']), found_input=True)
            continue
        if any(o.get('wlimits') or []):
            # "terminates on its own": the library's own MaxWorlds helper says an open branch of the finished proof is
            # over its world limit — the search was stopped by the (silent) world limit, not by having nothing left to do
            stats['world-limit-reached'] += 1
            ctx.fail(f'C03:limit:{lg}:world-limit', f'{lg}: a propositional proof ran into the world limit (MaxWorlds.is_exceeded on an open '
                     f'branch of the finished tableau; {o["nsteps"]} steps)', dict(argument=tabrun.arg_text(j), steps=o['nsteps']), found_input=True)
            continue
        accepted = r.startswith('ok') and r.split(' :: ', 1)[1] == o['final']
        if not accepted:
            stats['replay-rejected'] += 1
        if o['valid'] and pyv:
            stats['valid-agree'] += 1
        elif (not o['valid']) and (not pyv):
            stats['invalid-agree'] += 1
        elif o['valid'] and not pyv:
            bad = {row[2] for row in rep_lines if row[0] == 'rules_exact' and row[1] == lg}
            used = sorted(set(o['rules']) & bad)
            ctx.fail(f'C03:valid-not-tt:{lg}:{"+".join(used) or "no-inexact-rule"}',
                     f'{lg} reports valid, but the assignment {cex} designates all premises and not the conclusion',
                     dict(argument=tabrun.arg_text(j), assignment=cex, inexact_rules_used=used), found_input=True)
        else:
            bad = {row[2] for row in rep_lines if row[0] == 'rules_exact' and row[1] == lg}
            used = sorted(set(o['rules']) & bad)
            ctx.fail(f'C03:tt-valid-not-proved:{lg}:{"+".join(used) or "no-inexact-rule"}',
                     f'{lg} reports invalid although every assignment designating the premises designates the conclusion',
                     dict(argument=tabrun.arg_text(j), inexact_rules_used=used), found_input=True)
        if not accepted and ctx.match_known(f'C03:valid-not-tt:{lg}:x') is None:
            ctx.fail(f'C03:replay:{lg}', f'{lg}: real run is not reproduced by the calculus model ({r.split(" :: ")[0]})',
                     dict(argument=tabrun.arg_text(j), correspondence='whole-proof replay', driver=r.split(' :: ')[0]), found_input=False)
    ctx.add_cov(run_stats=dict(stats), traces_validated_against_impl=stats['runs'] - stats['replay-rejected'],
                rule='per logic: arguments with 0–1 premises over the 30 sentences of depth ≤ 1 on two letters (exhaustive in the thorough tier, '
                     'sampled in quick) plus random propositional arguments of depth ≤ 3; verdict compared with ttValid (Lean driver and Python '
                     'enumeration on the documented tables); distinct = distinct (logic, argument)')
    for j, o in good[:3]:
        ctx.sample(dict(argument=tabrun.arg_text(j), valid=o['valid'], steps=o['nsteps']))
    ctx.assumptions += ['completeness (tt-valid ⇒ closed) and termination are not theorems yet; they rest on this sweep',
                        'documented tables (Spec.lean)']
