"""
Shared helpers for the lexical properties C14 (ordering / identity of lexical items) and
C15 (substitution and derived attributes of sentences).

  * wire: `enc_item` / `dec_item` for the nine lexical types (twin of lean/Ptx/Lang/LexWire.lean),
    `dec_sent` / `dec_param` that know the system predicates;
  * generators (deterministic for a given `random.Random`): `all_params`, `small_sentences`,
    `rand_pool`, `rand_sentence`, `rand_item`;
  * independent structural helpers that read ONLY the primary fields of the objects
    (`.index .subscript .arity .operator .operands .quantifier .variable .sentence .predicate
    .params`) and never the derived attributes, `==`, `hash`, `sort_tuple`, `spec`, `ident`:
    `struct_eq`, `walk`, and small readers of a walk; `twin` (an equal but not identical
    parameter object).

Nothing here runs at import time except building constant tables.
"""
from __future__ import annotations

import itertools

from .. import common, wire  # noqa: F401  (common sets sys.path / the guard)
from ..wire import OP1, OP1R, OP2, OP2R, QT, QTR, enc_param, enc_sent  # noqa: F401  (re-exported)

from pytableaux.lang import (Atomic, Constant, Operated, Operator, Predicate,
                             Predicated, Quantified, Quantifier, Variable)

BIG = 10 ** 20                    # the "large subscript"
SUBS = (0, 1, BIG)

SYSTEM_SPECS = {(-1, 0, 2): 'Identity', (-2, 0, 1): 'Existence'}
OPTOK = {**OP1, **OP2}            # Operator -> token
OPTOKR = {**OP1R, **OP2R}         # token -> Operator
UNARY = tuple(OP1)                # Assertion, Negation, Possibility, Necessity
BINARY = tuple(OP2)
QUANTS = tuple(QT)                # Existential, Universal

ITEM_KINDS = ('Predicate', 'Constant', 'Variable', 'Quantifier', 'Operator',
              'Atomic', 'Predicated', 'Quantified', 'Operated')


# --------------------------------------------------------------------------
# wire
# --------------------------------------------------------------------------

def mk_pred(index: int, subscript: int, arity: int):
    "The predicate with these coordinates; system predicates are looked up, never constructed."
    if index < 0:
        name = SYSTEM_SPECS.get((index, subscript, arity))
        if name is None:
            raise ValueError(f'no system predicate {(index, subscript, arity)}')
        return getattr(Predicate, name)
    return Predicate(index, subscript, arity)


def dec_param(ts: list[str]):
    "consume `c i s` / `v i s` from the token list"
    k, i, s = ts[0], int(ts[1]), int(ts[2])
    if k not in ('c', 'v'):
        raise ValueError(f'not a parameter: {k}')
    del ts[:3]
    return Constant(i, s) if k == 'c' else Variable(i, s)


def dec_sent_toks(ts: list[str]):
    "consume one sentence from the token list (like wire.dec_sent_toks, plus system predicates)"
    k = ts.pop(0)
    if k == 'a':
        i, s = int(ts.pop(0)), int(ts.pop(0))
        return Atomic(i, s)
    if k == 'p':
        i, s, ar, n = (int(ts.pop(0)) for _ in range(4))
        params = tuple(dec_param(ts) for _ in range(n))
        return Predicated(mk_pred(i, s, ar), params)
    if k == 'q':
        q = QTR[ts.pop(0)]
        vi, vs = int(ts.pop(0)), int(ts.pop(0))
        return Quantified(q, Variable(vi, vs), dec_sent_toks(ts))
    if k == 'u':
        o = OP1R[ts.pop(0)]
        return Operated(o, (dec_sent_toks(ts),))
    if k == 'b':
        o = OP2R[ts.pop(0)]
        a = dec_sent_toks(ts)
        b = dec_sent_toks(ts)
        return Operated(o, (a, b))
    raise ValueError(f'not a sentence: {k}')


def dec_sent(text: str):
    ts = text.split()
    s = dec_sent_toks(ts)
    if ts:
        raise ValueError(f'trailing tokens {ts}')
    return s


def parse_param(text: str):
    ts = text.split()
    p = dec_param(ts)
    if ts:
        raise ValueError(f'trailing tokens {ts}')
    return p


def enc_pred(p) -> str:
    return f'P {p.index} {p.subscript} {p.arity}'


def enc_item(x) -> str:
    "Predicate `P i s ar` | Constant `c i s` | Variable `v i s` | `Q E|U` | `O <tok>` | sentence tokens"
    t = type(x)
    if t is Predicate:
        return enc_pred(x)
    if t is Constant or t is Variable:
        return enc_param(x)
    if t is Quantifier:
        return f'Q {QT[x]}'
    if t is Operator:
        return f'O {OPTOK[x]}'
    return enc_sent(x)


def dec_item_toks(ts: list[str]):
    k = ts[0]
    if k == 'P':
        i, s, ar = int(ts[1]), int(ts[2]), int(ts[3])
        del ts[:4]
        return mk_pred(i, s, ar)
    if k in ('c', 'v'):
        return dec_param(ts)
    if k == 'Q':
        q = QTR[ts[1]]
        del ts[:2]
        return q
    if k == 'O':
        o = OPTOKR[ts[1]]
        del ts[:2]
        return o
    return dec_sent_toks(ts)


def dec_item(text: str):
    ts = text.split()
    x = dec_item_toks(ts)
    if ts:
        raise ValueError(f'trailing tokens {ts}')
    return x


def dec_items(text: str, sep: str = '|') -> list:
    "` | `-separated items (answer of the driver's `sort`)"
    return [dec_item(seg) for seg in text.split(sep) if seg.strip()]


# --------------------------------------------------------------------------
# independent structural helpers
# --------------------------------------------------------------------------

def kind_of(s) -> str:
    t = type(s)
    if t is Atomic:
        return 'atom'
    if t is Predicated:
        return 'pred'
    if t is Quantified:
        return 'quant'
    if t is Operated:
        return 'op'
    raise TypeError(f'not a sentence: {type(s).__name__}')


def param_tok(p) -> tuple:
    t = type(p)
    if t is Constant:
        return ('param', 'c', p.index, p.subscript)
    if t is Variable:
        return ('param', 'v', p.index, p.subscript)
    raise TypeError(f'not a parameter: {type(p).__name__}')


def pred_coords(p) -> tuple:
    if type(p) is not Predicate:
        raise TypeError(f'not a predicate: {type(p).__name__}')
    return (p.index, p.subscript, p.arity)


def walk(s) -> list[tuple]:
    """Flat prefix-order token list of a sentence:
    ('atom',i,s) | ('pred',(idx,sub,ar),n) | ('param','c'|'v',i,s) | ('quant',name,vi,vs) | ('op',name).
    The bound variable of a quantifier lives inside the 'quant' token; it is not a 'param'."""
    out: list[tuple] = []
    stack = [s]
    while stack:
        x = stack.pop()
        k = kind_of(x)
        if k == 'atom':
            out.append(('atom', x.index, x.subscript))
        elif k == 'pred':
            ps = x.params
            if type(ps) is not tuple:
                raise TypeError(f'params is {type(ps).__name__}')
            out.append(('pred', pred_coords(x.predicate), len(ps)))
            out.extend(param_tok(p) for p in ps)
        elif k == 'quant':
            q, v = x.quantifier, x.variable
            if type(q) is not Quantifier or type(v) is not Variable:
                raise TypeError(f'quantified over {type(q).__name__} / {type(v).__name__}')
            out.append(('quant', q.name, v.index, v.subscript))
            stack.append(x.sentence)
        else:
            o, ops = x.operator, x.operands
            if type(o) is not Operator or type(ops) is not tuple:
                raise TypeError(f'operated by {type(o).__name__} on {type(ops).__name__}')
            out.append(('op', o.name))
            stack.extend(reversed(ops))
    return out


def struct_eq(a, b) -> bool:
    "Same structure: types, coordinates, operator / quantifier identity, children (recursively)."
    ta = type(a)
    if ta is not type(b):
        return False
    if ta is Atomic or ta is Constant or ta is Variable:
        return a.index == b.index and a.subscript == b.subscript
    if ta is Predicate:
        return a.index == b.index and a.subscript == b.subscript and a.arity == b.arity
    if ta is Quantifier or ta is Operator:
        return a is b
    if ta is Predicated:
        return (struct_eq(a.predicate, b.predicate) and len(a.params) == len(b.params)
                and all(struct_eq(x, y) for x, y in zip(a.params, b.params)))
    if ta is Quantified:
        return (a.quantifier is b.quantifier and struct_eq(a.variable, b.variable)
                and struct_eq(a.sentence, b.sentence))
    if ta is Operated:
        return (a.operator is b.operator and len(a.operands) == len(b.operands)
                and all(struct_eq(x, y) for x, y in zip(a.operands, b.operands)))
    return False


def depth(s) -> int:
    "nesting depth of connectives / quantifiers (a leaf has depth 0)"
    k = kind_of(s)
    if k in ('atom', 'pred'):
        return 0
    if k == 'quant':
        return 1 + depth(s.sentence)
    return 1 + max(depth(x) for x in s.operands)


def param_from_tok(tok):
    "('param', 'c'|'v', i, s) -> the parameter object"
    return (Constant if tok[1] == 'c' else Variable)(tok[2], tok[3])


def twin(p):
    """An equal but NOT identical parameter object.  `Constant(i, s)` goes through the
    metaclass' instance cache and normally returns the one cached object; `cls.__new__`
    builds a complete second instance (the constructors of Constant / Variable do nothing
    else), as also happens naturally once the cache (1000 entries) has evicted the first."""
    cls = type(p)
    if cls is not Constant and cls is not Variable:
        raise TypeError(f'not a parameter: {cls.__name__}')
    return cls.__new__(cls, p.index, p.subscript)


def walk_params(w) -> list[tuple]:
    "parameter occurrences of a walk, left to right (the 'param' tokens)"
    return [t for t in w if t[0] == 'param']


def walk_binders(w) -> list[tuple]:
    "the bound variables of a walk, outermost first, as 'param'-shaped tokens"
    return [('param', 'v', t[2], t[3]) for t in w if t[0] == 'quant']


def has_shared_binder(s, bound=()) -> bool:
    "some quantifier re-binds a variable already bound by an enclosing quantifier"
    k = kind_of(s)
    if k in ('atom', 'pred'):
        return False
    if k == 'quant':
        v = (s.variable.index, s.variable.subscript)
        return v in bound or has_shared_binder(s.sentence, bound + (v,))
    return any(has_shared_binder(x, bound) for x in s.operands)


# --------------------------------------------------------------------------
# generators
# --------------------------------------------------------------------------

def all_params(max_index: int = 1, subs=(0, 1)) -> list:
    "constants then variables, index 0..max_index, each subscript of `subs`"
    return ([Constant(i, s) for s in subs for i in range(max_index + 1)]
            + [Variable(i, s) for s in subs for i in range(max_index + 1)])


class Alphabet:
    """A finite alphabet for `small_sentences`: leaf sentences, unary / binary operators and
    (quantifier, variable) binders."""

    def __init__(self, name, leaves, unary, binary, binders):
        self.name = name
        self.leaves = tuple(leaves)
        self.unary = tuple(unary)
        self.binary = tuple(binary)
        self.binders = tuple(binders)

    def size(self, depth: int) -> int:
        "number of sentences of depth <= `depth`"
        n = k = len(self.leaves)
        for _ in range(depth):
            n = k + (len(self.unary) + len(self.binders)) * n + len(self.binary) * n * n
        return n


def small_alphabet(level: str = 'full') -> Alphabet:
    """Alphabets over atoms A, B(sub 1); predicates F (0,0,1), G (1,0,2), Identity, Existence;
    params a, b, x, y; the 10 operators; both quantifiers.

      'full'  every leaf (42), all operators, both quantifiers over x and y      depth 1 = 10 962
      'mid'   4 leaves, N M / K I B, binders Ux Ex Uy                             depth 2 = 15 916
      'mini'  3 leaves, N / K I, binders Ux Ex Uy                                 depth 2 =  2 313
    """
    a, b = Constant(0, 0), Constant(1, 0)
    x, y = Variable(0, 0), Variable(1, 0)
    F, G = Predicate(0, 0, 1), Predicate(1, 0, 2)
    Id, Ex = Predicate.Identity, Predicate.Existence
    A, B = Atomic(0, 0), Atomic(1, 1)
    O, Q = Operator, Quantifier
    if level == 'full':
        params = (a, b, x, y)
        leaves = [A, B]
        leaves += [Predicated(F, (p,)) for p in params]
        leaves += [Predicated(G, pq) for pq in itertools.product(params, params)]
        leaves += [Predicated(Id, pq) for pq in itertools.product(params, params)]
        leaves += [Predicated(Ex, (p,)) for p in params]
        return Alphabet('full', leaves, UNARY, BINARY, [(q, v) for q in QUANTS for v in (x, y)])
    binders = [(Q.Universal, x), (Q.Existential, x), (Q.Universal, y)]
    if level == 'mid':
        leaves = [A, Predicated(F, (x,)), Predicated(G, (x, a)), Predicated(Id, (y, x))]
        return Alphabet('mid', leaves, (O.Negation, O.Possibility),
                        (O.Conjunction, O.Conditional, O.Biconditional), binders)
    if level == 'mini':
        leaves = [A, Predicated(G, (x, a)), Predicated(Id, (y, x))]
        return Alphabet('mini', leaves, (O.Negation,), (O.Conjunction, O.Conditional), binders)
    raise ValueError(level)


def small_sentences(depth: int, alphabet: Alphabet | str = 'mini'):
    """Every sentence of depth <= `depth` over the alphabet, each exactly once, in a fixed
    order (by depth, then leaves / unary / binders / binary)."""
    al = small_alphabet(alphabet) if isinstance(alphabet, str) else alphabet
    older: list = []                 # depth < d - 1
    last = list(al.leaves)           # depth == d - 1
    yield from last
    for _ in range(depth):
        new = []
        for o in al.unary:
            new.extend(Operated(o, (s,)) for s in last)
        for q, v in al.binders:
            new.extend(Quantified(q, v, s) for s in last)
        for o in al.binary:
            # at least one operand of depth d-1
            new.extend(Operated(o, (l, r)) for l in last for r in older)
            new.extend(Operated(o, (l, r)) for l in older for r in last)
            new.extend(Operated(o, (l, r)) for l in last for r in last)
        yield from new
        older += last
        last = new


RAND_PREDS = ((0, 0, 1), (1, 0, 2), (2, 1, 3), (3, BIG, 1), (0, 1, 2), (1, 0, 3))


def rand_param(rng, cls=None):
    "a parameter with index 0..3 and subscript 0 / 1 / large"
    cls = cls or rng.choice((Constant, Variable))
    return cls(rng.randint(0, 3), rng.choice(SUBS) if rng.random() < 0.7 else rng.choice((0, 2, BIG + 1)))


def rand_pool(rng, n: int = 6) -> list:
    """A small pool of parameters to draw the occurrences of one sentence from (so that
    repetitions are common): at least one constant, one variable, one large subscript."""
    pool = [rand_param(rng, Constant), rand_param(rng, Variable),
            rng.choice((Constant, Variable))(rng.randint(0, 3), BIG)]
    while len(pool) < n:
        pool.append(rand_param(rng))
    return pool


def rand_pred(rng, system: float = 0.3):
    if rng.random() < system:
        return rng.choice((Predicate.Identity, Predicate.Existence))
    return mk_pred(*rng.choice(RAND_PREDS))


def rand_leaf(rng, pool, bound=(), atom: float = 0.25):
    if rng.random() < atom:
        return Atomic(rng.randint(0, 4), rng.choice(SUBS))
    pred = rand_pred(rng)
    ps = []
    for _ in range(pred.arity):
        r = rng.random()
        if ps and r < 0.3:
            ps.append(rng.choice(ps))               # repeated parameter inside one predication
        elif bound and r < 0.65:
            ps.append(rng.choice(bound))            # a variable bound by an enclosing quantifier
        else:
            ps.append(rng.choice(pool))
    return Predicated(pred, tuple(ps))


def rand_sentence(rng, depth: int, pool=None, bound=(), *, leaf: float = 0.12, quant: float = 0.3,
                  share: float = 0.35):
    """A random sentence of depth <= `depth`.  Quantifiers re-bind an already bound variable
    with probability `share`; bodies use the bound variables often but not always; system
    predicates, arity-3 predicates, repeated parameters, subscripts 0 / 1 / 10**20 and the
    atomic index 4 all occur."""
    if pool is None:
        pool = rand_pool(rng)
    if depth <= 0 or rng.random() < leaf:
        return rand_leaf(rng, pool, bound)
    r = rng.random()
    if r < quant:
        if bound and rng.random() < share:
            v = rng.choice(bound)
        else:
            vs = [p for p in pool if type(p) is Variable]
            v = rng.choice(vs) if vs and rng.random() < 0.8 else rand_param(rng, Variable)
        body = rand_sentence(rng, depth - 1, pool, bound + (v,), leaf=leaf, quant=quant, share=share)
        return Quantified(rng.choice(QUANTS), v, body)
    if r < quant + 0.25:
        return Operated(rng.choice(UNARY), (rand_sentence(rng, depth - 1, pool, bound, leaf=leaf, quant=quant, share=share),))
    # one operand of full depth, the other possibly shallower
    d2 = depth - 1 if rng.random() < 0.5 else rng.randint(0, depth - 1)
    a = rand_sentence(rng, depth - 1, pool, bound, leaf=leaf, quant=quant, share=share)
    b = rand_sentence(rng, d2, pool, bound, leaf=leaf, quant=quant, share=share)
    if rng.random() < 0.5:
        a, b = b, a
    return Operated(rng.choice(BINARY), (a, b))


def rand_item(rng, depth: int | None = None):
    "a random item of any of the nine lexical types"
    k = rng.choice(ITEM_KINDS)
    if k == 'Predicate':
        return rand_pred(rng, 0.25) if rng.random() < 0.7 else \
            Predicate(rng.randint(0, 3), rng.choice(SUBS), rng.choice((1, 2, 3, 7)))
    if k == 'Constant':
        return rand_param(rng, Constant)
    if k == 'Variable':
        return rand_param(rng, Variable)
    if k == 'Quantifier':
        return rng.choice(QUANTS)
    if k == 'Operator':
        return rng.choice(UNARY + BINARY)
    if k == 'Atomic':
        return Atomic(rng.randint(0, 4), rng.choice(SUBS))
    if k == 'Predicated':
        return rand_leaf(rng, rand_pool(rng), atom=0.0)
    d = depth if depth is not None else rng.randint(1, 4)
    pool = rand_pool(rng)
    if k == 'Quantified':
        v = rng.choice([p for p in pool if type(p) is Variable])
        return Quantified(rng.choice(QUANTS), v, rand_sentence(rng, d - 1, pool, (v,)))
    if rng.random() < 0.4:
        return Operated(rng.choice(UNARY), (rand_sentence(rng, d - 1, pool),))
    return Operated(rng.choice(BINARY), (rand_sentence(rng, d - 1, pool), rand_sentence(rng, rng.randint(0, d - 1), pool)))
