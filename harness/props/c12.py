"""
C12 — sentences and arguments survive a write/parse round trip.

Proof:  lean/Ptx/Props/C12.lean (models: lean/Ptx/Lang/Write.lean, Parse*.lean).
Tie:    symbol tables regenerated from the running code with their side-conditions
        (`Compat`, `Complete`, `symbols_distinct`, `argstr_sep_unknown`) re-proved by
        `decide +kernel`; the hand-written writer / parser models are run against the real
        `LexWriter` / `Parser` on generated sentences, for EVERY notation × format × dialect ×
        writer-option combination.
Search: implementation-side oracles (no Lean): parse(write(s)) == s wherever the notation's
        parser reads the writer's dialect; argument-string round trip; pairwise distinct
        renderings over the exhaustive-small tier; standard parser on independently built
        infix strings (outer parens optional, extra whitespace).
"""
from __future__ import annotations

import json

from ..common import ROOT, lean_phase
from ..wire import dec_sent, enc_sent
from . import _parse as P
from ._parse import (Argument, Atomic, Operated, Operator, ParseError, Parser, Predicate, Predicated,
                     Quantified)

LEVEL = 'proof'
PROP = 'C12'


# ---------------------------------------------------------------------------
# an independent infix renderer for the standard parser ("the sentence it denotes")
# ---------------------------------------------------------------------------

def std_render(s, rng, top=True) -> str:
    """Built from the documented standard alphabet directly (parse table reversed), never
    through a LexWriter: full parenthesisation, outer parens optional, random extra blanks,
    identity infix or prefix."""
    from pytableaux.lang import Notation
    from pytableaux.lang.parsing import ParseTable
    rev = ParseTable.fetch(Notation.standard).reversed

    def ws():
        return ' ' * rng.choice([0, 0, 1, 1, 2, 3])

    def sub(n):
        return '' if n == 0 else ws().join(str(n)) if rng.random() < 0.2 else str(n)

    def coord(item):
        return rev[type(item), item.index] + ws() + sub(item.subscript)

    t = type(s)
    if t is Atomic:
        return coord(s)
    if t is Predicated:
        p = s.predicate
        if p.is_system:
            sym = rev[Predicate.System, p]
        else:
            sym = rev[Predicate, p.index] + ws() + sub(p.subscript)
        if p.arity >= 2 and rng.random() < 0.5:
            return coord(s[0]) + ws() + sym + ws() + ws().join(coord(x) for x in s[1:])
        return sym + ws() + ws().join(coord(x) for x in s)
    if t is Quantified:
        return rev[s.quantifier] + ws() + coord(s.variable) + ws() + std_render(s.sentence, rng, False)
    if s.operator.arity == 1:
        return rev[s.operator] + ws() + std_render(s.lhs, rng, False)
    body = std_render(s.lhs, rng, False) + ws() + rev[s.operator] + ws() + std_render(s.rhs, rng, False)
    if top and rng.random() < 0.5:
        return body
    return '(' + ws() + body + ws() + ')'


def has_existence(s) -> bool:
    t = type(s)
    if t is Predicated:
        return s.predicate is Predicate.Existence
    if t is Quantified:
        return has_existence(s.sentence)
    if t is Operated:
        return any(has_existence(x) for x in s.operands)
    return False


def has_infix_user(s, mi) -> bool:
    t = type(s)
    if t is Predicated:
        return 1 < s.predicate.arity < mi
    if t is Quantified:
        return has_infix_user(s.sentence, mi)
    if t is Operated:
        return any(has_infix_user(x, mi) for x in s.operands)
    return False


def roundtrip_expected(cfg, s) -> bool:
    """Where the property demands parse(write(s)) == s."""
    notn, fmt, dialect, opts = cfg
    if not P.in_parser_language([s]):
        return False
    if max_sub(s) >= 10 ** (P.INT_LIMIT or 10 ** 9):
        return False
    if not P.parser_reads(cfg):
        return False
    if P.has_subscript(s) and dialect != 'ascii':
        return False                       # subscript markers of the other dialects are not parser input
    if notn == 'standard':
        # the standard writer's Existence symbol `E!` and negated-identity symbol `!=` are not
        # parser input (documented alphabet has `!` prefix and no `!=`)
        if has_existence(s) or (opts.get('identity_infix') and P.has_neg_identity(s)):
            return False
    return True


def max_sub(s) -> int:
    t = type(s)
    if t is Atomic:
        return s.subscript
    if t is Predicated:
        return max([s.predicate.subscript] + [p.subscript for p in s.params])
    if t is Quantified:
        return max(s.variable.subscript, max_sub(s.sentence))
    return max(max_sub(x) for x in s.operands)


# ---------------------------------------------------------------------------
# oracles
# ---------------------------------------------------------------------------

def oracle_roundtrip(cfg, s):
    """→ (key, what) or None"""
    notn = cfg[0]
    try:
        text = P.mk_writer(cfg)(s)
    except Exception as e:  # noqa
        return (f'{PROP}:writer-raises:{P.writer_token(cfg)}:{type(e).__name__}',
                f'writer {P.writer_token(cfg)} raised {type(e).__name__} on {enc_sent(s)}: {e}')
    if not roundtrip_expected(cfg, s):
        return None
    try:
        back = Parser(notn)(text)
    except Exception as e:  # noqa
        return (f'{PROP}:roundtrip:{"/".join(cfg[:3])}:{type(e).__name__}',
                f'parse(write(s)) raised {type(e).__name__} for s = {enc_sent(s)}, rendering {text!r}: {e}')
    if back != s:
        return (f'{PROP}:roundtrip:{"/".join(cfg[:3])}:different-sentence',
                f'parse(write(s)) = {enc_sent(back)} ≠ s = {enc_sent(s)}, rendering {text!r}')
    return None


def oracle_argstr(arg):
    try:
        text = arg.argstr()
        back = Argument.from_argstr(text)
    except Exception as e:  # noqa
        return (f'{PROP}:argstr:{type(e).__name__}', f'from_argstr(argstr(a)) raised {type(e).__name__}: {e}; '
                f'a = {[enc_sent(s) for s in arg]}')
    if tuple(back) != tuple(arg):
        return (f'{PROP}:argstr:different-argument', f'from_argstr({text!r}) = {[enc_sent(s) for s in back]} ≠ '
                f'{[enc_sent(s) for s in arg]}')
    return None


def oracle_denotes(s, text):
    try:
        back = Parser('standard')(text)
    except Exception as e:  # noqa
        return (f'{PROP}:standard-denotes:{type(e).__name__}',
                f'standard parser raised {type(e).__name__} on the infix string {text!r} denoting {enc_sent(s)}: {e}')
    if back != s:
        return (f'{PROP}:standard-denotes:different-sentence',
                f'standard parser maps {text!r} to {enc_sent(back)}, it denotes {enc_sent(s)}')
    return None


# ---------------------------------------------------------------------------
# run
# ---------------------------------------------------------------------------

def run(ctx):
    from ..extract import symbols
    try:
        symbols.generate()
    except Exception as e:
        ctx.fail(f'{PROP}:extract:{type(e).__name__}', f'symbol-table extraction failed: {e}',
                 dict(correspondence='harness/extract/symbols.py'), found_input=False)
    res = lean_phase(ctx, ['Ptx.Props.C12'], extra_targets=['Ptx.Gen.ObSymbols'])
    ctx.coverage['trusted_base'] += [
        'harness/extract/symbols.py (complete enumeration of ParseTable/StringTable instances)',
        'correspondence harness bounds what has been seen of the hand-written writer/parser models',
        'modelled: CPython int<->str digit limit (a parameter), recursion limit (fuel)']
    ctx.assumptions += [
        'every subscript has at most sys.get_int_max_str_digits() digits (beyond it str() in the WRITER raises)',
        'the standard-notation theorem and rendered-string injectivity beyond polish/ascii are NOT proved: '
        'covered by correspondence and the implementation-side oracles only']
    rng = ctx.rng
    cfgs = P.writer_configs()
    hist = ctx.coverage.setdefault('sentence_histogram', {})
    gen = P.SentGen(rng, hist)

    # ---- sentences
    small = P.small_sentences(ctx.scale(2, 2), wide=ctx.thorough)
    if not ctx.thorough:
        small = small[:2500]
    rand_lang = [gen.sentence(rng.randrange(1, 7)) for _ in range(ctx.scale(700, 8000))]
    rand_wild = [gen.sentence(rng.randrange(1, 6), wild=True) for _ in range(ctx.scale(200, 2000))]
    corpus = []
    cdir = ROOT / 'corpus' / PROP
    if cdir.is_dir():
        for f in sorted(cdir.glob('*.json')):
            corpus.append(dec_sent(json.loads(f.read_text())['sentence']))
    sents = list(dict.fromkeys(corpus + small + rand_lang + rand_wild))
    ctx.add_cov(input_distribution=dict(corpus=len(corpus), exhaustive_small=len(small), random_language=len(rand_lang),
                                        random_wild=len(rand_wild), writer_configs=len(cfgs)),
                depth_histogram={str(d): sum(1 for s in sents if P.depth(s) == d) for d in range(1, 8)})

    # ---- writer correspondence + round-trip oracle, all configs
    lines, meta, py_out = [], [], []
    small_set = set(small)
    renderings: dict = {}
    n_rt = 0
    failed_inputs = set()
    for ci, cfg in enumerate(cfgs):
        w = P.mk_writer(cfg)
        tok = P.writer_token(cfg)
        # every config sees the whole exhaustive tier; random sentences are spread over the configs
        for si, s in enumerate(sents):
            if s not in small_set and (si + ci) % 4 and not (cfg[2] == 'ascii'):
                continue
            try:
                text = w(s)
            except Exception as e:  # noqa
                ctx.fail(f'{PROP}:writer-raises:{tok}:{type(e).__name__}',
                         f'writer {tok} raised {type(e).__name__} on {enc_sent(s)}: {e}',
                         dict(writer=cfg, sentence=enc_sent(s)))
                continue
            ctx.count((tok, enc_sent(s)))
            lines.append(f'wp {tok} {enc_sent(s)}')
            meta.append((cfg, s))
            py_out.append('ok ' + P.cps(text))
            # injectivity: over the exhaustive-small tier all pairs, elsewhere whatever collides
            prev = renderings.setdefault((tok, text), s)
            if prev != s:
                ctx.fail(f'{PROP}:render-collision:{"/".join(cfg[:3])}',
                         f'distinct sentences {enc_sent(prev)} and {enc_sent(s)} both render to {text!r} under {tok}',
                         dict(writer=list(cfg[:3]), opts=cfg[3], sentences=[enc_sent(prev), enc_sent(s)]))
                failed_inputs.add((ci, si))
            if roundtrip_expected(cfg, s):
                n_rt += 1
                r = oracle_roundtrip(cfg, s)
                if r:
                    ctx.fail(r[0], r[1], dict(writer=list(cfg[:3]), opts=cfg[3], sentence=enc_sent(s)))
                    failed_inputs.add((ci, si))
    ctx.add_cov(roundtrip_oracle_cases=n_rt, renderings_compared_pairwise=len(renderings))

    # ---- argument strings
    args = []
    for i in range(ctx.scale(400, 5000)):
        ar = {}
        ss = [gen.sentence(rng.randrange(1, 5), arities=ar) for _ in range(rng.randrange(1, 5))]
        args.append(Argument(ss[0], ss[1:]))
    arg_lines, arg_py = [], []
    n_rejected = 0
    prev_text = None
    last_bad = None
    for a in args:
        ctx.count(('argstr',) + tuple(enc_sent(s) for s in a))
        # history: a malformed submission (the previous argument's string damaged so that it fails AFTER having
        # declared its predicates) must not influence the next round trip (same symbol, other arity is common here)
        if prev_text is not None and rng.random() < 0.45:
            bad = rng.choice([prev_text + ')', prev_text + ':Fx9', prev_text[:-1] if len(prev_text) > 2 else prev_text + 'K',
                              'K' + prev_text])
            last_bad = bad
            for build in (Argument.from_argstr, Argument):
                try:
                    build(bad)
                except Exception:  # noqa - whatever it raises is C13's business
                    n_rejected += 1
        if max(max_sub(s) for s in a) < 10 ** (P.INT_LIMIT or 10 ** 9):
            r = oracle_argstr(a)
            if r:
                ctx.fail(r[0] + (':after-rejected-input' if prev_text is not None else ''), r[1],
                         dict(argument=[enc_sent(s) for s in a], submitted_before=last_bad, history_note='arguments are rebuilt in sequence in one process, '
                              'with damaged strings submitted in between; previous string: ' + repr(prev_text)))
        prev_text = a.argstr()
        text = a.argstr()
        arg_lines.append('argstr ' + ' | '.join(enc_sent(s) for s in a))
        arg_py.append('ok ' + P.cps(text))
        arg_lines.append(f'fromargstr polish:lim={P.INT_LIMIT} ' + P.cps(text))
        try:
            b = Argument.from_argstr(text)
            arg_py.append('ok ' + ' | '.join(enc_sent(s) for s in b))
        except ParseError:
            arg_py.append('err:ParseError')
        except Exception as e:  # noqa
            arg_py.append(P.exc_kind(e))

    # ---- standard parser on independently rendered infix strings
    den_lines, den_py, n_den = [], [], 0
    for s in [x for x in small + rand_lang if P.in_parser_language([x])][: ctx.scale(2500, 20000)]:
        for _ in range(2):
            text = std_render(s, rng)
            n_den += 1
            ctx.count(('denotes', text))
            r = oracle_denotes(s, text)
            if r:
                ctx.fail(r[0], r[1], dict(sentence=enc_sent(s), text=text))
            den_lines.append(f'pp standard:lim={P.INT_LIMIT} - {P.cps(text)}')
            ans, _, _ = P.py_parse(Parser('standard'), text)
            den_py.append(ans)
    ctx.add_cov(standard_denotes_cases=n_den, argstr_cases=len(args), argstr_damaged_submissions_between=n_rejected)

    # ---- parsers on the writers' output (model vs code), both notations
    pp_lines, pp_py = [], []
    for notn in ('polish', 'standard'):
        lw = P.LexWriter(notn, 'text', 'ascii')
        for s in sents[:: ctx.scale(3, 1)]:
            text = lw(s)
            pp_lines.append(f'pp {notn}:lim={P.INT_LIMIT} - {P.cps(text)}')
            ans, _, _ = P.py_parse(Parser(notn), text)
            pp_py.append(ans)
            ctx.count(('pp', notn, text))

    if not res.ok:
        if not ctx.violations and not ctx.known_hit:
            for f, d in res.failed_decls() or [('?', '?')]:
                ctx.fail(f'{PROP}:lean:build:{d}', f'Lean build failed at {f}:{d}; the implementation-side oracles '
                         f'found no failing input\n{res.log[-1500:]}', dict(theorem=d, file=f), found_input=False)
        return

    # ---- diff with the model
    def diff(stream, reqs, expected, describe):
        got = P.drive_chunks(reqs)
        n = 0
        for i, (g, e) in enumerate(zip(got, expected)):
            if g != e:
                n += 1
                if n <= 3:
                    ctx.fail(f'{PROP}:corr:{stream}', f'model and code disagree ({stream}) on {describe(i)}: '
                             f'code {e[:160]!r} model {g[:160]!r}',
                             dict(request=reqs[i][:2000], expected_model=g[:2000], observed=e[:2000],
                                  correspondence=stream), found_input=False)
        return n

    nd = diff('writers', lines, py_out, lambda i: f'{P.writer_token(meta[i][0])} {enc_sent(meta[i][1])}')
    nd += diff('argstr', arg_lines, arg_py, lambda i: arg_lines[i][:120])
    nd += diff('standard-denotes', den_lines, den_py, lambda i: repr(P.uncps(den_lines[i].split(' ')[-1]))[:120])
    nd += diff('parse-of-write', pp_lines, pp_py, lambda i: repr(P.uncps(pp_lines[i].split(' ')[-1]))[:120])
    ctx.add_cov(correspondence_cases=len(lines) + len(arg_lines) + len(den_lines) + len(pp_lines), disagreements=nd,
                rule='distinct = distinct (writer config, sentence) pairs, argument tuples, parser input strings')
    for (cfg, s), o in list(zip(meta, py_out))[:: max(1, len(meta) // 10)]:
        ctx.sample(dict(writer=P.writer_token(cfg), sentence=enc_sent(s), rendering=P.uncps(o[3:])[:80]))


def replay(data) -> int:
    d = data.get('replay', data)
    bad = 0
    if 'sentence' in d and 'writer' in d:
        cfg = (*d['writer'], d.get('opts', {}))
        r = oracle_roundtrip(cfg, dec_sent(d['sentence']))
        if r:
            print(r[0], r[1]); bad = 1
    elif 'sentences' in d and 'writer' in d:
        cfg = (*d['writer'], d.get('opts', {}))
        w = P.mk_writer(cfg)
        a, b = (dec_sent(x) for x in d['sentences'])
        if a != b and w(a) == w(b):
            print(f'render collision: {w(a)!r}'); bad = 1
    elif 'argument' in d:
        ss = [dec_sent(x) for x in d['argument']]
        if d.get('submitted_before'):
            for build in (Argument.from_argstr, Argument):
                try:
                    build(d['submitted_before'])
                except Exception:  # noqa
                    pass
        r = oracle_argstr(Argument(ss[0], ss[1:]))
        if r:
            print(r[0], r[1]); bad = 1
    elif 'text' in d and 'sentence' in d:
        r = oracle_denotes(dec_sent(d['sentence']), d['text'])
        if r:
            print(r[0], r[1]); bad = 1
    else:
        print('replay: no recorded input (proof obligation / correspondence failure)')
        return 1
    return bad
