"""
C09 — the verdict does not depend on how the proof is searched.

Deciding method (DESIGN §6 C09):
  * Lean (Ptx/Props/C09.lean): the calculus model has no scheduler — every theorem over `Deriv` already
    quantifies over all options, tie-break orders and build/step.  Proved: one closed derivation excludes a
    genuine countermodel of every re-ordering / duplication of the premises (instantiated per logic through
    the C01 obligations); `Countermodel` depends on the premise SET only.
  * sweep (implementation-side oracle): each argument is run under is_group_optim × is_rank_optim ×
    {build, step loop} × tie-break seeds × premise permutations / duplications; any exception, and any pair
    of runs with the classes 'valid' and 'refuted by a limit-free open branch', is a violation.  Every run is
    replayed through the calculus model (each step must be a legal instance) so that the theorem applies to it.
"""
from __future__ import annotations

import collections

from .. import logicobl, searchcorr, tabrun, wire
from ..common import Ctx, drive, InfraError
from .c10 import verdict

LEVEL = 'proof'
MODES = [(o, m) for o in range(4) for m in ('build', 'step')]


def fragments(meta):
    out = [dict(modal=False, quant=False, ident=False)]
    if meta['modal']:
        out += [dict(modal=True, quant=False, ident=False)] * 2       # modal proofs are where scores / tie-breaks matter
    if meta['quantified']:
        out.append(dict(modal=meta['modal'], quant=True, ident=not meta['marks']))
    if not meta['marks']:
        out.append(dict(modal=meta['modal'], quant=False, ident=True))       # classical family: identity rules
    return out


def run(ctx: Ctx):
    data = logicobl.regenerate()
    from .c02 import write_obligations
    write_obligations(sorted(n for n, d in data.items() if 'fatal' not in d))
    res = logicobl.obligations(ctx, ['sound_core', 'rules_sound', 'c01_valid_sound'], extra_modules=['Ptx.Props.C09'] + write_obligations.modules)
    # search layer (what decides WHICH targets exist under every option / tie-break): code vs Lean search model at every step
    try:
        searchcorr.run_part(ctx, data, prefix='C09:search-corr', salt='c09')
    except Exception as e:  # noqa
        ctx.fail('C09:search-corr:harness:exception', f'search-layer correspondence could not run: {type(e).__name__}: {e}'[:300],
                 dict(stream='search-corr'), found_input=False)
    names = sorted(n for n, d in data.items() if 'fatal' not in d)
    rng = ctx.rng
    nargs = ctx.scale(6, 20)
    ms = ctx.scale(300, 1500)
    seeds = [0, 1, 2, 3] if not ctx.thorough else list(range(6))
    by_seed = collections.defaultdict(list)
    groups = []             # per argument: list of (seed, index in that seed's job list, variant description)
    for lg in names:
        fr = fragments(data[lg])
        for k in range(nargs):
            f = fr[k % len(fr)]
            depth = rng.choice([2, 2, 3]) if not f['quant'] else rng.choice([1, 2, 2])
            prem, conc = (tabrun.schema_argument(rng, depth=min(depth, 2), **f) if k % 2 == 1 else tabrun.rand_argument(rng, depth=depth, **f))
            g = []
            variants = [(prem, 'as-given')]
            if len(prem) > 1:
                variants.append((list(reversed(prem)), 'reversed'))
            if prem:
                dup = list(prem); dup.insert(rng.randrange(len(dup) + 1), rng.choice(prem))
                variants.append((dup, 'duplicated'))
            for oi, mode in MODES:                                    # full option × mode matrix at one seed
                sd = seeds[0]
                j = tabrun.job_for(len(by_seed[sd]), lg, prem, conc, opts=tabrun.OPTS[oi], mode=mode, max_steps=ms)
                g.append((sd, len(by_seed[sd]), f'opts={oi} {mode} premises=as-given')); by_seed[sd].append(j)
            for sd in seeds[1:]:                                      # other tie-break orders, random option/mode
                oi, mode = MODES[rng.randrange(len(MODES))]
                pv, pn = variants[rng.randrange(len(variants))]
                j = tabrun.job_for(len(by_seed[sd]), lg, pv, conc, opts=tabrun.OPTS[oi], mode=mode, max_steps=ms)
                g.append((sd, len(by_seed[sd]), f'opts={oi} {mode} premises={pn}')); by_seed[sd].append(j)
            for pv, pn in variants[1:]:
                sd = seeds[0]
                j = tabrun.job_for(len(by_seed[sd]), lg, pv, conc, opts=tabrun.OPTS[0], mode='build', max_steps=ms)
                g.append((sd, len(by_seed[sd]), f'opts=0 build premises={pn}')); by_seed[sd].append(j)
            groups.append((lg, g))
    # corpus: arguments whose verdict once depended on the premise order / options (minimised past failures)
    import json
    from pytableaux.lang import Parser
    from ..common import ROOT
    pol = Parser('polish')
    cdir = ROOT / 'corpus' / 'C09'
    if cdir.exists():
        for f in sorted(cdir.glob('*.json')):
            for c in json.loads(f.read_text()):
                prem, conc = [pol(x) for x in c['premises']], pol(c['conclusion'])
                g = []
                for pv, pn in ((prem, 'as-given'), (list(reversed(prem)), 'reversed')):
                    for oi, mode in MODES[::3]:
                        sd = seeds[0]
                        j = tabrun.job_for(len(by_seed[sd]), c['logic'], pv, conc, opts=tabrun.OPTS[oi], mode=mode, max_steps=ms)
                        g.append((sd, len(by_seed[sd]), f'opts={oi} {mode} premises={pn}')); by_seed[sd].append(j)
                groups.append((c['logic'], g))
    outs = {sd: tabrun.run_jobs(js, order_seed=sd) for sd, js in by_seed.items()}
    stats = collections.Counter()
    # replay every run through the model
    flat = [(sd, i) for sd in by_seed for i in range(len(by_seed[sd])) if 'error' not in outs[sd][i]]
    accepted = {}
    if res.ok:
        try:
            answers = drive([outs[sd][i]['request'] for sd, i in flat])
            for (sd, i), a in zip(flat, answers):
                accepted[(sd, i)] = a.startswith('ok') and a.split(' :: ', 1)[1] == outs[sd][i]['final']
        except InfraError:
            pass
    for lg, g in groups:
        vs = []
        for sd, i, desc in g:
            j, o = by_seed[sd][i], outs[sd][i]
            if 'error' in o:
                stats['exception'] += 1
                exc = o['error'].split(':')[0]
                ctx.fail(f'C09:run-exception:{lg}:{exc}', f'{lg}: the build raised {o["error"][:160]} under {desc}, tie-break seed {sd}',
                         dict(argument=tabrun.arg_text(j), variant=desc, order_seed=sd, mode=j['mode'], traceback=o.get('traceback')),
                         found_input=bool(o.get('repo')))
                continue
            stats['runs'] += 1
            ctx.count((lg, tuple(j['premises']), j['conclusion'], desc, sd))
            v = verdict(o)
            stats[v] += 1
            vs.append((v, sd, i, desc))
            if accepted.get((sd, i)) is False:
                stats['replay-rejected'] += 1
                ctx.fail(f'C09:replay:{lg}', f'{lg}: a run of the sweep is not a legal derivation of the model ({desc}, seed {sd})',
                         dict(argument=tabrun.arg_text(j), variant=desc, order_seed=sd, correspondence='whole-proof replay'), found_input=False)
        classes = {v for v, *_ in vs}
        if {'valid', 'refuted'} <= classes:
            a = next(x for x in vs if x[0] == 'valid')
            b = next(x for x in vs if x[0] == 'refuted')
            ja, jb = by_seed[a[1]][a[2]], by_seed[b[1]][b[2]]
            ctx.fail(f'C09:verdict-differs:{lg}', f'{lg}: the same argument is valid under [{a[3]}, seed {a[1]}] and refuted by a limit-free '
                     f'open branch under [{b[3]}, seed {b[1]}]',
                     dict(valid_run=dict(argument=tabrun.arg_text(ja), mode=ja['mode'], order_seed=a[1]),
                          refuted_run=dict(argument=tabrun.arg_text(jb), mode=jb['mode'], order_seed=b[1])), found_input=True)
        if len(classes - {'limit'}) == 1 and 'limit' in classes:
            stats['groups_with_limit_outcomes'] += 1
        stats['groups'] += 1
    # every refuting branch must be SATURATED under every option / mode / tie-break order (that is what makes the
    # completeness theorem — closed and saturated-open exclude each other — apply to the run); where one is not, look
    # for an argument around the skipped rule instance on which the verdict really depends on the options
    sat_reqs, sat_where = [], []
    for lg, g in groups:
        for sd, i, desc in g:
            o = outs[sd][i]
            if 'error' in o or verdict(o) != 'refuted':
                continue
            brs = o['final'].split(' || ')
            for bi, (b, q, wl) in enumerate(zip(brs, o['quitflags'], o.get('wlimits') or [False] * len(brs))):
                if b.endswith('! open') and not q and not wl:
                    sat_reqs.append(f'saturated {lg} ## {b.split(" ! ")[0]}')
                    sat_where.append((lg, sd, i, desc, bi))
    stats['refuting-branches-checked-for-saturation'] = len(sat_reqs)
    unsat = collections.OrderedDict()
    if sat_reqs:
        try:
            for (lg, sd, i, desc, bi), a in zip(sat_where, drive(sat_reqs)):
                if a.startswith('ok'):
                    stats['refuting-branches-saturated'] += 1
                elif a.startswith('unsat'):
                    unsat.setdefault((lg, sd, i), (desc, bi, a))
        except InfraError as e:
            ctx.notes.append(f'driver unavailable for the saturation pass: {e}'[:200])
    if unsat:
        from .c02 import clause_of
        seen_kinds = collections.Counter()
        for (lg, sd, i), (desc, bi, a) in unsat.items():
            clause, rule = clause_of(a)
            if seen_kinds[(lg, clause, rule)] >= 2:
                continue
            seen_kinds[(lg, clause, rule)] += 1
            j, o = by_seed[sd][i], outs[sd][i]
            witness = around_unsaturated(lg, j, o, bi, a, ms)
            rep = dict(argument=tabrun.arg_text(j), variant=desc, order_seed=sd, mode=j['mode'], branch_index=bi, saturation=a[:400])
            if witness:
                rep.update(witness)
                ctx.fail(f'C09:verdict-differs:{lg}', f'{lg}: a rule instance is skipped under [{desc}] ({a[:90]}); on a neighbouring argument the '
                         f'verdict depends on the options', rep, found_input=True)
            else:
                ctx.fail(f'C09:unsaturated-refutation:{lg}:{clause}:{rule}', f'{lg}: under [{desc}, seed {sd}] the search stops with a refuting branch '
                         f'that is not saturated ({a[:120]}); the exclusivity theorem does not cover this run; no argument with differing verdicts found',
                         dict(rep, theorem='C09_outcomes_exclusive (hypothesis saturatedB)'), found_input=False)
    if not res.ok and not ctx.violations:
        for lgname, thm in getattr(res, 'failed', []) or [('?', '?')]:
            ctx.fail(f'C09:lean:{lgname}:{thm}', f'Lean obligation {lgname}:{thm} no longer checks; the sweep found no conflicting runs',
                     dict(theorem=f'{lgname}:{thm}', log=res.log[-2500:]), found_input=False)
    ctx.add_cov(run_stats=dict(stats), logics=len(names), traces_validated_against_impl=sum(1 for v in accepted.values() if v),
                option_matrix=f'is_group_optim × is_rank_optim (4) × build/step at seed {seeds[0]}; random option/mode/premise-variant at seeds {seeds[1:]}; '
                              'premise variants: reversed, one premise duplicated',
                rule='per logic: seeded random arguments (propositional, modal ×2, first-order); each run under the full option × mode matrix, further '
                     'tie-break seeds and premise permutations; distinct = distinct (logic, argument, variant, seed)')
    ctx.assumptions += [
        'the theorem side is one-directional (closed ⇒ no genuine countermodel anywhere); mutual exclusion of the two classes for all searches needs C02',
        '"never raises" is observed on the sweep only',
        'tie-break orders are enumerated through the guarded hook PYTABLEAUX_VERIF_ORDER (seedable hashing of nodes / branches)']
    for lg, g in groups[:3]:
        sd, i, desc = g[0]
        if 'error' not in outs[sd][i]:
            ctx.sample(dict(logic=lg, argument=tabrun.arg_text(by_seed[sd][i]), verdict=verdict(outs[sd][i]), variants=len(g)))


def around_unsaturated(lg, job, out, bi, answer, ms):
    """arguments around a skipped rule instance: the original premises plus one premise that contradicts (or repeats) a
    component of the node whose instance is missing — run under the whole option × mode matrix; returns the two conflicting
    runs if the verdict differs"""
    import re
    from pytableaux.lang import Operated, Operator as O, Quantified
    m = re.search(r'node=(\d+)', answer)
    if not m:
        return None
    nodes = out['final'].split(' || ')[bi].split(' ! ')[0].split(' ; ')
    try:
        parts = nodes[int(m.group(1))].split()
        assert parts[0] == 'n'
        s = wire.dec_sent(' '.join(parts[1:-2]))
    except Exception:  # noqa
        return None
    prem = [wire.dec_sent(x) for x in job['premises']]
    conc = wire.dec_sent(job['conclusion'])
    comps = []
    def walk(x, depth=0):
        if isinstance(x, Operated):
            for y in x.operands:
                if y not in comps:
                    comps.append(y)
                if depth < 2:
                    walk(y, depth + 1)
        elif isinstance(x, Quantified) and depth < 2:
            walk(x.sentence, depth + 1)
    walk(s)
    extra = []
    for c in comps[:4]:
        if c.variables:
            continue
        extra += [c, Operated(O.Negation, (c,))]
        if registry_modal(lg):
            extra += [Operated(O.Necessity, (c,)), Operated(O.Necessity, (Operated(O.Negation, (c,)),))]
    jobs, desc = [], []
    variants = [(prem + [x], conc) for x in extra] + [(prem, c) for c in comps[:4] if not c.variables]
    for pv, cv in variants:                    # one group = one argument (as a premise SET) under options × modes × premise orders
        for order in ('as-given', 'reversed'):
            for oi, mode in MODES:
                jobs.append(tabrun.job_for(len(jobs), lg, pv if order == 'as-given' else list(reversed(pv)), cv, opts=tabrun.OPTS[oi], mode=mode, max_steps=ms))
                desc.append(f'opts={oi} {mode} premises={order}')
    if not jobs:
        return None
    outs = tabrun.run_jobs(jobs, order_seed=0)
    n = 2 * len(MODES)
    for k in range(0, len(jobs), n):
        vs = [(verdict(o) if 'error' not in o else 'error', jobs[k + t], desc[k + t]) for t, o in enumerate(outs[k:k + n])]
        cl = {v for v, *_ in vs}
        if {'valid', 'refuted'} <= cl:
            a = next(x for x in vs if x[0] == 'valid'); b = next(x for x in vs if x[0] == 'refuted')
            return dict(valid_run=dict(argument=tabrun.arg_text(a[1]), mode=a[1]['mode'], order_seed=0),
                        refuted_run=dict(argument=tabrun.arg_text(b[1]), mode=b[1]['mode'], order_seed=0))
    return None


def registry_modal(lg) -> bool:
    from pytableaux.logics import registry
    return bool(registry(lg).Meta.modal)


def replay(data) -> int:
    rp = data.get('replay', {})
    if rp.get('stream') == 'search-corr':
        return searchcorr.replay(rp)
    from . import c10
    if 'valid_run' in rp:
        import os, subprocess, json, sys
        res = []
        for k in ('valid_run', 'refuted_run'):
            r = rp[k]
            a = r['argument']
            code = ("import sys,json;sys.path.insert(0,'/verif');from harness import common;from pytableaux.lang import Parser,Argument;"
                    "from pytableaux.logics import registry;from pytableaux.proof import Tableau;a=json.loads(sys.argv[1]);p=Parser('polish');"
                    "t=Tableau(registry(a['logic']),Argument(p(a['conclusion']),[p(x) for x in a['premises']]),**(a.get('opts') or {}));"
                    "\nif sys.argv[2]=='build': t.build()\nelse:\n  while t.step() is not None: pass\nprint('valid' if t.valid else 'invalid')")
            p = subprocess.run([common_py(), '-c', code, json.dumps(a), r.get('mode', 'build')], capture_output=True, text=True,
                               env=dict(os.environ, PYTABLEAUX_VERIF='1', PYTABLEAUX_VERIF_ORDER=str(r.get('order_seed', 0))))
            res.append(p.stdout.strip() or p.stderr[-300:])
        print(res)
        return 1 if res[0] != res[1] else 0
    print('nothing to replay')
    return 2


def common_py():
    from ..common import PY
    return PY
