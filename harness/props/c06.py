"""
C06 — New constants and new worlds are always fresh.

1. Lean: Ptx.Props.C06 (Fresh / AboveAll / CacheExact for every history of appends, copies, ticks
   on a forest of branches; copies independent).
2. Correspondence A (branch histories): exhaustive histories over a small alphabet
   {Fa, Fb, Gab, Fc1, a modal sentence node at world 2, an access node, copy, tick, switch} to
   depth 5 (thorough: 6) and seeded random histories to depth 40 on real `Branch` objects; after
   every operation, for every branch of the forest: new_constant(), new_world(), constants,
   worlds, length, ticked count, closed — compared with the model.
   Implementation-side oracle (no Lean): freshness checked directly against the sentences and
   nodes on the real branch, by a walk over the objects that uses neither `Sentence.constants`
   nor `Node.worlds()` nor the cached sets.
3. Oracle stream B (witness rules; Lean side: C06_witness_step_fresh / C06_witness_replay_fresh — a witness step is
   legal in the calculus model only with a fresh item; the sweeps of C01/C02/C09 replay every real step through it):
   for every registered logic, real tableaux on arguments whose trunks carry constants (and, for
   modal logics, injected worlds) that are not an initial segment and first occur in
   non-alphabetical order; every call of new_constant()/new_world() made by a rule is recorded,
   and whenever the applied rule put the offered item on a branch, the item must have been absent
   from that branch before the step.  At every step every branch of the tableau is also checked
   for freshness.
"""
from __future__ import annotations

import inspect
import itertools
import json

from .. import common
from ..common import Ctx, drive, lean_phase
from ..wire import dec_sent, enc_sent

from pytableaux import errors
from pytableaux.lang import (Argument, Atomic, Constant, Operated, Operator, Predicate, Predicated,
                             Quantified, Quantifier, Variable)
from pytableaux.logics import registry
from pytableaux.proof import Branch, Node, Tableau

LEVEL = 'proof'


def _fix_hash_seed():
    """The proof search of pytableaux depends on str hashing (e.g. CFOL 'Universal Predicate Syllogism' takes 9 or
    21 steps depending on PYTHONHASHSEED), so a run is reproducible for a given VERIF_SEED only with a fixed
    hash seed.  If none is set, restart the same command with PYTHONHASHSEED=0."""
    import os
    import sys
    if os.environ.get('PYTHONHASHSEED') is None:
        os.environ['PYTHONHASHSEED'] = '0'
        sys.stdout.flush()
        sys.stderr.flush()
        os.execv(sys.executable, [sys.executable, '-m', 'harness.check', *sys.argv[1:]])



# --------------------------------------------------------------------------
# independent walks (the oracle's notion of "occurs")
# --------------------------------------------------------------------------

def walk_constants(s, acc=None):
    "constants occurring in a sentence, by walking the object tree"
    if acc is None:
        acc = set()
    t = type(s)
    if t is Predicated:
        for p in s.params:
            if type(p) is Constant:
                acc.add((p.index, p.subscript))
    elif t is Quantified:
        walk_constants(s.sentence, acc)
    elif t is Operated:
        for x in s.operands:
            walk_constants(x, acc)
    elif t is not Atomic:
        raise TypeError(t)
    return acc


def node_constants(n):
    s = n.get('sentence')
    return walk_constants(s) if s is not None else set()


def node_worlds(n):
    out = set()
    for k in ('world', 'world1', 'world2'):
        v = n.get(k)
        if isinstance(v, int) and not isinstance(v, bool):
            out.add(v)
    return out


def branch_walk(nodes):
    cs, ws = set(), set()
    for n in nodes:
        cs |= node_constants(n)
        ws |= node_worlds(n)
    return cs, ws


def ckey(c):
    return (c[1], c[0])      # order of constants: (subscript, index)


def fresh_violations(b, label):
    "the property's first clause, directly on a real branch"
    out = []
    cs, ws = branch_walk(b)
    c = b.new_constant()
    w = b.new_world()
    if (c.index, c.subscript) in cs:
        out.append(('C06:new-constant-on-branch',
                    f'{label}: new_constant()={c.index}.{c.subscript} occurs on the branch (constants {sorted(cs, key=ckey)})'))
    if w in ws:
        out.append(('C06:new-world-on-branch', f'{label}: new_world()={w} occurs on the branch (worlds {sorted(ws)})'))
    if {(x.index, x.subscript) for x in b.constants} != cs:
        out.append(('C06:constants-cache', f'{label}: branch.constants={sorted((x.index, x.subscript) for x in b.constants)} '
                                           f'but the sentences carry {sorted(cs)}'))
    if set(b.worlds) != ws:
        out.append(('C06:worlds-cache', f'{label}: branch.worlds={sorted(b.worlds)} but the nodes carry {sorted(ws)}'))
    return out


# --------------------------------------------------------------------------
# A. branch histories
# --------------------------------------------------------------------------

F = Predicate(0, 0, 1)
G = Predicate(1, 0, 2)
H = Predicate(2, 0, 1)
R2 = Predicate(3, 0, 2)


def C(i, s=0):
    return Constant(i, s)


def node_wire(sent=None, d=None, w=None, access=None, flag=None, ellipsis=False) -> str:
    if access is not None:
        return f'r {access[0]} {access[1]}'
    if flag is not None:
        return f'f {flag}'
    if ellipsis:
        return 'e'
    return 'n ' + enc_sent(sent) + ' ' + ('_' if d is None else '+' if d else '-') + ' ' + ('_' if w is None else str(w))


def node_from_wire(text: str):
    ts = text.split()
    k = ts[0]
    if k == 'r':
        return Node.for_mapping({'world1': int(ts[1]), 'world2': int(ts[2])})
    if k == 'f':
        if ts[1] == 'closure':
            return Node.for_mapping(dict(Node.PropMap.Closure))
        return Node.for_mapping({'is_flag': True, 'flag': ts[1]})
    if k == 'e':
        return Node.for_mapping({'ellipsis': True})
    d, w = ts[-2], ts[-1]
    m = {'sentence': dec_sent(' '.join(ts[1:-2]))}
    if d != '_':
        m['designated'] = d == '+'
    if w != '_':
        m['world'] = int(w)
    return Node.for_mapping(m)


def show_branch(b, pool) -> str:
    c = b.new_constant()
    cs = sorted(((x.index, x.subscript) for x in b.constants), key=ckey)
    ws = sorted(b.worlds)
    return ' '.join([f'{c.index}.{c.subscript}', str(b.new_world()),
                     ','.join(f'{i}.{s}' for i, s in cs) or '-', ','.join(map(str, ws)) or '-',
                     str(len(b)), str(sum(1 for n in pool.values() if b.is_ticked(n))),
                     '1' if b.closed else '0'])


def run_history(ops, *, oracle=True):
    """ops: ['N'] | ['A', b, id, nodewire] | ['C', b] | ['T', b, id].  Returns (request, observed
    groups, violations)."""
    forest = [Branch()]
    pool = {}
    toks, observed, viol = [], [], []
    for k, op in enumerate(ops):
        kind = op[0]
        out = 'ok'
        try:
            if kind == 'N':
                forest.append(Branch())
                toks.append('N')
            elif kind == 'A':
                _, b, nid, wire = op
                if nid not in pool:
                    pool[nid] = node_from_wire(wire)
                toks.append(f'A {b} {nid} {wire}')
                forest[b].append(pool[nid])
            elif kind == 'C':
                b = op[1]
                toks.append(f'C {b}')
                # as Tableau.branch(parent) does on a fork
                forest.append(forest[b].copy(parent=forest[b]) if k % 2 else forest[b].copy())
            elif kind == 'T':
                _, b, nid = op
                if nid not in pool:
                    pool[nid] = Node.for_mapping({'ellipsis': True})
                toks.append(f'T {b} {nid}')
                forest[b].tick(pool[nid])
            else:
                raise common.InfraError(f'bad op {op}')
        except (errors.IllegalStateError, errors.DuplicateValueError) as e:
            out = f'err:{type(e).__name__}'
        observed.append(out + ' : ' + ' | '.join(show_branch(b, pool) for b in forest))
        if oracle:
            for j, b in enumerate(forest):
                for key, what in fresh_violations(b, f'after op #{k} {op[:3]} branch {j}'):
                    viol.append((key, what, k))
    return 'branch ' + ' ; '.join(toks), observed, viol


ALPHA_NODES = [
    node_wire(Predicated(F, (C(0),))),                                    # Fa
    node_wire(Predicated(F, (C(1),))),                                    # Fb
    node_wire(Predicated(G, (C(0), C(1)))),                               # Gab
    node_wire(Predicated(F, (C(2, 1),))),                                 # Fc1
    node_wire(Operated(Operator.Possibility, (Predicated(F, (C(3),)),)), True, 2),   # ◇Fd designated at world 2
    node_wire(access=(1, 3)),                                             # access 1→3
]
NSYM = len(ALPHA_NODES) + 3     # + copy, tick, switch-to-branch-0


def history_from_symbols(word):
    ops, cur, nid, last = [], 0, 0, {}
    nbranches = 1
    for sym in word:
        if sym < len(ALPHA_NODES):
            nid += 1
            ops.append(['A', cur, nid, ALPHA_NODES[sym]])
            last[cur] = nid
        elif sym == len(ALPHA_NODES):
            ops.append(['C', cur])
            last[nbranches] = last.get(cur)
            cur = nbranches
            nbranches += 1
        elif sym == len(ALPHA_NODES) + 1:
            ops.append(['T', cur, last.get(cur) or 9999])
        else:
            if cur == 0:
                # already there: append the *same node object* again instead (duplicate path)
                ops.append(['A', 0, last.get(0) or 9998, ALPHA_NODES[0]])
                if not last.get(0):
                    last[0] = 9998
            cur = 0
    return ops


def rand_sentence(rng, depth=0):
    r = rng.random()
    if depth > 2 or r < 0.45:
        p = rng.choice([F, H, G, R2, F])
        return Predicated(p, tuple(
            rng.choice([Constant(rng.randrange(4), rng.choice([0, 0, 0, 1, 2, 5])), Variable(rng.randrange(3), 0)])
            if rng.random() < 0.85 else Variable(0, 0) for _ in range(p.arity)))
    if r < 0.5:
        return Atomic(rng.randrange(3), 0)
    if r < 0.65:
        return Quantified(rng.choice(list(Quantifier)), Variable(rng.randrange(3), 0), rand_sentence(rng, depth + 1))
    if r < 0.8:
        return Operated(rng.choice([Operator.Negation, Operator.Possibility, Operator.Necessity, Operator.Assertion]),
                        (rand_sentence(rng, depth + 1),))
    return Operated(rng.choice([Operator.Conjunction, Operator.Disjunction, Operator.Conditional,
                                Operator.MaterialBiconditional]),
                    (rand_sentence(rng, depth + 1), rand_sentence(rng, depth + 1)))


def rand_node(rng):
    r = rng.random()
    if r < 0.70:
        return node_wire(rand_sentence(rng), rng.choice([None, True, False]),
                         rng.choice([None, None, 0, 1, 2, 3, 6, 11]))
    if r < 0.88:
        return node_wire(access=(rng.randrange(8), rng.randrange(8)))
    if r < 0.92:
        return node_wire(flag='quit')
    if r < 0.95:
        return node_wire(ellipsis=True)
    return node_wire(flag='closure')


def random_history(rng, depth):
    ops, nb, nid, used, wires = [], 1, 0, [], {}
    for _ in range(depth):
        r = rng.random()
        b = rng.randrange(nb)
        if r < 0.68:
            if used and rng.random() < 0.06:
                j = rng.choice(used)
                ops.append(['A', b, j, wires[j]])      # an object already in the pool
            else:
                nid += 1
                used.append(nid)
                wires[nid] = rand_node(rng)
                ops.append(['A', b, nid, wires[nid]])
        elif r < 0.82 and nb < 5:
            ops.append(['C', b])
            nb += 1
        elif r < 0.86 and nb < 5:
            ops.append(['N'])
            nb += 1
        else:
            ops.append(['T', b, rng.choice(used) if used else 9999])
    return ops


# --------------------------------------------------------------------------
# B. witness rules on real tableaux, all registered logics
# --------------------------------------------------------------------------

def _args():
    a, b, c, d = C(0), C(1), C(2), C(3)
    a1, c2 = C(0, 1), C(2, 2)
    x, y = Variable(0, 0), Variable(1, 0)
    E, U = Quantifier.Existential, Quantifier.Universal
    Fx, Hx = Predicated(F, (x,)), Predicated(H, (x,))
    Rxy = Predicated(R2, (x, y))
    neg = lambda s: Operated(Operator.Negation, (s,))          # noqa: E731
    pos = lambda s: Operated(Operator.Possibility, (s,))       # noqa: E731
    nec = lambda s: Operated(Operator.Necessity, (s,))         # noqa: E731
    dis = lambda p, q: Operated(Operator.Disjunction, (p, q))  # noqa: E731
    Fp = lambda k: Predicated(F, (k,))                         # noqa: E731
    Hp = lambda k: Predicated(H, (k,))                         # noqa: E731
    return {
        # the historical pattern: b first, then a — the old code then offered b
        'Q1': Argument(Quantified(U, x, Hx), (neg(Fp(b)), Hp(a), Quantified(E, x, Fx))),
        # constants d, b (no a, c): next must be a1
        'Q2': Argument(Quantified(U, x, dis(Fx, Hx)), (Fp(d), Hp(b), Quantified(E, x, Hx))),
        # subscripted first, nested existentials
        'Q3': Argument(neg(Quantified(E, x, neg(Fx))), (Fp(c2), Hp(a), Quantified(E, x, Quantified(E, y, Rxy)))),
        # b then a1 then a: offers must skip over all of them
        'Q4': Argument(Quantified(U, x, Fx), (Hp(b), Fp(a1), Hp(a), Quantified(E, x, neg(Hx)),
                                             neg(Quantified(U, x, Hx)))),
        # modal and quantified together
        'M1': Argument(nec(Quantified(U, x, Hx)), (pos(Quantified(E, x, Fx)), nec(Hp(c)), Fp(a1), pos(pos(Hp(b))))),
        # modal only, several witnesses
        'M2': Argument(nec(dis(Fp(b), pos(Hp(a)))), (pos(Fp(b)), pos(pos(Hp(a))), neg(nec(pos(Fp(a)))))),
        # conclusions of the other witness shapes (undesignated / negated-undesignated rules)
        'Q5': Argument(neg(Quantified(E, x, neg(Fx))), (Hp(b), Fp(a))),
        'Q6': Argument(Quantified(E, x, Fx), (Hp(b), Hp(a), Quantified(U, x, dis(Hx, Fx)))),
        'Q7': Argument(neg(Quantified(U, x, Fx)), (Hp(d), Fp(b))),
        'M3': Argument(neg(pos(neg(Hp(b)))), (pos(Fp(a)), Hp(b))),
        'M4': Argument(neg(nec(Hp(b))), (pos(Fp(c)), nec(Fp(a)))),
        'M5': Argument(pos(Fp(a)), (pos(Hp(b)), nec(dis(Hp(b), Fp(a))))),
    }


ARGS = _args()


_SRC_KINDS: dict = {}


def _class_kinds(klass):
    try:
        return _SRC_KINDS[klass]
    except KeyError:
        pass
    kinds = set()
    if klass.__module__.startswith('pytableaux') and klass.__name__ != 'Rule':
        try:
            src = inspect.getsource(klass)
        except (OSError, TypeError):
            src = ''
        if 'new_constant(' in src:
            kinds.add('constant')
        if 'new_world(' in src:
            kinds.add('world')
    _SRC_KINDS[klass] = kinds
    return kinds


def witness_rule_classes(logic):
    "rule classes of the logic whose code asks the branch for a new constant / world (static)"
    out = {}
    for group in [logic.Rules.closure, *logic.Rules.groups]:
        for cls in group:
            kinds = set()
            for klass in cls.__mro__:
                kinds |= _class_kinds(klass)
            if kinds:
                out[cls.__name__] = kinds
    return out


class Recorder:
    "records every new_constant()/new_world() call with the rule that made it"

    def __init__(self):
        self.calls = []

    def install(self):
        import sys
        rec = self
        self._nc, self._nw = Branch.new_constant, Branch.new_world

        def new_constant(branch):
            c = rec._nc(branch)
            caller = sys._getframe(1).f_locals.get('self')
            rec.calls.append(('constant', branch, (c.index, c.subscript), type(caller).__name__))
            return c

        def new_world(branch):
            w = rec._nw(branch)
            caller = sys._getframe(1).f_locals.get('self')
            rec.calls.append(('world', branch, w, type(caller).__name__))
            return w
        Branch.new_constant = new_constant
        Branch.new_world = new_world

    def restore(self):
        Branch.new_constant, Branch.new_world = self._nc, self._nw


def run_witness(logic_name, argkey, inject, *, max_steps=120, stats=None):
    """Returns list of violations (key, what, step)."""
    logic = registry(logic_name)
    arg = ARGS[argkey]
    viol = []
    rec = Recorder()
    rec.install()
    try:
        tab = Tableau(logic, arg, max_steps=max_steps)
        if inject and len(tab) and len(tab[0]):
            proto = dict(tab[0][0])
            if proto.get('world') is not None:
                b0 = tab[0]
                # worlds 0 and 4 (not an initial segment), with a possibility at world 4
                b0.append({'world1': 0, 'world2': 4})
                m = dict(proto)
                m['sentence'] = Operated(Operator.Possibility, (Predicated(H, (C(3),)),))
                m['world'] = 4
                b0.append(m)
        step = 0
        while True:
            before = {b: len(b) for b in tab}
            rec.calls.clear()
            step += 1
            entry = tab.step()
            # the first clause on every branch of the real tableau, after every step
            for j, b in enumerate(tab):
                for key, what in fresh_violations(b, f'{logic_name} {argkey} step {step} branch {j}'):
                    viol.append((key, what, step))
            if entry is None:
                break
            rule = entry.rule
            rname = type(rule).__name__
            if stats is not None:
                stats['fired'][rname] = stats['fired'].get(rname, 0) + 1
            tb = entry.target.get('branch')
            mine = [c for c in rec.calls if c[1] is tb and c[3] == rname]
            offered_c = {c[2] for c in mine if c[0] == 'constant'}
            offered_w = {c[2] for c in mine if c[0] == 'world'}
            if not (offered_c or offered_w):
                continue
            # nodes the step added, per affected branch, and what was on that branch before
            for b in tab:
                if b is tb and b in before:
                    base_len = before[b]
                elif b not in before and b.parent is tb and tb in before:
                    base_len = before[tb]          # a fork: copy of the target branch plus new nodes
                else:
                    continue
                base = b
                added = list(base[base_len:])
                if not added:
                    continue
                cs0, ws0 = branch_walk(list(base[:base_len]))
                csA, wsA = branch_walk(added)
                for c in offered_c & csA:
                    if stats is not None:
                        stats['witness_constants'] += 1
                    if c in cs0:
                        viol.append((f'C06:witness-not-fresh:{logic_name}:{rname}',
                                     f'{logic_name} {argkey} step {step}: {rname} introduced constant {c[0]}.{c[1]} '
                                     f'as new, but it was already on the branch (constants before: {sorted(cs0, key=ckey)})', step))
                for w in offered_w & wsA:
                    if stats is not None:
                        stats['witness_worlds'] += 1
                    if w in ws0:
                        viol.append((f'C06:witness-not-fresh:{logic_name}:{rname}',
                                     f'{logic_name} {argkey} step {step}: {rname} introduced world {w} as new, but it '
                                     f'was already on the branch (worlds before: {sorted(ws0)})', step))
                if stats is not None and (offered_c & csA or offered_w & wsA):
                    stats['witness_rules'].add((logic_name, rname))
        return viol
    finally:
        rec.restore()


# --------------------------------------------------------------------------
# run
# --------------------------------------------------------------------------

def shrink_history(ops, key):
    ops = [list(o) for o in ops]
    i = 0
    while i < len(ops):
        trial = ops[:i] + ops[i + 1:]
        # dropping a copy/new shifts branch indices: only try if later ops stay valid
        try:
            _, _, v = run_history(trial)
        except Exception:
            v = []
        if any(x[0] == key for x in v):
            ops = trial
        else:
            i += 1
    return ops


def run(ctx: Ctx):
    _fix_hash_seed()
    res = lean_phase(ctx, ['Ptx.Props.C06'])
    ctx.coverage['rule'] = ('distinct = distinct branch histories (operation sequences with node contents and object '
                            'identities) run on real Branch objects and compared after every operation, plus distinct '
                            '(logic, argument, injected-worlds) real proofs of the witness stream')
    ctx.coverage['trusted_base'] += [
        'harness/props/c06.py: history generator, node construction via Node.for_mapping, canonical branch summary, '
        'independent constant/world walk of the oracle, recorder around Branch.new_constant/new_world']
    ctx.assumptions += [
        'Nodes have identity semantics; the model carries an object identity next to the node content.',
        'Node kinds without counterpart in the model (bare WorldNode/DesignationNode), negative worlds, and event '
        'listeners that mutate the branch during append are outside the model.',
        '"Every witness rule uses a fresh item" is checked on real proofs (all registered logics) as an '
        'implementation-side oracle stream, not proved in Lean: it needs the rule implementations, which are '
        'extracted elsewhere (Layer B).',
    ]
    import time
    phases = {}
    t_ph = time.time()
    pending = []
    hist = dict(streams={}, outs={}, ops={})
    nviol = 0

    def flush():
        nonlocal pending
        if not pending or not res.ok:
            pending = []
            return
        answers = drive([p[2] for p in pending])
        for (stream, ops, req, observed), ans in zip(pending, answers):
            groups = ans.split(' ; ')
            if groups != observed:
                k = next((i for i, (m, o) in enumerate(itertools.zip_longest(groups, observed)) if m != o), 0)
                opk = ops[k] if k < len(ops) else ['?']
                ctx.fail(f'C06:corr:{stream}:{opk[0]}',
                         f'model and implementation disagree after op #{k} {opk}: model [{groups[k] if k < len(groups) else None}] '
                         f'real [{observed[k] if k < len(observed) else None}] '
                         f'(per branch: new_constant new_world constants worlds len ticked closed)',
                         dict(kind='history', ops=ops, request=req, model=groups, observed=observed,
                              correspondence=f'branch/{stream}', theorem='Ptx.Tab.execOp vs Branch'),
                         found_input=False)
        pending = []

    def do(stream, ops):
        nonlocal nviol
        req, observed, viol = run_history(ops)
        ctx.count(req)
        hist['streams'][stream] = hist['streams'].get(stream, 0) + 1
        for o in observed:
            t = o.split(' : ')[0]
            hist['outs'][t] = hist['outs'].get(t, 0) + 1
        for op in ops:
            hist['ops'][op[0]] = hist['ops'].get(op[0], 0) + 1
        if hist['streams'][stream] <= 2:
            ctx.sample(dict(stream=stream, request=req, observed=observed[-1]))
        for key, what, k in viol:
            nviol += 1
            if any(v['key'] == key for v in ctx.violations):
                continue
            small = shrink_history(ops[:k + 1], key)
            ctx.fail(key, what + f' — minimal history: {[o[:3] + [o[3]] if o[0] == "A" else o for o in small]}',
                     dict(kind='history', ops=small, original=ops))
        pending.append((stream, ops, req, observed))
        if len(pending) >= 20000:
            flush()

    # corpus first
    cdir = common.ROOT / 'corpus' / 'C06'
    if cdir.exists():
        for p in sorted(cdir.glob('*.json')):
            data = json.loads(p.read_text())
            if data.get('kind') == 'history':
                do('corpus', data['ops'])
    # the historical two-append history (kept as a fixed regression input)
    do('regression', [['A', 0, 1, ALPHA_NODES[1]], ['A', 0, 2, ALPHA_NODES[0]]])
    # exhaustive
    depth = ctx.scale(5, 6)
    for word in itertools.product(range(NSYM), repeat=depth):
        do('exhaustive', history_from_symbols(word))
    phases['exhaustive_s'] = round(time.time() - t_ph, 1); t_ph = time.time()
    # random
    rng = ctx.rng
    for _ in range(ctx.scale(3000, 40000)):
        do('random', random_history(rng, rng.choice([8, 15, 25, 40])))
    flush()
    phases['random_and_driver_s'] = round(time.time() - t_ph, 1); t_ph = time.time()
    ctx.add_cov(history_streams=hist['streams'], history_outcomes=hist['outs'], history_ops=hist['ops'],
                exhaustive_depth=depth, alphabet=['Fa', 'Fb', 'Gab', 'Fc1', 'MFd@w2', 'access(1,3)', 'copy', 'tick', 'switch/dup'])

    # ---- B. witness rules, all registered logics
    stats = dict(fired={}, witness_constants=0, witness_worlds=0, witness_rules=set())
    static = {}
    nruns = 0
    for name in sorted(registry.all()):
        logic = registry(name)
        static[name] = witness_rule_classes(logic)
        keys = list(ARGS)
        for argkey in keys:
            for inject in (False, True):
                if inject and (not logic.Meta.modal or (not ctx.thorough and argkey[0] != 'M')):
                    continue
                viol = run_witness(name, argkey, inject, max_steps=ctx.scale(80, 300), stats=stats)
                nruns += 1
                ctx.count(('witness', name, argkey, inject))
                for key, what, step in viol:
                    nviol += 1
                    ctx.fail(key, what, dict(kind='witness', logic=name, argument=argkey, inject=inject, step=step,
                                             argument_text=str(ARGS[argkey])))
    phases['witness_s'] = round(time.time() - t_ph, 1)
    ctx.add_cov(phase_seconds=phases)
    never = sorted(f'{lg}.{r}' for lg, rs in static.items() for r in rs if (lg, r) not in stats['witness_rules'])
    ctx.add_cov(witness_runs=nruns, witness_logics=len(static),
                witness_rule_classes_static=sum(len(v) for v in static.values()),
                witness_rule_classes_exercised=len(stats['witness_rules']),
                witness_rules_never_fired=never[:60],
                witness_constants_checked=stats['witness_constants'], witness_worlds_checked=stats['witness_worlds'],
                oracle_violations_seen=nviol)
    if not res.ok and not ctx.violations:
        for f, decl in res.failed_decls() or [('?', '?')]:
            ctx.fail(f'C06:lean:{decl}', f'Lean build failed at {f} ({decl}); the oracle streams found no failing input',
                     dict(theorem=decl, log=res.log[-3000:]), found_input=False)


def replay(data) -> int:
    _fix_hash_seed()
    rp = data.get('replay', {})
    if rp.get('kind') == 'history':
        _, observed, viol = run_history(rp['ops'])
        for op, o in zip(rp['ops'], observed):
            print('  ', op[:3], '->', o)
        for v in viol:
            print('VIOLATION', v[0], v[1])
        if not viol:
            print('oracle: fresh on this history')
        return 1 if viol else 0
    if rp.get('kind') == 'witness':
        viol = run_witness(rp['logic'], rp['argument'], rp.get('inject', False), max_steps=300)
        for v in viol[:10]:
            print('VIOLATION', v[0], v[1])
        if not viol:
            print('oracle: every witness fresh on this proof')
        return 1 if viol else 0
    print('nothing to replay')
    return 2
