"""
C15 — substitution and the derived attributes of sentences are exact.

Code under test (pytableaux/lang/lex.py): `Sentence.substitute` and its three overrides,
`Quantified.unquantify`, `Sentence.negative`, and the derived attributes `constants`,
`variables`, `predicates`, `atomics` (frozensets), `operators`, `quantifiers` (tuples, prefix
order).

One *case* is one of

    subst   (sentence, new, old)     s.substitute(new, old)
    unq     (quantified, constant)   q.unquantify(c)
    neg     (sentence)               s.negative()
    derived (sentence)               the six derived attributes

Every case is judged twice:

  (b) by implementation-side oracles that use only `lexwire.walk` / `lexwire.struct_eq`
      (independent flat prefix-order walk over the primary fields; no Lean, none of the
      attributes under test).  These alone decide VIOLATION;
  (a) by correspondence: the canonical answer of the implementation is diffed against the
      Lean model (Ptx/Lang/Derived.lean) run through the compiled driver.  A disagreement
      here, with the oracle passing, is reported as `C15:corr:<stream>` (no failing input).

Streams: corpus, exhaustive-small (lexwire.small_sentences) x a fixed parameter pool,
seeded random (lexwire.rand_sentence, depth <= 6) x a per-sentence parameter pool.
"""
from __future__ import annotations

import hashlib
import json
from collections import Counter

from ..common import ROOT, Ctx, InfraError, drive, lean_phase
from . import lexwire as L
from .lexwire import (OPTOK, QT, dec_sent, enc_param, enc_sent, param_tok, parse_param,
                      struct_eq, walk)

from pytableaux.lang import (Atomic, Constant, Operated, Operator, Predicate, Predicated,
                             Quantified, Quantifier, Sentence, Variable)

LEVEL = 'proof'
PROP = 'C15'
ATOM = ('atom', 0, 0)
NEG = ('op', 'Negation')


# --------------------------------------------------------------------------
# implementation-side oracles  (no Lean; only walk / struct_eq)
# --------------------------------------------------------------------------
# A finding is (key-suffix, detail).  Every oracle returns (findings, result) where result is
# what the implementation returned (None if it raised).

def skeleton(w):
    return [t for t in w if t[0] != 'param']


def show(w) -> str:
    def one(t):
        if t[0] == 'param':
            return f'{t[1]}{t[2]}.{t[3]}'
        if t[0] == 'atom':
            return f'atom{t[1]}.{t[2]}'
        if t[0] == 'pred':
            return 'pred' + '.'.join(map(str, t[1])) + f'/{t[2]}'
        if t[0] == 'quant':
            return f'{t[1]}:v{t[2]}.{t[3]}'
        return t[1]
    return ' '.join(map(one, w))


def replaced_walk_findings(area, w, wr, newtok, oldtok):
    """`wr` must be `w` with every parameter occurrence equal to `oldtok` replaced by `newtok`
    and nothing else changed.  Names what differs."""
    want = [newtok if t == oldtok else t for t in w]
    if wr == want:
        return []
    det = f'walk of the result [{show(wr)}], expected [{show(want)}]'
    sk, skr = skeleton(w), skeleton(wr)
    if sk != skr:
        q = [t for t in sk if t[0] == 'quant']
        qr = [t for t in skr if t[0] == 'quant']
        if q != qr:
            if len(q) == len(qr) and [t[1] for t in q] == [t[1] for t in qr]:
                return [(f'{area}:binder-touched', 'a bound variable changed: ' + det)]
            return [(f'{area}:quantifier-structure', 'quantifiers differ: ' + det)]
        if [t for t in sk if t[0] == 'op'] != [t for t in skr if t[0] == 'op']:
            return [(f'{area}:operator-structure', 'operators differ: ' + det)]
        return [(f'{area}:structure-changed', 'predicates / sentence letters differ: ' + det)]
    ps, pr = L.walk_params(w), L.walk_params(wr)
    for i, (a, b) in enumerate(zip(ps, pr)):
        if a == oldtok and b != newtok:
            return [(f'{area}:occurrence-missed', f'parameter occurrence #{i} is the old parameter but was not replaced: ' + det)]
        if a != oldtok and b != a:
            return [(f'{area}:other-param-changed', f'parameter occurrence #{i} is not the old parameter but changed: ' + det)]
    return [(f'{area}:structure-changed', det)]


SETS = (('constants', Constant), ('variables', Variable), ('predicates', Predicate), ('atomics', Atomic))
SEQS = (('operators', 'op', Operator), ('quantifiers', 'quant', Quantifier))


def coords(x):
    return (x.index, x.subscript, x.arity) if type(x) is Predicate else (x.index, x.subscript)


def derived_findings(s, w, prefix='derived'):
    "the six published attributes of `s` against the sets / sequences read off its walk `w`"
    out = []
    want = dict(
        constants={(t[2], t[3]) for t in w if t[0] == 'param' and t[1] == 'c'},
        variables={(t[2], t[3]) for t in w if t[0] == 'param' and t[1] == 'v'},
        predicates={t[1] for t in w if t[0] == 'pred'},
        atomics={(t[1], t[2]) for t in w if t[0] == 'atom'})
    for name, cls in SETS:
        try:
            got = getattr(s, name)
            if not isinstance(got, frozenset):
                out.append((f'{prefix}:{name}-type', f'{name} is a {type(got).__name__}, not a frozenset'))
                continue
            items = list(got)
            if any(type(x) is not cls for x in items):
                out.append((f'{prefix}:{name}-type', f'{name} holds {sorted({type(x).__name__ for x in items})}'))
                continue
            cs = [coords(x) for x in items]
        except Exception as e:  # noqa: BLE001
            out.append((f'{prefix}:{name}-raised', f'{name} raised {type(e).__name__}: {e}'))
            continue
        if len(set(cs)) != len(cs):
            out.append((f'{prefix}:{name}-duplicates', f'{name} = {sorted(cs)}'))
        elif want[name] - set(cs):
            out.append((f'{prefix}:{name}-missing', f'{name} = {sorted(cs)} lacks {sorted(want[name] - set(cs))} '
                        f'(walk: [{show(w)}])'))
        elif set(cs) - want[name]:
            out.append((f'{prefix}:{name}-extra', f'{name} = {sorted(cs)} has {sorted(set(cs) - want[name])} '
                        f'which does not occur (walk: [{show(w)}])'))
    for name, tk, cls in SEQS:
        wanted = [t[1] for t in w if t[0] == tk]
        try:
            got = getattr(s, name)
            if type(got) is not tuple:
                out.append((f'{prefix}:{name}-type', f'{name} is a {type(got).__name__}, not a tuple'))
                continue
            if any(type(x) is not cls for x in got):
                out.append((f'{prefix}:{name}-type', f'{name} holds {sorted({type(x).__name__ for x in got})}'))
                continue
            names = [x.name for x in got]
        except Exception as e:  # noqa: BLE001
            out.append((f'{prefix}:{name}-raised', f'{name} raised {type(e).__name__}: {e}'))
            continue
        if names != wanted:
            sym = 'order' if sorted(names) == sorted(wanted) else 'content'
            out.append((f'{prefix}:{name}-{sym}', f'{name} = {names}, prefix order of the structure gives {wanted}'))
    return out


def o_derived(s, w):
    return derived_findings(s, w), s


def o_subst(s, w, new, old):
    try:
        r = s.substitute(new, old)
    except Exception as e:  # noqa: BLE001
        return [(f'substitute:raised-{type(e).__name__}', f'substitute raised {type(e).__name__}: {e}')], None
    if not isinstance(r, Sentence) or type(r) is not type(s):
        return [('substitute:result-type', f'substitute on a {type(s).__name__} returned a {type(r).__name__}')], None
    try:
        wr = walk(r)
    except Exception as e:  # noqa: BLE001
        return [('substitute:result-malformed', f'the result cannot be walked: {type(e).__name__}: {e}')], None
    newtok, oldtok = param_tok(new), param_tok(old)
    out = replaced_walk_findings('substitute', w, wr, newtok, oldtok)
    if newtok == oldtok and not struct_eq(r, s):
        out.append(('substitute:self-not-identity', f's.substitute(p, p) differs from s: [{show(wr)}]'))
    if oldtok not in w and not struct_eq(r, s):
        out.append(('substitute:absent-changed', f'the old parameter does not occur but the result differs: [{show(wr)}]'))
    if walk(s) != w:
        out.append(('substitute:input-mutated', f'the receiver changed: [{show(walk(s))}] was [{show(w)}]'))
    if not out and r is not s:
        # derived attributes of the result against its own walk (no stale lazy caches carried over)
        out = derived_findings(r, wr, 'substitute:result')
    return out, r


def o_unq(q, w, c):
    if type(q) is not Quantified:
        return [], None
    try:
        r = q.unquantify(c)
    except Exception as e:  # noqa: BLE001
        return [(f'unquantify:raised-{type(e).__name__}', f'unquantify raised {type(e).__name__}: {e}')], None
    if not isinstance(r, Sentence):
        return [('unquantify:result-type', f'unquantify returned a {type(r).__name__}')], None
    out = []
    try:
        r2 = q.sentence.substitute(c, q.variable)
        if not struct_eq(r, r2):
            out.append(('unquantify:ne-substitute', f'unquantify gives [{enc_sent(r)}] but substituting the constant '
                        f'for the bound variable in the body gives [{enc_sent(r2)}]'))
    except Exception as e:  # noqa: BLE001
        out.append((f'unquantify:substitute-raised-{type(e).__name__}', f'body.substitute(c, v) raised: {e}'))
    try:
        wr = walk(r)
    except Exception as e:  # noqa: BLE001
        return out + [('unquantify:result-malformed', f'the result cannot be walked: {type(e).__name__}: {e}')], None
    if w[0][0] != 'quant':
        raise TypeError('walk of a Quantified does not start with its quantifier')
    vtok = ('param', 'v', w[0][2], w[0][3])
    out += replaced_walk_findings('unquantify', w[1:], wr, param_tok(c), vtok)
    if not out:
        out = derived_findings(r, wr, 'unquantify:result')
    return out, r


def is_negation(s) -> bool:
    return type(s) is Operated and s.operator is Operator.Negation


def o_neg(s, w):
    out = []
    r = None
    try:
        n = Operated(Operator.Negation, (s,))
        if walk(n) != [NEG] + w:
            return [('negative:construct', f'Operated(Negation, s) walks as [{show(walk(n))}]')], None
        nn = n.negative()
        if not struct_eq(nn, s):
            out.append(('negative:double', f'(~s).negative() is [{enc_sent(nn)}], not s'))
        r = s.negative()
        if not isinstance(r, Sentence):
            return out + [('negative:result-type', f'negative returned a {type(r).__name__}')], None
        if is_negation(s):
            if not struct_eq(r, s.operands[0]) or walk(r) != w[1:]:
                out.append(('negative:operand', f'negative of a negation is [{enc_sent(r)}], not its operand'))
        elif not struct_eq(r, n) or walk(r) != [NEG] + w:
            out.append(('negative:non-negation', f'negative of a non-negation is [{enc_sent(r)}], not its negation'))
    except Exception as e:  # noqa: BLE001
        out.append((f'negative:raised-{type(e).__name__}', f'negative raised {type(e).__name__}: {e}'))
        r = None
    return out, r


# --------------------------------------------------------------------------
# cases: request to the driver, canonical implementation answer, replay dict
# --------------------------------------------------------------------------
# case = ('subst', s, new, old[, 'twin']) | ('unq', s, c[, 'twin']) | ('neg', s) | ('derived', s)
# 'twin': the parameters handed in are equal to, but not the same objects as, the ones inside
# the sentence (lexwire.twin; the instance cache of the implementation normally hides this).

def derived_answer(s) -> str:
    "the derived attributes in the driver's format (sets sorted with Python `sorted`)"
    cs, vs, ps, at = sorted(s.constants), sorted(s.variables), sorted(s.predicates), sorted(s.atomics)
    return (f'C {len(cs)}' + ''.join(' ' + enc_param(c) for c in cs)
            + f' ; V {len(vs)}' + ''.join(' ' + enc_param(v) for v in vs)
            + f' ; P {len(ps)}' + ''.join(f' {p.index} {p.subscript} {p.arity}' for p in ps)
            + f' ; A {len(at)}' + ''.join(f' {a.index} {a.subscript}' for a in at)
            + ' ; O' + ''.join(' ' + OPTOK[o] for o in s.operators)
            + ' ; Q' + ''.join(' ' + QT[q] for q in s.quantifiers))


def is_twin(case) -> bool:
    return type(case[-1]) is str and case[-1] == 'twin'


def case_dict(case) -> dict:
    kind, s = case[0], case[1]
    d = dict(kind=kind, sent=enc_sent(s))
    if kind == 'subst':
        d.update(new=enc_param(case[2]), old=enc_param(case[3]))
    elif kind == 'unq':
        d.update(const=enc_param(case[2]))
    if is_twin(case):
        d.update(twin=True)
    return d


def case_from(d: dict):
    kind, s = d['kind'], dec_sent(d['sent'])
    tw = d.get('twin')
    par = (lambda x: L.twin(parse_param(x))) if tw else parse_param
    flag = ('twin',) if tw else ()
    if kind == 'subst':
        return (kind, s, par(d['new']), par(d['old']), *flag)
    if kind == 'unq':
        return (kind, s, par(d['const']), *flag)
    if kind in ('neg', 'derived'):
        return (kind, s)
    raise ValueError(f'unknown case kind {kind}')


def request(case, e=None) -> str:
    kind, s = case[0], case[1]
    e = e if e is not None else enc_sent(s)
    if kind == 'subst':
        return f'subst {enc_param(case[2])} {enc_param(case[3])} {e}'
    if kind == 'unq':
        return f'unq {case[2].index} {case[2].subscript} {e}'
    return f'{kind} {e}'


def check_case(case, w=None):
    "(findings, implementation result) of one case, from scratch"
    kind, s = case[0], case[1]
    w = w if w is not None else walk(s)
    if kind == 'subst':
        return o_subst(s, w, case[2], case[3])
    if kind == 'unq':
        return o_unq(s, w, case[2])
    if kind == 'neg':
        return o_neg(s, w)
    return o_derived(s, w)


def answer(case, result) -> str:
    "canonical implementation answer of a case whose oracle passed"
    kind = case[0]
    if kind == 'derived':
        return derived_answer(case[1])
    if kind == 'unq':
        if type(case[1]) is not Quantified:
            return 'has-unquantify' if hasattr(case[1], 'unquantify') else 'none'
        return 'some ' + enc_sent(result)
    return enc_sent(result)


# --------------------------------------------------------------------------
# shrinking
# --------------------------------------------------------------------------

def children(s):
    t = type(s)
    if t is Quantified:
        return (s.sentence,)
    if t is Operated:
        return tuple(s.operands)
    return ()


def paths(s, at=()):
    yield at
    for i, c in enumerate(children(s)):
        yield from paths(c, at + (i,))


def sub_at(s, path):
    for i in path:
        s = children(s)[i]
    return s


def replace_at(s, path, repl):
    if not path:
        return repl
    i, rest = path[0], path[1:]
    if type(s) is Quantified:
        return Quantified(s.quantifier, s.variable, replace_at(s.sentence, rest, repl))
    ops = list(s.operands)
    ops[i] = replace_at(ops[i], rest, repl)
    return Operated(s.operator, tuple(ops))


def shrink_candidates(s):
    "smaller sentences: a subsentence replaced by one of its operands / its body, or by the atom A"
    atom = Atomic(0, 0)
    for p in paths(s):
        sub = sub_at(s, p)
        for c in children(sub):
            yield replace_at(s, p, c)
        if walk(sub) != [ATOM]:
            yield replace_at(s, p, atom)


def fails_with(case, key) -> bool:
    try:
        fs, _ = check_case(case)
    except Exception:  # noqa: BLE001
        return False
    return any(k == key for k, _ in fs)


def shrink(case, key):
    "greedy: smaller sentence, then simpler `new`, while the oracle still fails with `key`"
    case = tuple(case)
    changed = True
    while changed:
        changed = False
        for cand in shrink_candidates(case[1]):
            c2 = (case[0], cand, *case[2:])
            if fails_with(c2, key):
                case, changed = c2, True
                break
    if case[0] == 'subst':
        for simple in (Constant(0, 0), Variable(0, 0), Constant(1, 0)):
            c2 = (case[0], case[1], L.twin(simple) if is_twin(case) else simple, *case[3:])
            if not struct_eq(simple, case[2]) and len(enc_param(simple)) < len(enc_param(case[2])) and fails_with(c2, key):
                case = c2
                break
    return case


# --------------------------------------------------------------------------
# the check
# --------------------------------------------------------------------------

def digest(text: str) -> int:
    return int.from_bytes(hashlib.blake2b(text.encode(), digest_size=8).digest(), 'big')


class Runner:
    FLUSH = 120_000

    def __init__(self, ctx: Ctx, lean_ok: bool):
        self.ctx = ctx
        self.lean_ok = lean_ok
        self.pending: list[tuple[str, str, str]] = []       # (stream, request, implementation answer)
        self.reported: set[str] = set()
        self.mismatch: dict[str, tuple] = {}
        self.nmismatch = 0
        self.streams: Counter = Counter()
        self.kinds: Counter = Counter()
        self.depths: Counter = Counter()
        self.ops: Counter = Counter()
        self.sizes: Counter = Counter()
        self.dist: Counter = Counter()
        self.nsamples = 0

    # -- findings
    def report(self, case, findings):
        key, det = findings[0]
        # one bug, one key: a broken attribute also shows on substitution results, a broken
        # substitute also shows through unquantify
        area, _, rest = key.partition(':')
        if rest.startswith('result:') and ('derived:' + rest[len('result:'):]) in self.reported:
            return
        if area == 'unquantify' and ('substitute:' + rest) in self.reported:
            return
        if key in self.reported:
            return
        self.reported.add(key)
        small = shrink(case, key)
        fs, _ = check_case(small)
        det = next((d for k, d in fs if k == key), det)
        d = case_dict(small)
        if not fails_with(case_from(d), key):
            # the failure depends on WHICH objects were handed in (instance cache): record that
            if fails_with(case_from(dict(d, twin=True)), key):
                d['twin'] = True
                det += ' [parameters equal to, but not the same objects as, those inside the sentence]'
            else:
                d['state_dependent'] = ('fails in the run but not when rebuilt from this record: depends on which '
                                        'instances the instance cache of the implementation returned')
        what = f'{d["kind"]} ' + ' '.join(f'{k}=[{v}]' for k, v in d.items() if k != 'kind') + f': {det}'
        d.update(finding=key, original=case_dict(case))
        self.ctx.fail(f'{PROP}:{key}', what, d)

    # -- one case
    def case(self, case, stream, e=None, w=None):
        req = request(case, e)
        self.ctx.count(digest(req))
        self.kinds[case[0]] += 1
        findings, result = check_case(case, w)
        if findings:
            self.report(case, findings)
            return
        try:
            ans = answer(case, result)
        except Exception as ex:  # noqa: BLE001  (canonicalisation of something the oracle accepted)
            ans = f'!{type(ex).__name__}'
        self.pending.append((case[0], req, ans))
        if case[0] == 'derived':
            self.pending.append(('walk', 'walk' + req[len('derived'):], ans))
        if self.nsamples < 12 and (self.kinds[case[0]] in (3, 40, 900)):
            self.nsamples += 1
            self.ctx.sample(dict(stream=stream, request=req, implementation=ans))
        if len(self.pending) >= self.FLUSH:
            self.flush()

    # -- one sentence with its parameter pairs / constants
    def sentence(self, s, pairs, consts, stream):
        e, w = enc_sent(s), walk(s)
        self.streams[stream] += 1
        self.depths[L.depth(s)] += 1
        self.sizes[min(len(w) // 10 * 10, 100)] += 1
        dist = self.dist
        dist['sentences'] += 1
        for t in w:
            if t[0] == 'op':
                self.ops[t[1]] += 1
        binders = L.walk_binders(w)
        dist['with_system_predicate'] += any(t[0] == 'pred' and t[1][0] < 0 for t in w)
        dist['with_arity3_predicate'] += any(t[0] == 'pred' and t[1][2] >= 3 for t in w)
        dist['with_large_subscript'] += any(t[0] in ('param', 'atom') and t[-1] >= L.BIG for t in w)
        dist['with_repeated_param_in_predication'] += has_repeat(w)
        dist['with_quantifier'] += bool(binders)
        dist['with_shared_binder'] += L.has_shared_binder(s)
        dist['with_vacuous_quantifier'] += any(b not in w for b in binders)
        self.case(('derived', s), stream, e, w)
        self.case(('neg', s), stream, e, w)
        occ = set(L.walk_params(w))
        bset = set(binders)
        for new, old in pairs:
            nt, ot = param_tok(new), param_tok(old)
            dist['pairs'] += 1
            dist['pairs_new_eq_old'] += nt == ot
            dist['pairs_old_absent'] += ot not in occ
            dist['pairs_old_occurs'] += ot in occ
            dist['pairs_old_is_bound_variable'] += ot in bset
            dist['pairs_new_is_bound_variable'] += nt in bset
            dist['pairs_new_variable'] += nt[1] == 'v'
            dist['pairs_new_constant'] += nt[1] == 'c'
            self.case(('subst', s, new, old), stream, e, w)
        # once per sentence: equal-but-not-identical parameter objects (first pair that changes something)
        for new, old in pairs:
            if param_tok(old) in occ and param_tok(new) != param_tok(old):
                dist['pairs_with_non_identical_objects'] += 1
                self.case(('subst', s, L.twin(new), L.twin(old), 'twin'), stream, e, w)
                break
        if type(s) is Quantified:
            dist['quantified_instantiated'] += 1
            for c in consts:
                dist['instantiations'] += 1
                self.case(('unq', s, c), stream, e, w)
        elif consts:
            dist['unquantify_on_non_quantified'] += 1
            self.case(('unq', s, consts[0]), stream, e, w)

    # -- model side
    def flush(self):
        pend, self.pending = self.pending, []
        if not pend or not self.lean_ok:
            return
        got = drive([p[1] for p in pend])
        for (stream, req, ans), model in zip(pend, got):
            if ans == model:
                continue
            self.nmismatch += 1
            self.mismatch.setdefault(stream, (req, ans, model))

    def finish(self):
        self.flush()
        ctx = self.ctx
        for stream, (req, ans, model) in sorted(self.mismatch.items()):
            ctx.fail(f'{PROP}:corr:{stream}',
                     f'Lean model and implementation disagree on [{req}]: implementation [{ans}] / model [{model}]; '
                     f'the implementation-side oracle finds no property violation on this input '
                     f'(correspondence stream {stream} no longer ties the model to the code)',
                     dict(request=req, implementation=ans, model=model, correspondence=stream), found_input=False)
        srt = lambda c: {str(k): v for k, v in sorted(c.items(), key=lambda kv: str(kv[0]))}  # noqa: E731
        ctx.add_cov(streams=srt(self.streams), cases_by_kind=srt(self.kinds),
                    depth_histogram={str(k): v for k, v in sorted(self.depths.items())},
                    walk_length_histogram={str(k): v for k, v in sorted(self.sizes.items())},
                    operator_histogram=srt(self.ops), input_distribution=srt(self.dist),
                    model_mismatches=self.nmismatch)


def has_repeat(w) -> bool:
    i = 0
    while i < len(w):
        if w[i][0] == 'pred':
            ps = w[i + 1:i + 1 + w[i][2]]
            if len(set(ps)) < len(ps):
                return True
        i += 1
    return False


# -- parameter pools

def small_pool(level='full'):
    """a, b, x, y of the small alphabets plus a constant and a variable that never occur in
    them (in the 'mini' / 'mid' alphabets b itself never occurs, so the extra constant is dropped)"""
    pool = [Constant(0, 0), Constant(1, 0), Variable(0, 0), Variable(1, 0), Constant(2, 0), Variable(2, 1)]
    if level != 'full':
        del pool[4]
    return pool


def all_pairs(pool):
    return [(n, o) for o in pool for n in pool]


def relevant_pairs(w, pool):
    """the pairs that matter for one small sentence: every occurring / bound parameter as old
    against a constant or a variable (alternating; b / y, or a / x when those are the old one),
    the first one against both, one (p, p), one absent old"""
    a, b, x, y, _, z = pool
    seen, olds = set(), []
    for t in L.walk_params(w) + L.walk_binders(w):
        if t not in seen:
            seen.add(t)
            olds.append(L.param_from_tok(t))
    pairs = []
    for k, o in enumerate(olds):
        news = (a if struct_eq(o, b) else b, x if struct_eq(o, y) else y)
        pairs.extend((n, o) for n in (news if k == 0 else news[(k + len(w)) % 2:][:1]))
    pairs.append((olds[0], olds[0]) if olds else (x, x))
    pairs.append((a, z))
    return pairs


def random_pairs(rng, w):
    """per-sentence pool: occurring parameters, bound variables, a fresh constant, a fresh
    variable, a large-subscript parameter; all ordered pairs (new == old included) when the
    pool is small, else every old against itself and a sample of news"""
    seen, pool = set(), []
    for t in L.walk_params(w) + L.walk_binders(w) + [('param', 'c', 3, 7), ('param', 'v', 3, 7),
                                                      ('param', rng.choice('cv'), rng.randint(0, 3), L.BIG)]:
        if t not in seen:
            seen.add(t)
            pool.append(L.param_from_tok(t))
    if len(pool) <= 6:
        return all_pairs(pool)
    pairs = []
    for o in pool:
        pairs.append((o, o))
        pairs.extend((n, o) for n in rng.sample(pool, 4) if n is not o)
    return pairs


def random_consts(rng, w):
    cs = [Constant(0, 0), Constant(rng.randint(0, 3), L.BIG)]
    occ = [t for t in L.walk_params(w) if t[1] == 'c']
    if occ:
        cs.append(L.param_from_tok(rng.choice(occ)))
    v = w[0]
    if v[0] == 'quant':
        cs.append(Constant(v[2], v[3]))          # the constant with the coordinates of the bound variable
    return cs


def quantified_subsentences(s, limit=3):
    out = []
    for p in paths(s):
        if p and type(sub := sub_at(s, p)) is Quantified:
            out.append(sub)
            if len(out) >= limit:
                break
    return out


def corpus_cases():
    d = ROOT / 'corpus' / PROP
    if not d.is_dir():
        return
    for f in sorted(d.glob('*.json')):
        data = json.loads(f.read_text())
        rp = data.get('replay', data)
        if 'kind' in rp and 'sent' in rp:
            yield f.name, case_from(rp)


def run(ctx: Ctx):
    res = lean_phase(ctx, ['Ptx.Props.C15'])
    ctx.coverage['trusted_base'] += [
        'harness/props/lexwire.py walk / struct_eq (flat prefix-order walk over the primary fields) and '
        'harness/props/c15.py canonicalisation (Python sorted() of the published frozensets)',
        'constructors Atomic / Predicated / Quantified / Operated store the fields they are given '
        '(every random sentence is re-built from its token encoding and walked again; not proved)',
        'the LexicalAbcMeta instance cache is not modelled: a cached instance is structurally the requested one '
        '(observed through walk on every result)']
    ctx.coverage['rule'] = ('one evaluation = one case (substitute of one ordered parameter pair into one sentence / one '
                            'unquantify / one negative / the six derived attributes of one sentence), judged by the walk '
                            'oracle and diffed against the Lean driver; distinct = distinct driver request')
    ctx.assumptions.append('sentences are built through the public constructors; parameters are Constant / Variable '
                           'instances (index 0..3, subscript >= 0)')
    r = Runner(ctx, res.ok)
    rng = ctx.rng

    # 1. corpus
    for _name, case in corpus_cases():
        r.streams['corpus'] += 1
        r.case(case, 'corpus')

    # 2. exhaustive small
    consts = [Constant(0, 0), Constant(1, 0), Constant(2, 0), Constant(0, L.BIG)]
    plan = [('mini', 2, 'all'), ('full', 1, 'all' if ctx.thorough else 'relevant')]
    if ctx.thorough:
        plan.append(('mid', 2, 'all'))
    reached = {}
    for level, depth, mode in plan:
        pool = small_pool(level)
        pairs = all_pairs(pool)
        n = 0
        for s in L.small_sentences(depth, level):
            n += 1
            ps = pairs if mode == 'all' else relevant_pairs(walk(s), pool)
            r.sentence(s, ps, consts, f'exhaustive-{level}-{depth}')
        reached[level] = dict(
            depth=depth, sentences=n, pool=[enc_param(p) for p in pool],
            pairs=f'all {len(pairs)} ordered pairs of the pool' if mode == 'all'
            else 'every occurring / bound parameter as old x (a constant | a variable) + one (p,p) + one absent old')
    ctx.add_cov(exhaustive=reached)

    # 3. seeded random
    nrand = ctx.scale(1000, 15000)
    for i in range(nrand):
        d = 6 if i % 5 == 0 else rng.randint(1, 6)
        s = L.rand_sentence(rng, d)
        w = walk(s)
        if walk(dec_sent(enc_sent(s))) != w:
            raise InfraError(f'encode / decode round trip changes the sentence [{enc_sent(s)}]')
        r.sentence(s, random_pairs(rng, w), random_consts(rng, w), 'random')
        for q in quantified_subsentences(s):
            wq = walk(q)
            r.streams['random-quantified-subsentence'] += 1
            for c in random_consts(rng, wq):
                r.dist['instantiations'] += 1
                r.case(('unq', q, c), 'random-quantified-subsentence', None, wq)
    r.finish()

    if not res.ok and not ctx.violations and not ctx.known_hit:
        decls = res.failed_decls()
        ctx.fail(f'{PROP}:lean:build', f'Lean build of Ptx.Props.C15 failed ({decls or res.log[-400:]}); '
                 f'no failing input found by the implementation-side oracles over all streams',
                 dict(theorem=[d for _, d in decls], log=res.log[-3000:]), found_input=False)
    elif not res.ok:
        ctx.notes.append(f'Lean build failed: {res.failed_decls()}')


def replay(data) -> int:
    "re-run the implementation-side oracle only (no Lean) on a recorded case"
    rp = data.get('replay', data)
    if 'kind' not in rp or 'sent' not in rp:
        print('this record names no input (proof / correspondence finding); nothing to re-run on the implementation')
        return 0
    case = case_from(rp)
    s = case[1]
    w = walk(s)
    print(f'case: {case_dict(case)}')
    try:
        print(f'sentence: {s!r}')
    except Exception:  # noqa: BLE001  (the repository's own writer; informative only)
        pass
    print(f'walk: [{show(w)}]')
    findings, result = check_case(case, w)
    if case[0] == 'derived':
        for name, _ in SETS:
            try:
                print(f'  {name} = {sorted(coords(x) for x in getattr(s, name))}')
            except Exception as e:  # noqa: BLE001
                print(f'  {name} raised {type(e).__name__}: {e}')
        for name, _, _ in SEQS:
            try:
                print(f'  {name} = {[x.name for x in getattr(s, name)]}')
            except Exception as e:  # noqa: BLE001
                print(f'  {name} raised {type(e).__name__}: {e}')
    elif result is not None:
        try:
            print(f'implementation returns: [{enc_sent(result)}]  walk [{show(walk(result))}]')
        except Exception as e:  # noqa: BLE001
            print(f'implementation returns {result!r} ({type(e).__name__}: {e})')
    if not findings and case[0] in ('subst', 'unq') and not is_twin(case):
        findings, result = check_case(case_from(dict(rp, twin=True)))
        if findings:
            print('with parameters equal to, but not the same objects as, those inside the sentence:')
    for k, det in findings:
        print(f'VIOLATION reproduced: {PROP}:{k} :: {det}')
    if findings:
        return 1
    print('no violation on this input')
    return 0
