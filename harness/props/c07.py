"""
C07 — each logic's truth tables are the documented ones.

Deciding method: the tables are regenerated from the running code (complete graphs of
`Model.truth_function`, and of the quantifier / modal evaluation as functions of value SETS),
and per logic the Lean kernel evaluates (`decide +kernel`)
    tables_spec  : every row differing from the hand-transcribed documented tables
                   (Ptx/Sem/Spec.lean) is a committed known finding
    defined_ops  : A ⊃ B = ¬A ∨ B, A ≡ B = (A⊃B)∧(B⊃A), A ↔ B = (A→B)∧(B→A) on the code's own tables
    base_tables  : an extension has exactly the truth-functional tables of its base
    spec_defined, tables_total.
The domain is finite and enumerated completely, so these are proofs, not samples.
"""
from __future__ import annotations

from .. import logicobl
from ..common import Ctx

LEVEL = 'proof'
THMS = ['spec_defined', 'tables_spec', 'defined_ops', 'base_tables', 'tables_total']


def _real_value(logic_name, what, row):
    from pytableaux.logics import registry
    from pytableaux.lang import Operator, Quantifier
    from ..extract import probe
    logic = registry(logic_name)
    if what in ('Existential', 'Universal'):
        return probe.qfold_value(logic, Quantifier[what], list(row))
    if what in ('Possibility', 'Necessity'):
        return probe.mfold_value(logic, Operator[what], list(row), probe.frame_kind(logic))
    if what in Operator.__members__:
        V = logic.Meta.values
        return str(logic.Model.truth_function(Operator[what], *(V[x] for x in row)))
    return None


def h_tables_spec(ctx: Ctx, lg: str, toks):
    what = toks[0]
    row = toks[1] if len(toks) > 1 else ''
    key = f'C07:tables_spec:{lg}:{what}:{row}'
    spec = logicobl.spec_tables().get(lg)
    code = _real_value(lg, what, row)
    sv = None
    if spec:
        if what in ('Existential', 'Universal'):
            sv = spec['qf'].get((what, row))
        elif what in ('Possibility', 'Necessity'):
            sv = spec['mf'].get((what, row))
        elif len(row) == 1:
            sv = spec['t1'].get((what, row))
        elif len(row) == 2:
            sv = spec['t2'].get((what, row[0], row[1]))
    found = code is not None and sv is not None and code != sv
    if what in ('vals', 'designated', 'no-spec'):
        found = True
    return (key, f'{lg}: {what}({",".join(row)}) = {code} in the code, documented value {sv}',
            dict(logic=lg, operator=what, inputs=list(row), code_value=code, documented_value=sv,
                 how='registry(logic).Model.truth_function(Operator[op], *inputs)  (folds: a model whose instances take exactly these values)'),
            found)


def h_defined(ctx: Ctx, lg: str, toks):
    op, row = toks[0], toks[1]
    from pytableaux.logics import registry
    from pytableaux.lang import Operator
    tf = registry(lg).Model.truth_function
    V = registry(lg).Meta.values
    a, b = V[row[0]], V[row[1]]
    got = str(tf(Operator[op], a, b))
    if op == 'MaterialConditional':
        exp = str(tf(Operator.Disjunction, tf(Operator.Negation, a), b))
    elif op == 'MaterialBiconditional':
        exp = str(tf(Operator.Conjunction, tf(Operator.MaterialConditional, a, b), tf(Operator.MaterialConditional, b, a)))
    else:
        exp = str(tf(Operator.Conjunction, tf(Operator.Conditional, a, b), tf(Operator.Conditional, b, a)))
    return (f'C07:defined_ops:{lg}:{op}:{row}', f'{lg}: {op}({a},{b}) = {got} but its definition gives {exp}',
            dict(logic=lg, operator=op, inputs=[a, b], value=got, by_definition=exp), got != exp)


def h_simple(cat):
    def h(ctx, lg, toks):
        return (f'C07:{cat}:{lg}', f'{lg}: {cat} fails {" ".join(toks)}', dict(logic=lg, theorem=f'Ptx.Gen.Obl.{lg}.{cat}'), False)
    return h


def base_rows(ctx: Ctx, data):
    """implementation-side comparison behind `base_tables` (the report has no row for it)"""
    from ..extract.gen import base_of, _ALL_NAMES
    _ALL_NAMES.clear(); _ALL_NAMES.update(n for n in data if 'fatal' not in data[n])
    n = 0
    for lg, d in sorted(data.items()):
        if 'fatal' in d:
            continue
        b = base_of(lg)
        tb, tbase = d['tables'], data[b]['tables']
        for fld in ('vals', 'des', 't1', 't2'):
            rows_a = tb[fld] if isinstance(tb[fld], list) else list(tb[fld])
            rows_b = tbase[fld] if isinstance(tbase[fld], list) else list(tbase[fld])
            for ra in rows_a:
                n += 1
                if ra not in rows_b:
                    ctx.fail(f'C07:base_tables:{lg}:{fld}:{"".join(map(str, ra[:-1])) if isinstance(ra, (list, tuple)) else ra}',
                             f'{lg} differs from its base {b} on {fld} row {ra}',
                             dict(logic=lg, base=b, field=fld, row=ra, base_rows=[r for r in rows_b if isinstance(r, (list, tuple)) and r[:-1] == ra[:-1]]), found_input=True)
    return n


def published_tables(ctx: Ctx, data):
    """The tables the package PUBLISHES (Model.truth_table, plain and reversed, on the class and on an instance — the doc
    directive renders the reversed form) must be the graph that was compared with the documented tables: every
    (inputs[i], outputs[i]) pair and every mapping entry equals the regenerated row; all value tuples are listed once."""
    import itertools
    from pytableaux.logics import registry
    from pytableaux.lang import Operator
    n = 0
    for lg, d in sorted(data.items()):
        if 'fatal' in d:
            continue
        logic = registry(lg)
        vals = [str(v) for v in logic.Meta.values]
        graph = {}
        for o, a, r in d['tables']['t1']:
            graph[(o, (a,))] = r
        for o, a, b, r in d['tables']['t2']:
            graph[(o, (a, b))] = r
        from ..extract.probe import OPNAME
        for oper in Operator:
            on = OPNAME[oper]
            if (on, tuple(vals[:1] * oper.arity)) not in graph:
                continue            # modal operators have no truth table row in the regenerated graph
            for where, M in (('class', logic.Model), ('instance', logic.Model())):
                for rev in (False, True):
                    try:
                        tt = M.truth_table(oper, reverse=rev)
                        pairs = list(zip(tt.inputs, tt.outputs))
                        mp = dict(tt.mapping)
                    except Exception as e:  # noqa
                        ctx.fail(f'C07:published:{lg}:{oper.name}:raises', f'{lg}: Model.truth_table({oper.name}, reverse={rev}) on the {where} raised '
                                 f'{type(e).__name__}: {e}', dict(logic=lg, operator=oper.name, reverse=rev, where=where))
                        continue
                    n += len(pairs)
                    want = [tuple(x) for x in itertools.product(vals[::-1] if rev else vals, repeat=oper.arity)]
                    got_inputs = [tuple(str(v) for v in i) for i in tt.inputs]
                    bad = None
                    if got_inputs != want:
                        bad = f'inputs are {got_inputs[:4]}…, expected every value tuple once in {"descending" if rev else "ascending"} order'
                    else:
                        for i, o_ in pairs:
                            k = tuple(str(v) for v in i)
                            if str(o_) != graph[(on, k)]:
                                bad = f'row {k} is published with output {o_}, the truth function gives {graph[(on, k)]}'
                                break
                        else:
                            for i, o_ in mp.items():
                                k = tuple(str(v) for v in i)
                                if str(o_) != graph[(on, k)]:
                                    bad = f'mapping[{k}] = {o_}, the truth function gives {graph[(on, k)]}'
                                    break
                    if bad:
                        ctx.fail(f'C07:published:{lg}:{oper.name}:{"reversed" if rev else "plain"}',
                                 f'{lg}: Model.truth_table({oper.name}, reverse={rev}) on the {where}: {bad}',
                                 dict(logic=lg, operator=oper.name, reverse=rev, where=where, detail=bad))
    return n


def native_oracle(ctx: Ctx, data) -> int:
    """"the defined operators obey their definitions … assertion transparent where not native", with `native` read off the
    logic's OWN metadata (Meta.native_operators) and the values off its own truth function: an operator the logic does not
    declare native must be the documented definition over the logic's other tables (Assertion = identity, material
    conditional = not-or, material biconditional / biconditional = conjunction of the two conditionals).  The Conditional is
    left out: where it is not native its definition is logic specific (B3E defines it through Assertion)."""
    import itertools
    from pytableaux.logics import registry
    from pytableaux.lang import Operator as O
    n = 0
    for lg in sorted(data):
        if 'fatal' in data[lg]:
            continue
        logic = registry(lg)
        M = logic.Model()
        vals = list(M.Meta.values)
        nat = set(logic.Meta.native_operators)
        f = M.truth_function
        defs = {O.Assertion: lambda a: a,
                O.MaterialConditional: lambda a, b: f(O.Disjunction, f(O.Negation, a), b),
                O.MaterialBiconditional: lambda a, b: f(O.Conjunction, f(O.MaterialConditional, a, b), f(O.MaterialConditional, b, a)),
                O.Biconditional: lambda a, b: f(O.Conjunction, f(O.Conditional, a, b), f(O.Conditional, b, a))}
        for op, dfn in defs.items():
            if op in nat:
                continue
            for tup in itertools.product(vals, repeat=op.arity):
                n += 1
                got, exp = f(op, *tup), dfn(*tup)
                if got != exp:
                    ctx.fail(f'C07:defined-op:{lg}:{op.name}', f'{lg} does not declare {op.name} native (Meta.native_operators), but its value on '
                             f'{tuple(str(x) for x in tup)} is {got}, the definition over the logic\'s own tables gives {exp}',
                             dict(logic=lg, operator=op.name, row=[str(x) for x in tup], value=str(got), definition_value=str(exp),
                                  native_operators=sorted(o.name for o in nat)), found_input=True)
                    break
    return n


def evaluator_rows(ctx: Ctx, data) -> int:
    """the value a MODEL of the logic assigns to op(X, Y) is the table entry at the values it assigns to X and Y — for operands
    that are letters and, in modal logics, possibility / necessity sentences (a modal extension evaluates compounds by the
    tables of its base logic whatever the operands are)"""
    import itertools
    from pytableaux.logics import registry
    from pytableaux.lang import Atomic, Operated, Operator as O
    a, b, c, d = (Atomic(i, 0) for i in range(4))
    n = 0
    for lg in sorted(data):
        if 'fatal' in data[lg]:
            continue
        logic = registry(lg)
        modal = bool(logic.Meta.modal)
        vals = list(logic.Model().Meta.values)
        shapes = [(a, b)]
        if modal:
            shapes += [(Operated(O.Possibility, (c,)), b), (a, Operated(O.Necessity, (d,))), (Operated(O.Possibility, (c,)), Operated(O.Necessity, (d,)))]
        bad = set()
        for v1, v2 in itertools.product(vals, repeat=2):
            m = logic.Model()
            try:
                for w in ((0, 1) if modal else (0,)):
                    kw = dict(world=w) if modal else {}
                    m.set_atomic_value(a, v1, **kw); m.set_atomic_value(c, v1, **kw)
                    m.set_atomic_value(b, v2, **kw); m.set_atomic_value(d, v2, **kw)
                if modal:
                    m.R.add((0, 1))
                m.finish()
            except Exception as e:  # noqa - not this check's subject
                ctx.notes.append(f'evaluator_rows: {lg}: model not built: {type(e).__name__}'[:120])
                break
            f = m.truth_function
            for X, Y in shapes:
                for op in O:
                    if op in (O.Possibility, O.Necessity) or (lg, op.name) in bad:
                        continue
                    s = Operated(op, (X,) if op.arity == 1 else (X, Y))
                    kw = dict(world=0) if modal else {}
                    try:
                        got = m.value_of(s, **kw)
                        exp = f(op, *(m.value_of(x, **kw) for x in s.operands))
                    except Exception as e:  # noqa
                        got, exp = f'{type(e).__name__}', None
                    n += 1
                    if got != exp:
                        bad.add((lg, op.name))
                        ctx.fail(f'C07:evaluator-row:{lg}:{op.name}', f'{lg}: a model gives {s} the value {got}; its operands have the values '
                                 f'{[str(m.value_of(x, **kw)) for x in s.operands]}, for which the table of {op.name} gives {exp}',
                                 dict(logic=lg, sentence=str(s), operand_values=[str(v1), str(v2)], value=str(got), table_value=str(exp)),
                                 found_input=True)
    return n


def run(ctx: Ctx):
    data = logicobl.regenerate()
    cats = dict(tables_spec=h_tables_spec, defined_ops=h_defined, spec_defined=h_simple('spec_defined'),
                tables_total=h_simple('tables_total'),
                __issue__=lambda ctx, lg, issue: ((f'C07:extract:{lg}:{issue[:60]}', f'{lg}: {issue}', dict(logic=lg, issue=issue), True)
                                                  if ('not a function of the value set' in issue or 'FATAL' in issue or 'fold probe' in issue) else None))
    logicobl.decide_rows(ctx, cats, THMS)
    off7 = [(lg, k, det) for lg, k, det in logicobl.cache_off_diff() if k in ('tables', 'qf', 'mf', 'missing')]
    for lg, k, det in off7:
        ctx.fail(f'C07:cache-off:{lg}:{k}', f'{lg}: with ITEM_CACHE_SIZE=0 the extracted {k} differ from the default ones: {det[:400]}',
                 dict(logic=lg, field=k, env=dict(ITEM_CACHE_SIZE='0'), detail=det), found_input=True)
    ctx.add_cov(cache_off_differences=len(off7))
    nrows = base_rows(ctx, data)
    npub = published_tables(ctx, data)
    npub += native_oracle(ctx, data)
    npub += evaluator_rows(ctx, data)
    # coverage: how many table rows were compared (measured from the regenerated data)
    rows = 0
    for lg, d in data.items():
        if 'fatal' in d:
            continue
        rows += len(d['tables']['t1']) + len(d['tables']['t2']) + len(d['qf']) + len(d['mf'])
        for r in d['tables']['t2'][:2]:
            ctx.count(('row', lg, tuple(r[:3])))
        for r in d['tables']['t2']:
            ctx._distinct.add(f'{lg}:{r[0]}:{r[1]}{r[2]}')
        for r in d['qf'] + d['mf']:
            ctx._distinct.add(f'{lg}:{r[0]}:{"".join(r[1])}')
    ctx.coverage['evaluations'] = rows + nrows
    ctx.add_cov(exhaustive=True, rule='every (logic, operator, value tuple) and every (logic, quantifier|modal, value set) row of the '
                'regenerated tables, enumerated completely; distinct = distinct (logic, operator, inputs) rows',
                table_rows=rows, base_rows_compared=nrows, published_table_rows_compared=npub)
    ctx.sample(dict(logic='K3W', row=data['K3W']['tables']['t2'][4] if 'K3W' in data else None))
    ctx.sample(dict(logic='FDE', known_deviation='Conjunction(N,B): code N, documented F'))
    ctx.assumptions += ['documented tables = Ptx/Sem/Spec.lean, transcribed from the doc prose and cited literature, not from the code',
                        'quantifier / modal values are functions of the SET of instance values (validated by the extractor on permutations and repetitions each run)']
