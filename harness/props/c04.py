"""
C04 — every single expansion step preserves satisfiability exactly.

Deciding method: the rule table of every logic is regenerated from the running code (what a real
Tableau adds for each compound shape × negated × designation, abstracted to templates), and per
logic the Lean kernel evaluates
    rules_exact : every rule that is not exact on some abstract valuation is a committed known finding
                  (operator rules: all operand value pairs; quantifier / modal rules: all value
                  PROFILES = sets of values the body takes over the domain / the accessible worlds —
                  which decides exactness for every domain size and every frame, cf. the generic
                  lift lemmas in Ptx/Proofs/Lift.lean, Sound.lean)
    rules_sound, rules_total (every interpreted shape has a rule), rules_local (non-modal rules
    stay at the node's world), sound_core (frame rules justified by the frame class, vocabulary).
Frame rules: the closure the real frame rules produce on access-pair sets is compared with the
Lean closure functions whose characterisation is proved (Ptx/Props/C04.lean).
Semantics = documented tables (Ptx/Sem/Spec.lean).
"""
from __future__ import annotations

import itertools

from .. import logicobl, wire
from ..common import Ctx, drive

LEVEL = 'proof'
THMS = ['rules_exact', 'rules_sound', 'rules_total', 'rules_local', 'sound_core']


def _parse_keyname(name: str):
    """'ConjunctionNegatedDesignated' -> (shape name, negated, d)"""
    d = None
    if name.endswith('Undesignated'):
        d, name = False, name[:-len('Undesignated')]
    elif name.endswith('Designated'):
        d, name = True, name[:-len('Designated')]
    ng = name.endswith('Negated')
    if ng:
        name = name[:-len('Negated')]
    return name, ng, d


def _profile_value(ev: logicobl.SpecEval, s, P, pt, inner, raw, inst_of, modal_op):
    """value of a sentence produced by a quantifier/modal probe, on profile P with witness value pt"""
    from pytableaux.lang import Operated, Quantified, Operator
    if s == inner:
        if type(inner) is Quantified:
            return ev.qfold(inner.quantifier.name, P)
        return ev.mfold(inner.operator.name, P)
    if inst_of is not None and s == inst_of:
        return pt
    if type(s) is Quantified:
        vals = {_pointwise(ev, s.sentence, v, raw) for v in P}
        if None in vals:
            return None
        return ev.qfold(s.quantifier.name, vals)
    if type(s) is Operated:
        if s.operator in (Operator.Possibility, Operator.Necessity):
            vals = {_pointwise(ev, s.lhs, v, raw) for v in P}
            if None in vals:
                return None
            return ev.mfold(s.operator.name, vals)
        parts = [_profile_value(ev, x, P, pt, inner, raw, inst_of, modal_op) for x in s]
        if any(p is None for p in parts):
            return None
        return ev.f(s.operator.name, *parts)
    return None


def _pointwise(ev, s, v, raw):
    from pytableaux.lang import Operated
    if s == raw:
        return v
    if type(s) is Operated and s.operator.name in ('Assertion', 'Negation', 'Conjunction', 'Disjunction',
                                                   'MaterialConditional', 'MaterialBiconditional', 'Conditional', 'Biconditional'):
        parts = [_pointwise(ev, x, v, raw) for x in s]
        if any(p is None for p in parts):
            return None
        return ev.f(s.operator.name, *parts)
    return None


def confirm_rule(lg: str, keyname: str, witness: str):
    """Re-run the real rule on a probe node and evaluate node and extensions on the witness
    valuation with the documented tables. Returns (confirmed, details)."""
    from pytableaux.logics import registry
    from pytableaux.lang import Operated, Quantified
    from pytableaux.proof import AccessNode, SentenceNode
    from ..extract import probe
    logic = registry(lg)
    ev = logicobl.SpecEval(lg)
    shape, ng, d = _parse_keyname(keyname)
    op1 = {n: o for n, o in ((o.name, o) for _, o in probe.OP1)}
    op2 = {o.name: o for _, o in probe.OP2}
    qs = {q.name: q for _, q in probe.QUANTS}
    if shape == 'DoubleNegation':
        shape = 'Negation'
    if shape in op2:
        inner, kind = Operated(op2[shape], (probe.A, probe.B)), 'op'
    elif shape in ('Possibility', 'Necessity'):
        inner, kind = Operated(op1[shape], (probe.A,)), 'modal'
    elif shape in op1:
        inner, kind = Operated(op1[shape], (probe.A,)), 'op'
    elif shape in qs:
        inner, kind = Quantified(qs[shape], probe.X, probe.F1(probe.X)), 'quant'
    else:
        return False, dict(error=f'unknown shape {shape}')
    tab, node = probe.make_probe(logic, inner, ng, d, kind)
    w0 = node.get('world')
    hits = probe.run_probe(tab, node)
    if not hits:
        return False, dict(error='no rule fired on the probe')
    h = hits[0]
    groups = h['adds']
    detail = dict(logic=lg, rule=h['rule'], node=dict(sentence=str(node['sentence']), designated=d, world=w0),
                  adds=[[{k.value if hasattr(k, 'value') else str(k): str(v) for k, v in n.items()} for n in g] for g in groups],
                  valuation=witness)
    if kind == 'op':
        a, b = witness[0], witness[-1]
        av = {probe.A: a, probe.B: b}
        nv = ev.value(node['sentence'], av)
        node_sat = ev.sat(d, nv)
        gsat = []
        for g in groups:
            ok = True
            for n in g:
                if not isinstance(n, SentenceNode) or n.get('world') != w0:
                    ok = False
                    break
                ok = ok and ev.sat(n.get('designated'), ev.value(n['sentence'], av))
            gsat.append(ok)
        detail.update(node_value=nv, node_satisfied=node_sat, extensions_satisfied=gsat,
                      tables='documented (Ptx/Sem/Spec.lean)')
        return node_sat != any(gsat), detail
    # quantifier / modal: evaluate on the profile
    P = set(witness.replace('-', ''))
    raw = probe.F1(probe.X) if kind == 'quant' else probe.A
    whole_v = ev.qfold(inner.quantifier.name, P) if kind == 'quant' else ev.mfold(inner.operator.name, P)
    nv = ev.f('Negation', whole_v) if ng else whole_v
    node_sat = ev.sat(d, nv)
    wit_c = h.get('c')
    inst_of = (wit_c >> inner) if (kind == 'quant' and wit_c is not None) else (probe.A if kind == 'modal' else None)

    def group_sat(g, pt):
        for n in g:
            if isinstance(n, AccessNode):
                continue
            s = n['sentence']
            if kind == 'modal' and n.get('world') != w0:
                v = _pointwise(ev, s, pt, probe.A) if pt is not None else None
            elif kind == 'modal':
                v = _profile_value(ev, s, P, None, inner, probe.A, None, True)
            else:
                v = _profile_value(ev, s, P, pt, inner, raw, inst_of, False)
            if v is None or not ev.sat(n.get('designated'), v):
                return False
        return True

    def has_other(g):
        return any(isinstance(n, AccessNode) or n.get('world') != w0 for n in g) if kind == 'modal' else \
            any(inst_of is not None and (n['sentence'] == inst_of or inst_of in probe._subsentences(n['sentence'])) for n in g if isinstance(n, SentenceNode))

    each = len(hits) > 1 and not any(b.is_ticked(node) for b in tab)
    if each:
        ext = all(group_sat(groups[0], v) for v in P)
    else:
        ext = any((any(group_sat(g, v) for v in P) if has_other(g) else group_sat(g, None)) for g in groups)
    detail.update(profile=sorted(P), node_value=nv, node_satisfied=node_sat, some_extension_satisfied=ext,
                  kind='each' if each else 'new/none')
    return node_sat != ext, detail


def h_rules_exact(ctx: Ctx, lg: str, toks):
    keyname = toks[0]
    kv = dict(t.split('=', 1) for t in toks[1:] if '=' in t)
    wits = kv.get('witnesses', '')
    key = f'C04:rules_exact:{lg}:{keyname}:{wits}'
    first = wits.split('|')[0] if wits else ''
    if ctx.match_known(key) is not None:
        # known: still re-confirm on the implementation that it reproduces
        ok, det = confirm_rule(lg, keyname, first)
        return (key, f'{lg} {keyname} is not exact on valuations {wits} (sound={kv.get("sound")})', det, True) if ok else \
            (key + ':unconfirmed', f'{lg} {keyname}: known finding no longer reproduces on the implementation', det, False)
    try:
        ok, det = confirm_rule(lg, keyname, first)
    except Exception as e:  # noqa
        ok, det = False, dict(error=f'{type(e).__name__}: {e}')
    det['theorem'] = f'Ptx.Gen.Obl.{lg}.rules_exact'
    return (key, f'{lg} {keyname} is not exact on valuations {wits} (sound={kv.get("sound")})', det, ok)


def h_simple(cat):
    def h(ctx, lg, toks):
        return (f'C04:{cat}:{lg}:{"_".join(toks)[:80]}', f'{lg}: {cat} fails: {" ".join(toks)}',
                dict(logic=lg, theorem=f'Ptx.Gen.Obl.{lg}.{cat}', row=toks), cat in ('rules_total', 'rules_local'))
    return h


def h_issue(ctx, lg, issue):
    if any(x in issue for x in ('irregular', 'cannot abstract', 'access node', 'unexpected world', 'flag node', 'unknown node', 'FATAL')):
        return (f'C04:extract:{lg}:{issue[:70]}', f'{lg}: {issue}', dict(logic=lg, issue=issue, correspondence='rule-template extraction'), True)
    return None


# ---------------------------------------------------------------------------
# frame rules: real closure vs Lean closure
# ---------------------------------------------------------------------------

def frame_closure_real(logic, pairs, worlds):
    """run the logic's access rules to exhaustion on a branch carrying the given worlds / access pairs"""
    from pytableaux.lang import Argument
    from pytableaux.proof import Tableau, anode, sdwnode, rules as prules, AccessNode
    from ..extract import probe
    from pytableaux.lang import Operator
    nec = probe.Z1
    for _ in range(5):
        nec = Operator.Necessity(nec)       # raises the projected world limit; a box never creates worlds
    tab = Tableau(logic, Argument(probe.Z2, [nec]), max_steps=600)
    b = tab[0]
    d = b[0].get('designated')
    for w in worlds:
        if w != 0:
            b.append(sdwnode(probe.Z3, d, w))
    for (x, y) in pairs:
        b.append(anode(x, y))
    start_worlds = set(b.worlds)
    n = 0
    while n < 600:
        e = tab.step()
        if e is None:
            break
        n += 1
    acc = sorted({(nd['world1'], nd['world2']) for nd in b if isinstance(nd, AccessNode)})
    return acc, start_worlds, tab


def frames_part(ctx: Ctx, data):
    from pytableaux.logics import registry
    lines, meta = [], []
    kinds = {}
    for lg, d in sorted(data.items()):
        if 'fatal' in d or not d['modal']:
            continue
        kinds.setdefault((d['frame'], tuple(d['frame_rules'])), lg)
    rng = ctx.rng
    for (frame, frs), lg in sorted(kinds.items()):
        logic = registry(lg)
        cases = []
        W3 = [0, 1, 2]
        allpairs = [(x, y) for x in W3 for y in W3]
        subsets = []
        if ctx.thorough:
            for r in range(0, 10):
                for S in itertools.combinations(allpairs, r):
                    subsets.append(list(S))
        else:
            for r in range(0, 4):
                for S in itertools.combinations(allpairs, r):
                    subsets.append(list(S))
            subsets = subsets[:40] + rng.sample(subsets[40:], 40)
            for _ in range(15):
                subsets.append(rng.sample(allpairs, rng.randint(3, 9)))
        for S in subsets:
            ws = sorted({0} | {x for p in S for x in p} | set(rng.sample(W3, rng.randint(0, 2))))
            cases.append((S, ws))
        for S, ws in cases:
            acc, start_worlds, tab = frame_closure_real(logic, S, ws)
            ctx.count(('frame', frame, tuple(S), tuple(ws)))
            lines.append('frameclosure ' + frame + ' ' + ','.join(map(str, ws)) + ' ' + ';'.join(f'{x}.{y}' for x, y in sorted(set(S))))
            meta.append((lg, frame, S, ws, acc, start_worlds))
    outs = drive(lines) if lines else []
    ndis = 0
    for (lg, frame, S, ws, acc, start_worlds), out in zip(meta, outs):
        # D: the real rule adds fresh successor worlds; compare only the property (every start world has a successor, old pairs kept)
        if frame == 'D':
            ok_real = all(any(x == w for x, _ in acc) for w in start_worlds) and set(S) <= set(acc)
            if not ok_real:
                ctx.fail(f'C04:frame:{frame}:serial-missing', f'{lg}: serial rule left a world without successor on {S} worlds {ws}',
                         dict(logic=lg, pairs=S, worlds=ws, result=acc), found_input=True)
            continue
        want = sorted(tuple(map(int, p.split('.'))) for p in (out.split() + [''])[1].split(';') if p) if out.startswith('ok') else None
        if want is None or want != acc:
            ndis += 1
            # implementation-side oracle: is `acc` the least relation ⊇ S with the frame property over ws?
            exp = _closure_py(frame, S, ws)
            found = exp != acc
            ctx.fail(f'C04:frame:{frame}:closure', f'{lg}: frame rules produce {acc} from {S} on worlds {ws}; required closure {exp} (Lean: {out})',
                     dict(logic=lg, pairs=S, worlds=ws, result=acc, required=exp, lean=out), found_input=found)
    ctx.add_cov(frame_cases=len(lines), frame_disagreements=ndis)


def _closure_py(frame, S, ws):
    R = set(map(tuple, S))
    if frame in ('T', 'S4', 'S5'):
        R |= {(w, w) for w in ws}
    changed = True
    while changed:
        changed = False
        if frame in ('S4', 'S5'):
            for (a, b) in list(R):
                for (c, d) in list(R):
                    if b == c and (a, d) not in R:
                        R.add((a, d)); changed = True
        if frame == 'S5':
            for (a, b) in list(R):
                if (b, a) not in R:
                    R.add((b, a)); changed = True
    return sorted(R)


# ---------------------------------------------------------------------------
# re-application: "for all already-present constants / accessible worlds where the rule re-applies"
# ---------------------------------------------------------------------------

def instances_part(ctx: Ctx, data):
    """Implementation-side oracle for the re-applying rules (witness eachConst / eachWorld in the regenerated
    table): a one-node probe tableau — with the constants / accessible worlds coming from the node's OWN sentence,
    from other trunk nodes, in and out of alphabetical order — is run to the end; on every open branch that no limit
    flag cut short, every constant (accessible world) on the branch must have received its instance of the node."""
    from ..extract import probe as PR
    from pytableaux.lang import Operated, Operator, Quantified, Predicate, Constant
    from pytableaux.logics import registry
    from pytableaux.proof import FlagNode, SentenceNode, AccessNode
    R2 = Predicate(2, 0, 2)
    CD = Constant(3, 0)
    bodies = [('Fx', lambda x: PR.F1(x)), ('Rxa', lambda x: R2(x, PR.CA)), ('Rdx', lambda x: R2(CD, x)),
              ('Fx|Ga', lambda x: Operated(Operator.Disjunction, (PR.F1(x), PR.G1(PR.CA))))]
    contexts = [('none', []), ('Gb', [PR.G1(PR.CB)]), ('Gc,Ga', [PR.G1(PR.CC), PR.G1(PR.CA)])]
    combos = [(b, c) for b in bodies for c in contexts]
    if not ctx.thorough:
        combos = [combos[i] for i in (0, 1, 3, 5, 6, 11)]
    nchecked = 0
    hist = {}
    for lg in sorted(data):
        d = data[lg]
        if 'fatal' in d:
            continue
        logic = registry(lg)
        for k, r in d['rules']:
            (kind, sym), negated, des = k
            if r['witness'] == 'eachConst' and kind == 'quant':
                q = dict(PR.QUANTS)[sym]
                for (bn, body), (cn, context) in combos:
                    inner = Quantified(q, PR.X, body(PR.X))
                    try:
                        tab, node = PR.make_probe(logic, inner, negated, des, 'quant', context=list(context))
                    except AssertionError:
                        continue
                    tab.opts['max_steps'] = 400
                    tab.build()
                    nchecked += 1
                    hist[f'quant/{bn}/{cn}'] = hist.get(f'quant/{bn}/{cn}', 0) + 1
                    ctx.count(f'inst:{lg}:{r["name"]}:{bn}:{cn}')
                    if tab.premature:
                        continue
                    for b in tab.open:
                        if any(isinstance(n, FlagNode) for n in b):
                            continue
                        sents = [n['sentence'] for n in b if isinstance(n, SentenceNode) and n is not node]
                        missing = []
                        for c in sorted(b.constants):
                            inst = c >> inner
                            if not any(inst == s_ or inst in PR._subsentences(s_) for s_ in sents):
                                missing.append(str(c))
                        if missing:
                            from pytableaux.lang import LexWriter
                            lw = LexWriter('polish')
                            ctx.fail(f'C04:reapply:{lg}:{r["name"]}:constant-instance-missing',
                                     f'{lg}: {r["name"]} on the one-node probe {lw(node["sentence"])} (context {cn}) finished with an open, '
                                     f'limit-free branch on which the constants {missing} never received their instance of the node',
                                     dict(logic=lg, rule=r['name'], node=lw(node['sentence']), designated=des,
                                          context=[lw(x) for x in context], branch=[str(dict(n)) for n in b][:12]))
                            break
            elif r['witness'] == 'eachWorld' and kind == 'op1':
                o = dict(PR.OP1)[sym]
                inner = Operated(o, (PR.A,))
                for cn, context in (('1 successor', [Operator.Possibility(PR.Z3)]),
                                    ('2 successors', [Operator.Possibility(PR.Z3), Operator.Possibility(PR.Z1)])):
                    try:
                        tab, node = PR.make_probe(logic, inner, negated, des, 'modal', context=list(context))
                    except AssertionError:
                        continue
                    tab.opts['max_steps'] = 400
                    tab.build()
                    nchecked += 1
                    hist[f'modal/{cn}'] = hist.get(f'modal/{cn}', 0) + 1
                    ctx.count(f'inst:{lg}:{r["name"]}:{cn}')
                    if tab.premature:
                        continue
                    w0 = node.get('world')
                    for b in tab.open:
                        if any(isinstance(n, FlagNode) for n in b):
                            continue
                        succ = sorted({n['world2'] for n in b if isinstance(n, AccessNode) and n['world1'] == w0})
                        missing = []
                        for w in succ:
                            at = [n['sentence'] for n in b if isinstance(n, SentenceNode) and n.get('world') == w and n is not node]
                            if not any(PR.A == s_ or PR.A in PR._subsentences(s_) for s_ in at):
                                missing.append(w)
                        if missing:
                            ctx.fail(f'C04:reapply:{lg}:{r["name"]}:world-instance-missing',
                                     f'{lg}: {r["name"]} on a one-node probe with {cn} finished with an open, limit-free branch on which '
                                     f'the accessible worlds {missing} never received their instance of the node',
                                     dict(logic=lg, rule=r['name'], designated=des, context=cn, branch=[str(dict(n)) for n in b][:14]))
                            break
    ctx.add_cov(reapplication_probes=nchecked, reapplication_probe_histogram=hist)


# ---------------------------------------------------------------------------
# uniformity of the extracted templates: every rule row on several operand shapes, replayed through the model
# ---------------------------------------------------------------------------

def uniformity_part(ctx: Ctx, data):
    """The translator abstracts each rule row from a probe with ATOMIC operands and assumes the rule is uniform in its
    operands.  Here every rule row of every logic is exercised on real tableaux whose keyed node has compound, repeated,
    quantified and modal operands; the whole run is replayed through the calculus model instantiated with the regenerated
    templates: every step must be a legal instance and the final branches must be equal node for node."""
    from .. import tabrun
    from ..common import drive
    from pytableaux.lang import Atomic, Operated, Operator, Quantified, Quantifier, Variable, Predicate, Constant
    A, B, C, D = Atomic(0, 0), Atomic(1, 0), Atomic(2, 0), Atomic(3, 0)
    x = Variable(0, 0)
    F, G = Predicate(0, 0, 1), Predicate(1, 0, 1)
    a = Constant(0, 0)
    N = Operator.Negation
    opn = {o.name: o for o in Operator}
    qn = {q.name: q for q in Quantifier}

    def operand_shapes(meta):
        sh = [(N(C), Operated(Operator.Conjunction, (C, D))), (A, A), (Operated(Operator.Disjunction, (A, N(A))), N(N(B)))]
        if meta['quantified']:
            sh.append((Quantified(Quantifier.Universal, x, F(x)), G(a)))
        if meta['modal']:
            sh.append((Operated(Operator.Possibility, (A,)), Operated(Operator.Necessity, (N(B),))))
        return sh

    jobs, info = [], []
    for lg in sorted(data):
        d = data[lg]
        if 'fatal' in d:
            continue
        shapes = operand_shapes(d)
        if not ctx.thorough:
            shapes = shapes[:2] + shapes[3:4]
        for k, r in d['rules']:
            (kind, sym), negated, des = k
            for (o1, o2) in shapes:
                if kind == 'quant':
                    body = Operated(Operator.Disjunction, (F(x), o1)) if x not in getattr(o1, 'variables', ()) else F(x)
                    inner = Quantified(dict((q.name.lower()[:2] if False else n, q) for n, q in [('ex', Quantifier.Existential), ('univ', Quantifier.Universal)])[sym], x, body)
                elif kind == 'op1':
                    inner = Operated({'asrt': Operator.Assertion, 'neg': Operator.Negation, 'poss': Operator.Possibility, 'nec': Operator.Necessity}[sym], (o1,))
                else:
                    inner = Operated({'conj': Operator.Conjunction, 'disj': Operator.Disjunction, 'mcond': Operator.MaterialConditional,
                                      'mbicond': Operator.MaterialBiconditional, 'cond': Operator.Conditional, 'bicond': Operator.Biconditional}[sym], (o1, o2))
                S = N(inner) if negated else inner
                if d['marks']:
                    prem, conc = ([S, G(a)], D) if des is not False else ([G(a)], S)
                else:
                    prem, conc = ([S, G(a)], D) if not negated else ([G(a)], inner)
                if d['modal']:
                    prem = prem + [Operated(Operator.Possibility, (Atomic(4, 0),))]      # an accessible world for each-world rules
                jobs.append(tabrun.job_for(len(jobs), lg, prem, conc, opts=tabrun.OPTS[0], mode='build', max_steps=60))
                info.append((lg, r['name']))
    outs = tabrun.run_jobs(jobs, order_seed=0)
    good = [(i, o) for i, o in enumerate(outs) if 'error' not in o]
    for i, o in enumerate(outs):
        if 'error' in o:
            lg, rn = info[i]
            ctx.fail(f'C04:uniformity:exception:{lg}:{rn}', f'{lg}: the prover raised {o["error"][:160]} on a probe of rule {rn} with compound operands',
                     dict(argument=tabrun.arg_text(jobs[i]), traceback=o.get('traceback')), found_input=bool(o.get('repo')))
    answers = drive([o['request'] for _, o in good])
    fired = set()
    nrej = 0
    for (i, o), a_ in zip(good, answers):
        lg, rn = info[i]
        ctx.count(('uniform', lg, rn, tuple(jobs[i]['premises']), jobs[i]['conclusion']))
        if rn in o['rules']:
            fired.add((lg, rn))
        ok = a_.startswith('ok') and a_.split(' :: ', 1)[1] == o['final']
        if not ok:
            nrej += 1
            ctx.fail(f'C04:uniformity:{lg}:{rn}', f'{lg}: a real run exercising {rn} on compound operands is not reproduced by the regenerated '
                     f'templates ({a_.split(" :: ")[0][:80]}): the rule is not uniform in its operands or the template is wrong',
                     dict(argument=tabrun.arg_text(jobs[i]), correspondence='whole-proof replay of rule-row probes', driver=a_.split(' :: ')[0]),
                     found_input=False)
    allrows = set(info)
    ctx.add_cov(uniformity_probes=len(jobs), uniformity_rule_rows=len(allrows), uniformity_rule_rows_fired=len(fired),
                uniformity_rows_never_fired=sorted(f'{lg}:{rn}' for lg, rn in allrows - fired)[:40], uniformity_rejected=nrej)


def run(ctx: Ctx):
    data = logicobl.regenerate()
    cats = dict(rules_exact=h_rules_exact, rules_total=h_simple('rules_total'), rules_local=h_simple('rules_local'),
                sound_core=h_simple('sound_core'), __issue__=h_issue)
    res = logicobl.decide_rows(ctx, cats, THMS, extra_modules=['Ptx.Props.C04'])
    # the rule rows / frame rules extracted with the lexical item cache off (equal items are distinct objects) must be the
    # ones the kernel has just checked
    off4 = [(lg, k, det) for lg, k, det in logicobl.cache_off_diff() if k in ('rules', 'frame_rules', 'trunk', 'missing')]
    for lg, k, det in off4:
        ctx.fail(f'C04:cache-off:{lg}:{k}', f'{lg}: with ITEM_CACHE_SIZE=0 the extracted {k} differ from the (kernel-checked) default ones: {det[:400]}',
                 dict(logic=lg, field=k, env=dict(ITEM_CACHE_SIZE='0'), detail=det), found_input=True)
    ctx.add_cov(cache_off_differences=len(off4))
    if res.ok or not any('Drv' in f or 'Driver' in f for f, _ in getattr(res, 'failed', [])):
        try:
            frames_part(ctx, data)
        except Exception as e:  # noqa
            from ..common import repo_frames, tb_text, InfraError
            if isinstance(e, InfraError):
                raise
            if repo_frames(e):
                ctx.fail(f'C04:frame:exception:{type(e).__name__}', f'frame rules raised {type(e).__name__}: {e}',
                         dict(traceback=tb_text(e), correspondence='frame closure'), found_input=False)
            else:
                raise
    try:
        uniformity_part(ctx, data)
        instances_part(ctx, data)
    except Exception as e:  # noqa
        from ..common import repo_frames, tb_text
        if repo_frames(e):
            ctx.fail(f'C04:reapply:exception:{type(e).__name__}', f're-application probes raised {type(e).__name__}: {e}',
                     dict(traceback=tb_text(e), correspondence='re-application probes'), found_input=False)
        else:
            raise
    nrules = 0
    for lg, d in data.items():
        if 'fatal' in d:
            continue
        nv = len(d['tables']['vals'])
        for k, r in d['rules']:
            nrules += 1
            ctx._distinct.add(f'{lg}:{r["name"]}')
            kind = k[0][0]
            ctx.coverage['evaluations'] += (nv * nv if kind == 'op2' else nv if (kind == 'op1' and k[0][1] in ('asrt', 'neg')) else 2 ** nv)
    ctx.add_cov(exhaustive=True, rules=nrules,
                rule='every (logic, compound shape, negated, designation) rule row × every abstract valuation (operand value pairs; value '
                     'profiles for quantifier/modal rules), evaluated by the kernel; distinct = distinct (logic, rule) rows; plus frame-rule '
                     'closure cases compared with the Lean closure function')
    k3w = data.get('K3W')
    if k3w:
        ctx.sample(dict(logic='K3W', rule=k3w['rules'][8][1]))
    ctx.sample(dict(logic='B3E', known='BiconditionalUndesignated inexact at FT|NT|TF|TN'))
    ctx.assumptions += ['rule templates are abstracted from real Tableau runs on probe nodes with atomic operands; uniformity in the operands is '
                        'validated by replaying whole real proofs through the model (C01 correspondence)',
                        'semantics = documented tables (Spec.lean); the FDE-family evaluator deviates from them (C07 findings)']
