"""
Shared machinery of the C12 / C13 checks (parsers and writers).

 * generators: sentences (exhaustive-small, seeded random), strings (exhaustive-short, grammar-
   mutated renderings, long runs), parse sequences;
 * the Python side of the correspondence (real `Parser` / `LexWriter`, outcome canonicalised);
 * implementation-side oracles that never use the Lean model:
     - exception class other than ParseError                        (C13)
     - returned sentence closed / non-vacuous / arities, by an independent walk   (C13)
     - history independence: same answer as a fresh parser with the same store     (C13)
     - parse(write(s)) == s where the parser reads the writer's dialect            (C12)
     - pairwise distinct renderings                                                (C12)
"""
from __future__ import annotations

import itertools
import sys

from .. import common  # noqa: F401
from ..common import drive
from ..wire import enc_sent

from pytableaux.errors import ParseError
from pytableaux.lang import (Argument, Atomic, Constant, LexWriter, Notation, Operated, Operator,
                             Parser, Predicate, Predicated, Predicates, Quantified, Quantifier,
                             Variable)
from pytableaux.lang.parsing import ParseTable
from pytableaux.lang.writing import StringTable

OPS1 = [o for o in Operator if o.arity == 1]
OPS2 = [o for o in Operator if o.arity == 2]
QUANTS = list(Quantifier)
INT_LIMIT = sys.get_int_max_str_digits() if hasattr(sys, 'get_int_max_str_digits') else 0


# ---------------------------------------------------------------------------
# canonical forms
# ---------------------------------------------------------------------------

def cps(s: str) -> str:
    return ','.join(str(ord(c)) for c in s) or '-'


def uncps(t: str) -> str:
    return '' if t == '-' else ''.join(chr(int(x)) for x in t.split(','))


def enc_store(preds) -> str:
    body = ','.join(f'{p.index}.{p.subscript}.{p.arity}' for p in preds) or '-'
    return ('F:' if isinstance(preds, Predicates.Frozen) else '') + body


def mk_store(spec: str):
    frozen = spec.startswith('F:')
    body = spec[2:] if frozen else spec
    specs = [] if body == '-' else [tuple(int(x) for x in t.split('.')) for t in body.split(',')]
    if frozen or not specs:
        return Predicates.Frozen(specs) if frozen else Predicates(specs)
    # the parser's result is a function of the store's CONTENT: the same content is reached through different histories —
    # the constructor, index assignment over a member with the same symbol and another arity, a slice assignment of the
    # members onto themselves
    how = sum(sum(t) for t in specs) % 3
    if how == 0:
        return Predicates(specs)
    if how == 1:
        v = Predicates([(i, sub, ar + 1) for (i, sub, ar) in specs])
        for k, t in enumerate(specs):
            v[k] = Predicate(t)
        return v
    v = Predicates(specs)
    v[:] = list(v)
    return v


def exc_kind(e: BaseException) -> str:
    if isinstance(e, ParseError):
        return 'err:ParseError'
    if isinstance(e, RecursionError):
        return 'crash:RecursionError'
    if isinstance(e, ValueError):
        return 'crash:ValueError:conflict' if 'onflict' in str(e) else 'crash:ValueError'
    for cls in (KeyError, IndexError, AttributeError, TypeError):
        if isinstance(e, cls):
            return f'crash:{cls.__name__}'
    return f'crash:{type(e).__name__}'


def crash_key(prop: str, kind: str, e: BaseException | None, text: str, notation: str = '') -> str:
    """Identity of a non-ParseError exception, for known-findings matching."""
    name = kind.split(':', 1)[1]
    if name == 'ValueError' and e is not None and 'Exceeds the limit' in str(e):
        return f'{prop}:crash:ValueError:digit-run>{INT_LIMIT}'
    if name == 'RecursionError':
        return f'{prop}:crash:RecursionError:nesting'
    return f'{prop}:crash:{name}:{notation}'


class PySpec:
    """Parser configuration shared by both sides."""

    def __init__(self, notation='polish', auto=True, drop=True, raw=False, fuel=None):
        self.notation, self.auto, self.drop, self.raw, self.fuel = notation, auto, drop, raw, fuel

    def token(self) -> str:
        t = self.notation
        if not self.auto:
            t += ':noauto'
        if not self.drop:
            t += ':nodrop'
        if self.raw:
            t += ':raw'
        if self.fuel is not None:
            t += f':fuel={self.fuel}'
        t += f':lim={INT_LIMIT}'
        return t

    def parser(self, store_spec='-'):
        kw = dict(auto_preds=self.auto)
        if self.notation == 'standard':
            kw['drop_parens'] = self.drop
        return Parser(self.notation, mk_store(store_spec), **kw)


def py_parse(parser, text: str):
    """→ (canonical answer line, exception or None, sentence or None)"""
    try:
        s = parser(text)
    except BaseException as e:  # noqa
        if isinstance(e, (KeyboardInterrupt, SystemExit)):
            raise
        return f'{exc_kind(e)} store={enc_store(parser.predicates)}', e, None
    return f'ok {enc_sent(s)} store={enc_store(parser.predicates)}', None, s


# ---------------------------------------------------------------------------
# independent well-formedness walk (C13 oracle)
# ---------------------------------------------------------------------------

def wf_defects(s, bound=()) -> list[str]:
    """Independent of `Sentence.variables` etc.: walks constructor fields only."""
    t = type(s)
    if t is Atomic:
        return []
    if t is Predicated:
        out = []
        if len(s.params) != s.predicate.arity:
            out.append(f'arity {s.predicate.arity} applied to {len(s.params)} parameters')
        for p in s.params:
            if type(p) is Variable and (p.index, p.subscript) not in bound:
                out.append(f'free variable {(p.index, p.subscript)}')
        return out
    if t is Quantified:
        v = (s.variable.index, s.variable.subscript)
        out = []
        if v in bound:
            out.append(f'variable {v} re-bound')
        if not occurs(v, s.sentence):
            out.append(f'vacuous quantifier over {v}')
        return out + wf_defects(s.sentence, bound + (v,))
    if t is Operated:
        out = []
        if len(s.operands) != s.operator.arity:
            out.append('operator arity')
        for x in s.operands:
            out += wf_defects(x, bound)
        return out
    return [f'not a sentence: {t}']


def occurs(v, s) -> bool:
    t = type(s)
    if t is Predicated:
        return any(type(p) is Variable and (p.index, p.subscript) == v for p in s.params)
    if t is Quantified:
        return occurs(v, s.sentence)
    if t is Operated:
        return any(occurs(v, x) for x in s.operands)
    return False


def pred_arities(s, acc=None) -> dict:
    acc = {} if acc is None else acc
    t = type(s)
    if t is Predicated:
        acc.setdefault((s.predicate.index, s.predicate.subscript), set()).add(s.predicate.arity)
    elif t is Quantified:
        pred_arities(s.sentence, acc)
    elif t is Operated:
        for x in s.operands:
            pred_arities(x, acc)
    return acc


def in_parser_language(ss) -> bool:
    """closed, non-vacuous, no re-binding, one arity per predicate symbol (jointly over `ss`)"""
    acc = {}
    for s in ss:
        if wf_defects(s):
            return False
        pred_arities(s, acc)
    return all(len(v) == 1 for v in acc.values())


def has_subscript(s) -> bool:
    t = type(s)
    if t is Atomic:
        return s.subscript != 0
    if t is Predicated:
        return s.predicate.subscript != 0 or any(p.subscript for p in s.params)
    if t is Quantified:
        return s.variable.subscript != 0 or has_subscript(s.sentence)
    return any(has_subscript(x) for x in s.operands)


def has_neg_identity(s) -> bool:
    t = type(s)
    if t is Operated:
        if s.operator is Operator.Negation and type(s.lhs) is Predicated and s.lhs.predicate is Predicate.Identity:
            return True
        return any(has_neg_identity(x) for x in s.operands)
    if t is Quantified:
        return has_neg_identity(s.sentence)
    return False


def depth(s) -> int:
    t = type(s)
    if t is Quantified:
        return 1 + depth(s.sentence)
    if t is Operated:
        return 1 + max(depth(x) for x in s.operands)
    return 1


# ---------------------------------------------------------------------------
# sentence generators
# ---------------------------------------------------------------------------

SUBS = [0, 1, 9, 10, 12, 4300, 10 ** 20 + 7]


def small_sentences(levels: int, wide: bool) -> list:
    """Exhaustive small tier: every operator, both quantifiers, system and user predicates."""
    consts = [Constant(0, 0), Constant(3, 1)]
    x = Variable(0, 0)
    atoms = [Atomic(0, 0), Atomic(4, 10)] if wide else [Atomic(0, 0)]
    F, G = Predicate(0, 0, 1), Predicate(1, 0, 2)
    F1 = Predicate(3, 1, 1)
    base = list(atoms)
    base += [F(c) for c in consts] + [Predicate.Existence(consts[0])]
    base += [G(a, b) for a in consts for b in consts[:1]] + [Predicate.Identity(consts[0], consts[1])]
    if wide:
        base += [F1(consts[1]), Predicate.Identity(consts[1], consts[1])]
    openb = [F(x), G(x, consts[0]), Predicate.Identity(x, consts[1])]     # bodies with x free
    cur, allx = list(base), list(base)
    curo = list(openb)
    for _ in range(levels):
        nxt, nxto = [], []
        for o in OPS1:
            nxt += [o(s) for s in cur]
            nxto += [o(s) for s in curo[:4]]
        for q in QUANTS:
            nxt += [q(x, s) for s in curo]
        pool = cur[:6] if len(cur) > 6 else cur
        for o in OPS2:
            nxt += [o(a, b) for a in pool for b in pool[:3]]
            nxto += [o(a, b) for a in curo[:2] for b in pool[:2]]
        cur, curo = nxt, nxto
        allx += nxt
    return list(dict.fromkeys(allx))


class SentGen:
    """Seeded random sentences of the parsers' language (closed, non-vacuous, one arity per
    predicate symbol) — and, with `wild=True`, arbitrary constructible ones (open, vacuous,
    re-bound) for the writer checks."""

    def __init__(self, rng, hist=None):
        self.rng = rng
        self.hist = hist if hist is not None else {}

    def _bump(self, k):
        self.hist[k] = self.hist.get(k, 0) + 1

    def sub(self):
        r = self.rng.random()
        if r < 0.55:
            return 0
        return self.rng.choice(SUBS[1:]) if r < 0.9 else self.rng.randrange(0, 10 ** 6)

    def const(self):
        return Constant(self.rng.randrange(4), self.sub())

    def sentence(self, d: int, bound=(), arities=None, wild=False, need=None):
        """`need`: a variable that must occur (keeps quantifiers non-vacuous)."""
        rng = self.rng
        arities = {} if arities is None else arities
        if d <= 1 or (need is None and rng.random() < 0.2):
            if need is None and rng.random() < 0.35:
                self._bump('Atomic')
                return Atomic(rng.randrange(5), self.sub())
            return self.predicated(bound, arities, wild, need)
        r = rng.random()
        if r < 0.3:
            o = rng.choice(OPS1)
            self._bump(o.name)
            return o(self.sentence(d - 1, bound, arities, wild, need))
        if r < 0.7:
            o = rng.choice(OPS2)
            self._bump(o.name)
            side = rng.random() < 0.5
            a = self.sentence(d - 1, bound, arities, wild, need if side else None)
            b = self.sentence(d - 1, bound, arities, wild, None if side else need)
            return o(a, b)
        q = rng.choice(QUANTS)
        self._bump(q.name)
        if wild and rng.random() < 0.3:
            v = Variable(rng.randrange(4), self.sub())            # maybe vacuous / re-bound
            return q(v, self.sentence(d - 1, bound, arities, wild, need))
        for _ in range(20):
            v = Variable(rng.randrange(4), self.sub())
            if v not in bound:
                break
        else:
            return self.predicated(bound, arities, wild, need)
        if need is None:
            return q(v, self.sentence(d - 1, bound + (v,), arities, wild, v))
        # both `need` and `v` must occur below: put them on the two sides of a binary operator
        o = rng.choice(OPS2)
        self._bump(o.name)
        return q(v, o(self.sentence(d - 1, bound + (v,), arities, wild, v),
                      self.sentence(d - 1, bound + (v,), arities, wild, need)))

    def binding(self, d: int):
        """Binding stress: a tiny pool of variables (x, y), quantifiers chosen regardless of what is
        bound, so that vacuous, re-bound, free and sibling-reused variables all occur often — e.g.
        `K VxFx VxFa` (second quantifier vacuous although x was used under the first)."""
        rng = self.rng
        pool = [Variable(0, 0), Variable(1, 0)]
        if d <= 1 or rng.random() < 0.15:
            if rng.random() < 0.2:
                self._bump('Atomic')
                return Atomic(rng.randrange(2), 0)
            ar = rng.choice([1, 1, 2])
            pred = Predicate(ar - 1, 0, ar)
            self._bump(f'user/{ar}')
            return pred(*(rng.choice(pool + [Constant(0, 0), Constant(0, 0)]) for _ in range(ar)))
        r = rng.random()
        if r < 0.15:
            o = rng.choice(OPS1)
            self._bump(o.name)
            return o(self.binding(d - 1))
        if r < 0.55:
            o = rng.choice(OPS2)
            self._bump(o.name)
            return o(self.binding(d - 1), self.binding(d - 1))
        q = rng.choice(QUANTS)
        self._bump(q.name)
        return q(rng.choice(pool), self.binding(d - 1))

    def predicated(self, bound, arities, wild, need):
        rng = self.rng
        r = rng.random()
        if r < 0.15:
            pred = Predicate.Identity
        elif r < 0.25:
            pred = Predicate.Existence
        else:
            key = (rng.randrange(4), rng.choice([0, 0, 0, 1, 10]))
            if key not in arities:
                arities[key] = rng.choice([1, 1, 2, 2, 3, 4])
            pred = Predicate(*key, arities[key])
        self._bump('sys' if pred.is_system else f'user/{pred.arity}')
        params = []
        for _ in range(pred.arity):
            if bound and rng.random() < 0.5:
                params.append(rng.choice(bound))
            elif wild and rng.random() < 0.1:
                params.append(Variable(rng.randrange(4), self.sub()))    # possibly free
            else:
                params.append(self.const())
        if need is not None and need not in params:
            params[rng.randrange(len(params))] = need
        return pred(tuple(params))


# ---------------------------------------------------------------------------
# string generators
# ---------------------------------------------------------------------------

FOREIGN = ['é', ':', '\x00']


def alphabet(notation: str) -> list[str]:
    return list(ParseTable.fetch(Notation[notation]).keys())


def reduced_alphabet(notation: str) -> list[str]:
    """≤ 2 characters per item class (operators: per arity), in table order, + parens / foreign."""
    t = ParseTable.fetch(Notation[notation])
    seen, out = {}, []
    for ch, (typ, val) in t.items():
        k = (typ, val.arity) if typ is Operator else typ
        if seen.get(k, 0) < 2:
            seen[k] = seen.get(k, 0) + 1
            out.append(ch)
    return out + [c for c in ('(', ')') if c not in t] + FOREIGN[:2]


def short_strings(alpha: list[str], n: int):
    for k in range(n + 1):
        for tup in itertools.product(alpha, repeat=k):
            yield ''.join(tup)


def mutate(rng, text: str, alpha: list[str]) -> str:
    """grammar mutation of a rendering: drop / insert / swap / duplicate a character, unbalance
    parens, insert blanks, foreign characters, digits."""
    if not text:
        return rng.choice(alpha)
    k = rng.randrange(9)
    i = rng.randrange(len(text))
    if k == 0:
        return text[:i] + text[i + 1:]
    if k == 1:
        return text[:i] + rng.choice(alpha) + text[i:]
    if k == 2:
        j = rng.randrange(len(text))
        l = list(text)
        l[i], l[j] = l[j], l[i]
        return ''.join(l)
    if k == 3:
        return text[:i] + text[i] + text[i:]
    if k == 4:
        return text[:i] + rng.choice('()') + text[i:]
    if k == 5:
        return text[:i] + ' ' * rng.randrange(1, 4) + text[i:]
    if k == 6:
        return text[:i] + rng.choice(FOREIGN) + text[i:]
    if k == 7:
        return text[:i] + str(rng.randrange(0, 1000)) + text[i:]
    return text[:i]


def long_runs(notation: str, thorough: bool) -> list[str]:
    lim = INT_LIMIT or 4300
    neg, conj, atom, quant, pred = ('N', 'K', 'a', 'V', 'F') if notation == 'polish' else ('~', '&', 'A', 'L', 'F')
    cst = 'm' if notation == 'polish' else 'a'
    out = [atom + '1' * n for n in (lim - 1, lim, lim + 1, lim + 700)]
    out += [atom + '0' * (lim + 1), atom + '0' * (lim + 1) + '1', atom + '1 ' * (lim + 1), atom + '1' * (lim + 1) + ' ',
            atom + '1' * (lim + 1) + 'x', pred + cst + '7' * (lim + 1), pred + '7' * (lim + 1) + cst,
            quant + 'x' + '3' * (lim + 1) + pred + 'x', neg + atom + '9' * (lim + 1)]
    ks = range(100, 260) if not thorough else range(60, 420)
    out += [neg * k for k in ks]
    out += [neg * k + atom for k in ks if k % 4 == 0]
    if notation == 'polish':
        out += [conj * k for k in range(100, 240, 7)]
        out += [conj * k + atom * (k + 1) for k in range(100, 240, 7)]
        out += [(quant + 'x') * k for k in range(100, 200, 9)]
    else:
        out += ['(' * k for k in (1, 50, 500, 3000)]
        out += ['(' * k + 'A' + ' & A)' * k for k in range(90, 200, 5)]
        out += ['(' * k + 'A' + ' & A)' * (k - 1) for k in range(90, 200, 10)]
        out += [')' * 500, '(A & ' * 300]
    return out


# ---------------------------------------------------------------------------
# writers
# ---------------------------------------------------------------------------

def writer_configs():
    """Every (notation, format, dialect) with a string table × writer options."""
    out = []
    for (fmt, notn, dialect) in StringTable._instances:
        if notn is Notation.polish:
            out.append((notn.name, fmt, dialect, {}))
        else:
            for dp in (True, False):
                for ii in (True, False):
                    for mi in (0, 3):
                        out.append((notn.name, fmt, dialect, dict(drop_parens=dp, identity_infix=ii, max_infix=mi)))
    out.sort(key=lambda t: (t[0], t[1], t[2], sorted(t[3].items())))
    return out


def writer_token(cfg) -> str:
    notn, fmt, dialect, opts = cfg
    t = f'{notn}/{fmt}/{dialect}'
    if notn == 'standard':
        t += f'/dp{int(opts["drop_parens"])}.ii{int(opts["identity_infix"])}.mi{opts["max_infix"]}'
    return t


def mk_writer(cfg):
    notn, fmt, dialect, opts = cfg
    return LexWriter(notn, fmt, dialect, **opts)


def parser_reads(cfg) -> bool:
    """Whether the notation's parser is documented to read the writer's dialect: the ASCII
    dialect always (that is the property); any other dialect whose operator/quantifier symbols
    happen to be the parse table's (data-driven, only ever ADDS cases)."""
    notn, fmt, dialect, opts = cfg
    if dialect == 'ascii':
        return True
    st = StringTable.fetch(fmt, Notation[notn], dialect)
    pt = ParseTable.fetch(Notation[notn])
    try:
        return all(pt[st[o]] == (Operator, o) for o in Operator) and all(pt[st[q]] == (Quantifier, q) for q in Quantifier)
    except (KeyError, TypeError):
        return False


def drive_chunks(lines: list[str], chunk=20000) -> list[str]:
    out = []
    for i in range(0, len(lines), chunk):
        out += drive(lines[i:i + chunk])
    return out
