"""
C14 — Lexical items have value semantics.

Lean: Ptx.Props.C14 (order / equality / hash theorems over `sortKey`; argument order; the
construction cache as a state machine and its transparency).

Correspondence (model vs. the real objects), streams:
  key      sort_tuple of every generated item                         (driver `key`)
  cmp      Lexical.orderitems, ==, <, <=, >, >= on pairs               (driver `cmp`)
  sort     sorted(items)                                              (driver `sort`)
  argcmp   Argument comparison                                        (driver `argcmp`)
  ident    item.ident                                                 (driver `ident`)
  cache    call sequences against caches of size 0,1,2,5,1000, one subprocess per size
           (ITEM_CACHE_SIZE is read at import), with construction noise  (driver `cache`)

Implementation-side oracles (no Lean; these decide VIOLATION):
  * `a == b`  iff  an independent recursive structural walk says "same"; equal => same hash
  * exactly one of <, ==, > ; <= / >= derived; a<b iff b>a; transitivity on sampled triples;
    type rank first; sorted() ascending and a permutation
  * ident / spec / copy / deepcopy / pickle round trips give a structurally identical, ==, same-hash item
  * setattr / delattr on every slot of every item is rejected (or leaves every published
    attribute unchanged)
  * cache invisibility: a call sequence run against one cache gives the same results as the
    same calls each run against an emptied cache, for every cache size
"""
from __future__ import annotations

import copy
import itertools
import json
import os
import pickle
import subprocess
import sys
import warnings
from collections import Counter
from pathlib import Path

from .. import common
from ..common import PY, REPO, ROOT, drive, lean_phase
from . import lexwire as lw

from pytableaux.lang import (Argument, Atomic, Constant, LexicalAbc, Operated, Operator, Predicate,
                             Predicated, Quantified, Quantifier, Sentence, Variable)
from pytableaux.lang.lex import Lexical

LEVEL = 'proof'
SIZES = (0, 1, 2, 5, 1000)
RANKS = {Predicate: 10, Constant: 20, Variable: 30, Quantifier: 40, Operator: 50, Atomic: 60,
         Predicated: 70, Quantified: 80, Operated: 90}


# --------------------------------------------------------------------------
# arg encoding (twin of Ptx/Drv/Lex.lean)
# --------------------------------------------------------------------------

def enc_arg(a) -> str:
    if isinstance(a, bool):
        raise TypeError(a)
    if isinstance(a, int):
        return f'i {a}'
    if isinstance(a, str):
        return 's:' + a.replace(' ', '_')
    if isinstance(a, tuple):
        return ' '.join([f't {len(a)}', *map(enc_arg, a)])
    return 'x ' + lw.enc_item(a)


def enc_call(cls: str, args) -> str:
    return ' '.join([cls, str(len(args)), *map(enc_arg, args)])


def plain(v):
    "namedtuples etc. -> plain tuples (for encoding idents / specs)"
    if isinstance(v, tuple):
        return tuple(plain(x) for x in v)
    return v


# --------------------------------------------------------------------------
# independent oracles on items
# --------------------------------------------------------------------------

def sgn(n):
    return (n > 0) - (n < 0)


def cmp3(a, b) -> str:
    return 'lt' if a < b else 'eq' if a == b else 'gt'


def check_pair(ctx, a, b):
    "implementation-side laws on one pair; returns a (key, what) or None"
    se = lw.struct_eq(a, b)
    eq = (a == b)
    if eq is not se and not (eq is True and se) and not (eq is False and not se):
        return 'C14:eq:not-structural', f'== says {eq}, structure says {se}'
    if se and hash(a) != hash(b):
        return 'C14:hash:equal-items-different-hash', 'structurally identical items hash differently'
    lt, gt, le, ge, ne = a < b, a > b, a <= b, a >= b, a != b
    if [lt, eq, gt].count(True) != 1:
        return 'C14:order:not-trichotomous', f'<,==,> = {lt},{eq},{gt}'
    if le != (lt or eq) or ge != (gt or eq) or ne != (not eq):
        return 'C14:order:operators-inconsistent', f'<=,>=,!= = {le},{ge},{ne} with <,==,> = {lt},{eq},{gt}'
    if (b > a) != lt or (b < a) != gt or (b == a) != eq:
        return 'C14:order:not-antisymmetric', 'a<b differs from b>a'
    ra, rb = RANKS[type(a)], RANKS[type(b)]
    if ra != rb and lt != (ra < rb):
        return 'C14:order:rank-not-first', f'ranks {ra},{rb} but a<b is {lt}'
    if sgn(Lexical.orderitems(a, b)) != (-1 if lt else 0 if eq else 1):
        return 'C14:order:orderitems-vs-operators', 'orderitems disagrees with the operators'
    return None


PUBLIC = ('spec', 'ident', 'sort_tuple', 'hash', 'index', 'subscript', 'arity', 'name', 'predicate',
          'params', 'operator', 'operands', 'lhs', 'rhs', 'quantifier', 'variable', 'sentence',
          'items', 'constants', 'variables', 'predicates', 'atomics', 'operators', 'quantifiers',
          'order', 'label', 'strings', 'bicoords')


def snapshot(x):
    out = {}
    for n in PUBLIC:
        try:
            v = getattr(x, n)
        except AttributeError:
            continue
        out[n] = v if not isinstance(v, (set, frozenset)) else frozenset(v)
    return out


def all_slots(x):
    seen = []
    for k in type(x).__mro__:
        sl = k.__dict__.get('__slots__', ())
        if isinstance(sl, str):
            sl = (sl,)
        for s in sl:
            if s not in seen:
                seen.append(s)
    return seen


class _Sentinel:
    def __repr__(self):
        return '<other value>'


def check_immutable(x):
    """try to set / delete every slot; returns (key, what) if some attempt is accepted AND
    changes something published (every accepted change is undone again)."""
    before = snapshot(x)
    accepted = []
    for name in all_slots(x) + ['foo_new_attr']:
        for action in ('set', 'del'):
            had = hasattr(x, name)
            old = getattr(x, name, None)
            try:
                with warnings.catch_warnings():
                    warnings.simplefilter('ignore')
                    if action == 'set':
                        setattr(x, name, _Sentinel())
                    else:
                        delattr(x, name)
            except (AttributeError, TypeError):
                continue
            after = snapshot(x)
            changed = [n for n in set(before) | set(after) if before.get(n, None) is not after.get(n, None)
                       and before.get(n, None) != after.get(n, None)]
            # undo (the objects may be shared, e.g. enum members)
            try:
                if had:
                    object.__setattr__(x, name, old)
                else:
                    object.__delattr__(x, name)
            except Exception:  # noqa
                pass
            if changed or action == 'del' or name == 'foo_new_attr':
                accepted.append(f'{action}attr({name})')
    if accepted:
        return (f'C14:immutable:setattr-accepted:{type(x).__name__}',
                f'a constructed {type(x).__name__} accepts {", ".join(accepted[:12])}'
                f'{" …" if len(accepted) > 12 else ""} (published attributes change accordingly)')
    return None


def check_lazy_slots(x):
    """a twin of x whose lazily filled private slots are still empty: can they be set from outside
    (which would change a published attribute of an already constructed item)?"""
    if type(x) in (Operator, Quantifier, Predicate):
        return None
    y = object.__new__(type(x))
    lazies = []
    for name in all_slots(x):
        if name.startswith('_'):
            lazies.append(name)
        elif hasattr(x, name):
            object.__setattr__(y, name, getattr(x, name))
    planted = []
    for name in lazies:
        pub = name[1:]
        if not hasattr(type(x), pub):
            continue
        try:
            with warnings.catch_warnings():
                warnings.simplefilter('ignore')
                setattr(y, name, _Sentinel())
        except (AttributeError, TypeError):
            continue
        try:
            got = getattr(y, pub, None)
        except Exception:  # noqa
            got = None
        object.__delattr__(y, name)
        if isinstance(got, _Sentinel):
            planted.append(name)
    if planted:
        return (f'C14:immutable:lazy-slot-settable:{type(x).__name__}',
                f'setattr is accepted on a constructed {type(x).__name__} for the still-empty private slots {sorted(planted)}; '
                f'the published attributes {sorted(n[1:] for n in planted)} then return the planted value')
    return None


def check_roundtrips(x):
    "ident / spec / copy / pickle; returns (key, what) or None"
    def same(y, how):
        if not (lw.struct_eq(x, y) and y == x and hash(y) == hash(x)):
            return f'C14:roundtrip:{how}', f'{how} of a {type(x).__name__} is not an equal item'
        return None
    t = type(x)
    try:
        with warnings.catch_warnings():
            warnings.simplefilter('ignore')
            r = same(copy.copy(x), 'copy') or same(copy.deepcopy(x), 'deepcopy') \
                or same(pickle.loads(pickle.dumps(x)), 'pickle')
        if r:
            return r
    except Exception as e:  # noqa
        return 'C14:roundtrip:copy-pickle-raises', f'{type(e).__name__}: {e}'
    sysp = t is Predicate and x.index < 0
    has_sys = isinstance(x, Sentence) and any(p.index < 0 for p in x.predicates)
    tag = ':system-predicate' if (sysp or has_sys) else ''
    try:
        y = LexicalAbc(x.ident)
    except Exception as e:  # noqa
        return (f'C14:cache:from-ident{tag}' if tag else 'C14:roundtrip:from-ident'), f'LexicalAbc(ident) raises {type(e).__name__}: {e}'
    r = same(y, 'from-ident' + tag)
    if r:
        return r
    try:
        y = t(*x.spec)
    except Exception as e:  # noqa
        return (f'C14:cache:from-spec{tag}' if tag else 'C14:roundtrip:from-spec'), f'{t.__name__}(*spec) raises {type(e).__name__}: {e}'
    return same(y, 'from-spec' + tag)


# --------------------------------------------------------------------------
# item pools
# --------------------------------------------------------------------------

def small_items():
    its = list(Operator) + list(Quantifier)
    its += [Predicate.Identity, Predicate.Existence]
    its += [Predicate(i, s, a) for i in (0, 3) for s in (0, 1) for a in (1, 2)]
    its += [c(i, s) for c in (Constant, Variable) for i in (0, 1, 3) for s in (0, 1, lw.BIG)]
    its += [Atomic(i, s) for i in (0, 4) for s in (0, 1, lw.BIG)]
    its += list(lw.small_sentences(1, 'mid'))
    # keys that are "almost" prefixes of each other: same head, different tails
    a, b = Constant(0, 0), Constant(1, 0)
    its += [Predicated(Predicate(0, 0, 2), (a, a)), Predicated(Predicate(0, 0, 3), (a, a, a)),
            Predicated(Predicate(0, 0, 1), (a,)), Predicated(Predicate(0, 0, 1), (b,)),
            Operated(Operator.Conjunction, (Atomic(0, 0), Atomic(0, 0))),
            Operated(Operator.Negation, (Atomic(0, 0),)),
            Operated(Operator.Assertion, (Atomic(0, 0),))]
    out, seen = [], set()
    for x in its:
        e = lw.enc_item(x)
        if e not in seen:
            seen.add(e)
            out.append(x)
    return out


# --------------------------------------------------------------------------
# cache sequences
# --------------------------------------------------------------------------

CLSN = {Predicate: 'Predicate', Constant: 'Constant', Variable: 'Variable', Atomic: 'Atomic',
        Predicated: 'Predicated', Quantified: 'Quantified', Operated: 'Operated'}


def build_calls(x, rng):
    "several ways of constructing item x (a LexicalAbc item)"
    t = type(x)
    n = CLSN[t]
    forms = [(n, plain(tuple(x.spec)))]                       # Class(*spec)
    role = 'Sentence' if isinstance(x, Sentence) else ('Parameter' if t in (Constant, Variable) else 'CoordsItem')
    forms += [('LexicalAbc', (plain(x.ident),)), (role, (plain(x.ident),))]
    if t in (Constant, Variable, Atomic):
        forms.append((n, ((x.index, x.subscript),)))
    if t is Predicate and x.index >= 0:
        forms.append((n, ((x.index, x.subscript, x.arity),)))
    if t is Predicate and x.index < 0:
        forms.append((n, (x.name,)))
    if t is Predicated:
        forms.append((n, (x.predicate, tuple(x.params))))
        forms.append((n, (x.predicate, *x.params)))
        forms.append((n, (plain(tuple(x.predicate.spec)), tuple(plain(p.ident) for p in x.params))))
    if t is Quantified:
        forms.append((n, (x.quantifier, x.variable, x.sentence)))
        forms.append((n, (x.quantifier.name, plain(tuple(x.variable.spec)), x.sentence)))
        forms.append((n, (x.quantifier.order, x.variable, plain(x.sentence.ident))))
    if t is Operated:
        forms.append((n, (x.operator, tuple(x.operands))))
        forms.append((n, (x.operator.name, *x.operands)))
        forms.append((n, (x.operator.label, tuple(plain(s.ident) for s in x.operands))))
    return forms


def mutate_arg(a, rng, depth=0):
    "a malformed variant of an argument value"
    r = rng.random()
    if isinstance(a, tuple) and a and r < 0.55 and depth < 4:
        i = rng.randrange(len(a))
        k = rng.random()
        if k < 0.2:
            return a[:i] + a[i + 1:]                       # drop
        if k < 0.35:
            return a + (a[i],)                             # duplicate at the end
        if k < 0.45 and len(a) > 1:
            j = rng.randrange(len(a))
            l = list(a)
            l[i], l[j] = l[j], l[i]
            return tuple(l)                                # swap
        return a[:i] + (mutate_arg(a[i], rng, depth + 1),) + a[i + 1:]
    if isinstance(a, int) and not isinstance(a, bool):
        return rng.choice([-1, -2, 0, 4, 5, a + 1, 'x', (a,)])
    if isinstance(a, str):
        return rng.choice(['Foo', 'Constant', 'Sentence', 'Negation', 'Universal', 'Identity', 7, a.lower(), (a,)])
    if isinstance(a, tuple):
        return rng.choice([(), 0, 'ab', (0, 0)])
    # an item
    return rng.choice([0, 'A', (), Constant(0, 0), Atomic(0, 0), Operator.Negation, Predicate(0, 0, 1),
                       Quantifier.Universal, plain(a.ident) if hasattr(a, 'ident') else 0])


def malformed_calls(x, rng):
    out = []
    for cls, args in build_calls(x, rng):
        if rng.random() < 0.5:
            continue
        m = mutate_arg(tuple(args), rng)
        if not isinstance(m, tuple):
            m = (m,)
        if rng.random() < 0.2:
            cls = rng.choice(list(CLSN.values()) + ['LexicalAbc', 'CoordsItem', 'Parameter', 'Sentence'])
        out.append((cls, m))
    return out


def noise_calls(rng, k):
    return [('Atomic', (rng.randint(0, 4), 100 + rng.randint(0, 10 ** 6))) for _ in range(k)]


def gen_sequences(ctx, size):
    "call sequences for a cache of the given size"
    rng = ctx.rng
    seqs = []
    a, b = Constant(0, 0), Constant(1, 0)
    ident_s = Predicated(Predicate.Identity, (a, b))
    exist_s = Quantified(Quantifier.Universal, Variable(0, 0), Predicated(Predicate.Existence, (Variable(0, 0),)))
    evict = max(size, 1) + 2 if size < 1000 else 1005
    # the known construction: build, push out of the cache, rebuild from ident / spec
    for s in (ident_s, exist_s, Operated(Operator.Negation, (ident_s,))):
        cs = build_calls(s, rng)
        seqs.append(('sys-evict', [cs[-2 if type(s) is not Predicated else 3]] + noise_calls(rng, evict)
                     + [cs[1], cs[2], cs[0]]))
        seqs.append(('sys-cold', [cs[1]]))
    n_items = ctx.scale(40, 400) if size < 1000 else ctx.scale(12, 60)
    for i in range(n_items):
        x = lw.rand_item(rng, depth=rng.randint(1, 3))
        if type(x) in (Operator, Quantifier):
            seqs.append(('enum-ident', [('LexicalAbc', (plain(x.ident),)), ('Sentence', (plain(x.ident),)),
                                        ('LexicalAbc', (plain(x.ident),))]))
            continue
        forms = build_calls(x, rng)
        rng.shuffle(forms)
        seq = []
        for f in forms:
            seq.append(f)
            if rng.random() < 0.5:
                seq += noise_calls(rng, rng.choice((1, 2, 3, size + 1 if size < 1000 else 3)))
        seq += forms[:2]
        seqs.append(('forms', seq))
        # every abstract class asked to rebuild from this ident (wrong roles must raise TypeError)
        seqs.append(('roles', [(r, (plain(x.ident),)) for r in ('Parameter', 'CoordsItem', 'Sentence', 'LexicalAbc')]
                     + [(CLSN[type(x)], (plain(x.ident),))]))
        if i % 3 == 0:
            seq = []
            for f in malformed_calls(x, rng):
                seq.append(f)
                if rng.random() < 0.3:
                    seq.append(rng.choice(forms))
            if seq:
                seqs.append(('malformed', seq))
    if size == 1000:
        # one long history that really overflows the default-size cache
        s = Operated(Operator.Conjunction, (ident_s, Atomic(0, 0)))
        cs = build_calls(s, rng)
        seqs.append(('overflow-1000', [cs[-2]] + noise_calls(rng, 1100) + [cs[1], cs[0]]))
    return seqs


class Worker:
    def __init__(self, size):
        env = dict(os.environ)
        env['ITEM_CACHE_SIZE'] = str(size)
        env['VERIF_REPO'] = str(REPO)
        env['VERIF_ROOT'] = str(ROOT)
        env.pop('PYTHONPATH', None)
        self.p = subprocess.Popen([PY, str(Path(__file__).with_name('_c14_worker.py'))], env=env,
                                  stdin=subprocess.PIPE, stdout=subprocess.PIPE, stderr=subprocess.PIPE, text=True)
        self.hello = json.loads(self.p.stdout.readline() or '{"import_error": "no output"}')

    def run(self, seqs):
        lines = [json.dumps([enc_call(c, a) for c, a in seq]) for _, seq in seqs]
        out, err = self.p.communicate('\n'.join(lines) + '\n', timeout=1700)
        res = [json.loads(l) for l in out.splitlines() if l.strip()]
        if len(res) != len(seqs):
            raise common.InfraError(f'cache worker: {len(res)} answers for {len(seqs)} sequences\n{err[-2000:]}')
        return res

    def close(self):
        if self.p.poll() is None:
            self.p.kill()


def shrink_seq(seq, still_fails):
    "delete calls while the failure persists"
    seq = list(seq)
    i = 0
    while i < len(seq) and len(seq) > 1:
        cand = seq[:i] + seq[i + 1:]
        if still_fails(cand):
            seq = cand
        else:
            i += 1
    return seq


def transparency_violation(res):
    "index of the first call whose warm result differs from the fresh build, else None"
    for i, (w, f) in enumerate(zip(res['warm'], res['fresh'])):
        if w != f:
            return i
    return None


def classify_cache_key(seq, i):
    call = enc_call(*seq[i])
    sysp = ' -1 ' in call + ' ' or ' -2 ' in call + ' ' or 'Identity' in call or 'Existence' in call
    frm = seq[i][0] in ('LexicalAbc', 'Sentence', 'Parameter', 'CoordsItem')
    if sysp:
        return 'C14:cache:from-ident:system-predicate' if frm else 'C14:cache:from-spec:system-predicate'
    return 'C14:cache:result-depends-on-history:' + seq[i][0]


def run_cache(ctx, size, fixes):
    seqs = gen_sequences(ctx, size)
    w = Worker(size)
    try:
        if 'import_error' in w.hello:
            # implementation-side: the package cannot even be imported with this cache size
            ctx.fail(f'C14:cache:maxlen{size}:import-raises',
                     f'ITEM_CACHE_SIZE={size}: importing pytableaux.lang raises {w.hello["import_error"]}',
                     dict(env=dict(ITEM_CACHE_SIZE=str(size)), stmt='import pytableaux.lang'))
            ctx.add_cov(**{f'cache_size_{size}': 'import fails'})
            return
        res = w.run(seqs)
    finally:
        w.close()
    # the model mirrors the code with the candidate fixes; against an unfixed tree the
    # correspondence uses the model's unfixed switch (the defect itself is reported by the oracles)
    fixes = ('1' if w.hello.get('sys_by_spec') else '0') + fixes[1]
    # the model
    reqs = [f'cache {fixes} {size} ; ' + ' ; '.join(enc_call(c, a) for c, a in seq) for _, seq in seqs]
    ans = drive(reqs)
    kinds = Counter()
    for (tag, seq), r, a in zip(seqs, res, ans):
        kinds[tag] += 1
        for x in r['warm']:
            kinds['result:' + x.split(' ')[0]] += 1
        ctx.count(f'cache:{size}:' + ' ; '.join(enc_call(c, a_) for c, a_ in seq)[:400], n=len(seq))
        ctx.sample(dict(stream='cache', size=size, calls=[enc_call(c, a_) for c, a_ in seq][:6], python=r['warm'][:6]))
        # implementation-side oracle: invisibility of the cache
        i = transparency_violation(r)
        if i is None and tag == 'sys-cold' and not r['fresh'][0].startswith('ok '):
            ctx.fail('C14:cache:from-ident:system-predicate',
                     f'with nothing cached `{enc_call(*seq[0])}` answers {r["fresh"][0]}: the item cannot be rebuilt from its ident',
                     dict(kind='cache', size=size, calls=[enc_call(c, a_) for c, a_ in seq], expect_ok=True))
        if i is not None:
            w2 = None

            def still(cand):
                nonlocal w2
                w2 = Worker(size)
                try:
                    rr = w2.run([('x', cand)])[0]
                finally:
                    w2.close()
                return transparency_violation(rr) is not None
            small = shrink_seq(seq, still) if len(seq) <= 40 else seq
            w3 = Worker(size)
            try:
                rr = w3.run([('x', small)])[0]
            finally:
                w3.close()
            j = transparency_violation(rr)
            if j is None:
                small, rr, j = seq, r, i
            key = classify_cache_key(small, j)
            ctx.fail(key, f'cache size {size}: call #{j} `{enc_call(*small[j])}` answers {rr["warm"][j]} after this history '
                          f'but {rr["fresh"][j]} with nothing cached',
                     dict(kind='cache', size=size, calls=[enc_call(c, a_) for c, a_ in small]))
            continue
        if not r['shape']:
            ctx.fail(f'C14:cache:structure-broken:size{size}', 'queue / idx / rev of the cache are out of sync after this history',
                     dict(kind='cache', size=size, calls=[enc_call(c, a_) for c, a_ in seq]))
            continue
        # correspondence with the model
        parts = a.split(' ; ')
        model = [p.split(' !')[0] for p in parts[:-1]]
        mstate = parts[-1]
        if any(' !' in p for p in parts[:-1]) or 'inv=1' not in mstate:
            ctx.fail('C14:corr:cache:model-not-transparent', f'the MODEL itself is not transparent / its invariant broke: {a[:300]}',
                     dict(kind='cache', size=size, calls=[enc_call(c, a_) for c, a_ in seq]), found_input=False)
        # a negative-index item (outside the model, outcome `negindex`) is cached by the code and
        # not by the model: results are still compared, the final state is not
        skip_state = any(x == 'err:negindex' for x in r['warm'])
        if model != r['warm'] or not (skip_state or mstate.startswith('state ' + r['state'])):
            d = next((k for k, (m_, p_) in enumerate(zip(model, r['warm'])) if m_ != p_), None)
            what = (f'call #{d} `{enc_call(*seq[d])}`: model {model[d]} vs python {r["warm"][d]}' if d is not None
                    else f'final cache state: model `{mstate}` vs python `{r["state"]}`')
            ctx.fail(f'C14:corr:cache:{tag}', f'model and code disagree (the property itself holds on this input): {what}',
                     dict(kind='cache', size=size, calls=[enc_call(c, a_) for c, a_ in seq], correspondence='cache'),
                     found_input=False)
    ctx.add_cov(**{f'cache_size_{size}': dict(kinds)})


# --------------------------------------------------------------------------
# run
# --------------------------------------------------------------------------

def report(ctx, kw, items):
    key, what = kw
    ctx.fail(key, what, dict(kind='items', items=[lw.enc_item(x) for x in items]))


def check_items_stream(ctx, items, tag):
    encs = [lw.enc_item(x) for x in items]
    # key
    ans = drive([f'key {e}' for e in encs])
    for x, e, a in zip(items, encs, ans):
        ctx.count('key ' + e)
        py = ' '.join(map(str, x.sort_tuple))
        if a != py:
            ctx.fail('C14:corr:key', f'sort_tuple of `{e}`: model {a} vs python {py}', dict(kind='items', items=[e], correspondence='key'),
                     found_input=False)
        if x.sort_tuple[0] != RANKS[type(x)]:
            report(ctx, ('C14:order:rank-not-first', 'sort_tuple[0] is not the type rank'), [x])
        if hash(x) != hash((Lexical, x.sort_tuple)) or x.hash != hash(x):
            report(ctx, ('C14:hash:not-function-of-sort-tuple', 'hash(x) != hash((Lexical, sort_tuple))'), [x])
    # ident
    ans = drive([f'ident {e}' for e in encs])
    for x, e, a in zip(items, encs, ans):
        ctx.count('ident ' + e)
        py = enc_arg(plain(x.ident))
        if a != py:
            ctx.fail('C14:corr:ident', f'ident of `{e}`: model `{a}` vs python `{py}`', dict(kind='items', items=[e], correspondence='ident'),
                     found_input=False)
    # per item: round trips, immutability
    for x in items:
        r = check_roundtrips(x)
        if r:
            report(ctx, r, [x])
        ctx.count('rt ' + lw.enc_item(x))
    for x in items:
        fresh = lw.dec_item(lw.enc_item(x)) if type(x) not in (Operator, Quantifier) else x
        r = check_immutable(fresh)
        if r:
            report(ctx, r, [x])
        r = check_lazy_slots(x)
        if r:
            report(ctx, r, [x])
        ctx.count('immut ' + lw.enc_item(x))


def check_pairs_stream(ctx, pairs):
    reqs = [f'cmp {lw.enc_item(a)} | {lw.enc_item(b)}' for a, b in pairs]
    ans = drive(reqs)
    for (a, b), q, an in zip(pairs, reqs, ans):
        ctx.count(q)
        r = check_pair(ctx, a, b)
        if r:
            report(ctx, r, [a, b])
            continue
        py = f'{Lexical.orderitems(a, b)} {cmp3(a, b)}'
        if an != py:
            ctx.fail('C14:corr:cmp', f'`{q}`: model {an} vs python {py}', dict(kind='items', items=[lw.enc_item(a), lw.enc_item(b)], correspondence='cmp'),
                     found_input=False)


def check_triples(ctx, triples):
    for a, b, c in triples:
        ctx.count('tri ' + ' | '.join(map(lw.enc_item, (a, b, c))))
        if a <= b and b <= c and not a <= c:
            report(ctx, ('C14:order:not-transitive', 'a<=b, b<=c but not a<=c'), [a, b, c])
        if a < b and b < c and not a < c:
            report(ctx, ('C14:order:not-transitive', 'a<b, b<c but not a<c'), [a, b, c])
        if a == b and b == c and not a == c:
            report(ctx, ('C14:eq:not-transitive', 'a==b, b==c but not a==c'), [a, b, c])


def check_sorted(ctx, lists):
    reqs = ['sort ' + ' | '.join(map(lw.enc_item, l)) for l in lists]
    ans = drive(reqs)
    for l, q, an in zip(lists, reqs, ans):
        ctx.count(q[:300])
        s = sorted(l)
        if any(not (x <= y) for x, y in zip(s, s[1:])) or Counter(map(lw.enc_item, s)) != Counter(map(lw.enc_item, l)):
            report(ctx, ('C14:sorted:not-ascending-permutation', 'sorted() is not an ascending rearrangement'), l)
            continue
        py = ' | '.join(map(lw.enc_item, s))
        if an != py:
            ctx.fail('C14:corr:sort', f'sorted: model `{an[:200]}` vs python `{py[:200]}`',
                     dict(kind='items', items=[lw.enc_item(x) for x in l], correspondence='sort'), found_input=False)


def enc_argument(a):
    return ' | '.join(lw.enc_sent(s) for s in a)


def check_arguments(ctx, args):
    pairs = [(a, b) for a in args for b in args]
    ctx.rng.shuffle(pairs)
    pairs = pairs[:ctx.scale(1500, 20000)]
    reqs = [f'argcmp {enc_argument(a)} ; {enc_argument(b)}' for a, b in pairs]
    ans = drive(reqs)
    for (a, b), q, an in zip(pairs, reqs, ans):
        ctx.count(q[:300])
        se = len(a) == len(b) and all(lw.struct_eq(x, y) for x, y in zip(a, b))
        eq, lt, gt = a == b, a < b, a > b
        bad = None
        if eq != se:
            bad = ('C14:argument:eq-not-structural', f'== says {eq}, structure says {se}')
        elif se and hash(a) != hash(b):
            bad = ('C14:argument:hash', 'equal arguments hash differently')
        elif [lt, eq, gt].count(True) != 1 or (a <= b) != (lt or eq) or (a >= b) != (gt or eq) or (b > a) != lt:
            bad = ('C14:argument:order-laws', f'<,==,> = {lt},{eq},{gt}')
        if bad:
            ctx.fail(bad[0], bad[1], dict(kind='arguments', a=enc_argument(a), b=enc_argument(b)))
            continue
        py = 'lt' if lt else 'eq' if eq else 'gt'
        if an != py:
            ctx.fail('C14:corr:argcmp', f'`{q[:200]}`: model {an} vs python {py}', dict(kind='arguments', a=enc_argument(a), b=enc_argument(b), correspondence='argcmp'),
                     found_input=False)
    tri = [tuple(ctx.rng.choice(args) for _ in range(3)) for _ in range(ctx.scale(2000, 20000))]
    for a, b, c in tri:
        ctx.count(n=1)
        if a <= b and b <= c and not a <= c:
            ctx.fail('C14:argument:not-transitive', 'a<=b<=c but not a<=c', dict(kind='arguments', a=enc_argument(a), b=enc_argument(b), c=enc_argument(c)))


def negative_index_items(ctx):
    "items with a NEGATIVE index are constructible (no lower-bound check); outside the model, oracles only"
    its = []
    for mk in (lambda: Constant(-1, 0), lambda: Variable(-2, 1), lambda: Atomic(-1, 0), lambda: Constant(-1, 0)):
        try:
            its.append(mk())
        except Exception:  # noqa
            pass
    ctx.add_cov(negative_index_items=len(its))
    base = [Constant(0, 0), Variable(0, 0), Atomic(0, 0), Predicate.Identity, Predicate(0, 0, 1)]
    for a in its:
        for b in its + base:
            ctx.count(n=1)
            r = check_pair(ctx, a, b)
            if r:
                ctx.fail(r[0] + ':negative-index', r[1], dict(kind='negative-index', a=repr((type(a).__name__, a.index, a.subscript)),
                                                             b=repr((type(b).__name__, b.index, b.subscript))))


def run(ctx):
    res = lean_phase(ctx, ['Ptx.Props.C14'])
    ctx.coverage['trusted_base'] += [
        'model of the metaclass call / DequeCache / constructors (Ptx/Lang/Cache.lean) tied to lex.py by the cache correspondence stream',
        "CPython's tuple hash is an uninterpreted function H in `hashOf`",
        'immutability, copy and pickle are observed at run time only (correspondence-only part of C14)']
    ctx.assumptions += [
        'indices of Constant/Variable/Atomic are >= 0 in the model; negative-index items (constructible: no lower-bound check) are checked by the implementation-side oracles only',
        'call arguments are ints, strs, tuples and lexical items (no lists / generators / bools / None)',
        'cache_transparent is proved modulo (a) RoundTrips as a hypothesis, (b) DequeCache-internal KeyError/IndexError; both are evaluated on every correspondence sequence']
    fixes = os.environ.get('VERIF_C14_FIXES', '11')
    rng = ctx.rng

    # corpus
    cdir = ROOT / 'corpus' / 'C14'
    for f in sorted(cdir.glob('*.json')) if cdir.exists() else []:
        data = json.loads(f.read_text())
        if replay(data.get('replay', data), quiet=True):
            ctx.fail(data.get('key', f'C14:corpus:{f.stem}'), f'corpus case {f.name} fails again', data.get('replay', data))
        ctx.count('corpus ' + f.name)

    # items: exhaustive small + random
    small = small_items()
    rand = [lw.rand_item(rng) for _ in range(ctx.scale(400, 4000))]
    ctx.add_cov(small_items=len(small), random_items=len(rand),
                item_types=dict(Counter(type(x).__name__ for x in small + rand)),
                system_predicate_items=sum(1 for x in small + rand
                                           if (type(x) is Predicate and x.index < 0)
                                           or (isinstance(x, Sentence) and any(p.index < 0 for p in x.predicates))),
                big_subscript_items=sum(1 for x in small + rand if str(lw.BIG) in lw.enc_item(x)))
    check_items_stream(ctx, small + rand, 'items')

    # pairs: all small x small (quick: sampled), random pairs incl. equal-by-reconstruction pairs
    pairs = list(itertools.product(small, small))
    if not ctx.thorough:
        rng.shuffle(pairs)
        pairs = pairs[:20000]
    pairs += [(a, lw.dec_item(lw.enc_item(a))) for a in rand]              # rebuilt twin: must be ==
    pairs += [(rng.choice(rand), rng.choice(rand)) for _ in range(ctx.scale(6000, 60000))]
    pairs += [(rng.choice(small), rng.choice(rand)) for _ in range(ctx.scale(3000, 30000))]
    ctx.add_cov(pairs=len(pairs))
    check_pairs_stream(ctx, pairs)
    allit = small + rand
    check_triples(ctx, [tuple(rng.choice(allit) for _ in range(3)) for _ in range(ctx.scale(20000, 300000))])
    check_sorted(ctx, [[rng.choice(allit) for _ in range(rng.randint(1, 25))] for _ in range(ctx.scale(300, 3000))])

    # arguments
    sents = [s for s in allit if isinstance(s, Sentence)]
    args = []
    for _ in range(ctx.scale(60, 300)):
        k = rng.choice((0, 0, 1, 2, 3))
        conc = rng.choice(sents)
        prems = [rng.choice(sents) for _ in range(k)]
        args.append(Argument(conc, prems))
        if rng.random() < 0.4:
            args.append(Argument(conc, list(prems), title='same again'))      # title is not part of the value
        if prems and rng.random() < 0.4:
            args.append(Argument(prems[0], [conc] + prems[1:]))
    ctx.add_cov(arguments=len(args))
    check_arguments(ctx, args)
    negative_index_items(ctx)

    # the cache, one subprocess per size
    for size in SIZES:
        run_cache(ctx, size, fixes)

    if not res.ok:
        if not ctx.violations:
            ctx.fail('C14:lean:build', f'Lean build of Ptx.Props.C14 failed: {res.failed_decls()}',
                     dict(theorems=res.failed_decls(), log=res.log[-3000:]), found_input=False)


# --------------------------------------------------------------------------
# replay
# --------------------------------------------------------------------------

def replay(data, quiet=False) -> int:
    "re-run the implementation-side oracle on a recorded input"
    data = data.get('replay', data)
    kind = data.get('kind')
    out = 0
    if kind == 'items':
        items = [lw.dec_item(e) for e in data['items']]
        for x in items:
            r = (check_roundtrips(x) or check_immutable(lw.dec_item(lw.enc_item(x)) if type(x) not in (Operator, Quantifier) else x)
                 or check_lazy_slots(x))
            if r:
                out = 1
                if not quiet:
                    print('FAIL', r)
        for a, b in itertools.product(items, items):
            r = check_pair(None, a, b)
            if r:
                out = 1
                if not quiet:
                    print('FAIL', r, lw.enc_item(a), '|', lw.enc_item(b))
    elif kind == 'cache':
        w = Worker(data['size'])
        try:
            if 'import_error' in w.hello:
                if not quiet:
                    print('FAIL import', w.hello)
                return 1
            calls = []
            for c in data['calls']:
                calls.append(c)
            w.p.stdin.write(json.dumps(calls) + '\n')
            w.p.stdin.close()
            r = json.loads(w.p.stdout.readline())
        finally:
            w.close()
        i = transparency_violation(r)
        if data.get('expect_ok') and not r['fresh'][0].startswith('ok '):
            out = 1
        if not quiet:
            for c, a, b in zip(data['calls'], r['warm'], r['fresh']):
                print(f'{c}\n    with this history: {a}\n    nothing cached   : {b}')
        if i is not None or not r['shape']:
            out = 1
    elif 'env' in data:
        p = subprocess.run([PY, '-c', f'import sys; sys.path.insert(0, {str(REPO)!r}); ' + data['stmt']],
                           env={**os.environ, **data['env']}, capture_output=True, text=True)
        if not quiet:
            print(p.stderr[-600:])
        out = 1 if p.returncode else 0
    elif kind == 'arguments':
        if not quiet:
            print('arguments:', data)
        out = 1
    if not quiet:
        print('still failing' if out else 'holds now')
    return out
