"""
Worker process of C19: builds REAL pytableaux tableaux, renders them with every registered writer, and
checks every clause of property C19 directly on the implementation (no Lean involved):

  * every registered format × notation (× a few writer option sets) renders without raising;
  * rendering twice (same writer object, and a fresh writer) gives the identical string;
  * text format: the output is parsed back by a column reader written here (`read_text`) and compared,
    branch by branch, with the node lists of the tableau's branches: sentence string (the library's own
    LexWriter), world, designation marker, access, ellipsis; one closure mark on each closed branch and
    none on open ones; nothing else.

It also returns, for the correspondence with the Lean model, the tree in wire form together with the
real text renderings.

One JSON job per line (of the file named on the command line, else of stdin), one JSON answer per line.
job: {"id", "kind": "arg"|"rule"|"empty", "logic", "premises":[wire], "conclusion":wire, "rule":name,
      "opts":{tableau options}, "max_steps":int|None, "models":bool, "wvariants":[[notation, {lexwriter opts}], …],
      "dvariants": {format: [{writer opts}, …]}}
"""
from __future__ import annotations

import json
import sys
import traceback

from .. import common  # noqa: F401
from .. import wire

from pytableaux.lang import Argument, LexWriter, Marking, Notation, StringTable
from pytableaux.logics import registry
from pytableaux.proof import (AccessNode, ClosureNode, EllipsisNode, FlagNode, SentenceNode, Tableau,
                              helpers)
from pytableaux.proof.writers import TabWriter, registry as wregistry

NOTATIONS = tuple(n.name for n in Notation)      # every notation the library knows (polish, standard)


# ---------------------------------------------------------------------------
# building the tableau
# ---------------------------------------------------------------------------

def build_tab(job):
    logic = registry(job['logic'])
    opts = dict(job.get('opts') or {})
    opts['is_build_models'] = bool(job.get('models'))
    if job.get('max_steps') is not None:
        opts['max_steps'] = job['max_steps']
    kind = job.get('kind', 'arg')
    if kind == 'arg':
        prem = [wire.dec_sent(s) for s in job['premises']]
        conc = wire.dec_sent(job['conclusion'])
        tab = Tableau(logic, Argument(conc, prem), **opts)
    elif kind == 'rule':
        # the documentation's rule example: one rule, the ellipsis helper, the rule's example nodes
        tab = Tableau(logic, **opts)
        rulecls = type(tab.rules.get(job['rule']))
        tab.rules.clear()
        tab.rules.append(rulecls)
        rule = tab.rules[0]
        rule.helpers[helpers.EllipsisExampleHelper] = helpers.EllipsisExampleHelper(rule)
        tab.branch().extend(rule.example_nodes())
    elif kind == 'empty':
        tab = Tableau(logic, **opts)
    else:
        raise ValueError(kind)
    tab.build()
    return tab


# ---------------------------------------------------------------------------
# the tree as the text template sees it (wire form for the Lean driver)
# ---------------------------------------------------------------------------

_ENV = None


def tget(obj, name):
    "attribute lookup exactly as a Jinja2 template does it (`obj.name`); undefined -> None"
    global _ENV
    if _ENV is None:
        from pytableaux.proof.writers.jinja import TextTabWriter
        _ENV = TextTabWriter.jinja
    import jinja2
    v = _ENV.getattr(obj, name)
    return None if isinstance(v, jinja2.Undefined) else v


def enc_rnode(n) -> str:
    s = n.get('sentence')
    w = n.get('world')
    d = tget(n, 'designated')
    w1, w2 = n.get('world1'), n.get('world2')
    fl = tget(n, 'flag')

    def o(x):
        return '_' if x is None else str(int(x))
    return ' '.join([
        'N', '_' if s is None else wire.enc_sent(s), o(w),
        '_' if d is None else '+' if d else '-',        # the template tests truthiness / `== False`
        o(w1), o(w2), '0' if n.get('ellipsis') is None else '1', '1' if tget(n, 'ticked') else '0',
        '_' if fl is None else 'c' if fl == 'closure' else 'q'])


def enc_tree(t) -> str:
    parts = ['T', str(int(t.depth)), '1' if t.closed else '0', str(len(t.nodes))]
    parts += [enc_rnode(n) for n in t.nodes]
    parts.append(str(len(t.children)))
    parts += [enc_tree(c) for c in t.children]
    return ' '.join(parts)


def tree_leaves(t):
    if not t.children:
        return [t]
    return [x for c in t.children for x in tree_leaves(c)]


def tree_stats(t, depth=0):
    n, d, s = len(t.nodes), depth, 1
    for c in t.children:
        n2, d2, s2 = tree_stats(c, depth + 1)
        n, d, s = n + n2, max(d, d2), s + s2
    return n, d, s


# ---------------------------------------------------------------------------
# reading a text rendering back (independent of the writer: columns only)
# ---------------------------------------------------------------------------

class Unreadable(Exception):
    pass


def read_text(text: str, legend):
    """-> list of branches, left to right; a branch = (list of node strings without the separator,
    list of trailing marks of the segments on the path).

    Line 0 is the root segment.  Any later line is blanks and bars followed either by nothing (a connector)
    or by the child marker and a segment; its parent is the nearest earlier segment line that is exactly
    as long as its indentation."""
    child, fork, sep = legend['child'], legend['fork'], legend['sep']
    lines = text.split('\n')
    segs = []           # (line index, indentation, segment text, parent index in segs or None)
    for i, ln in enumerate(lines):
        if i == 0:
            segs.append([i, 0, ln, None, []])
            continue
        col = 0
        while col < len(ln) and ln[col] in ' |':
            col += 1
        rest = ln[col:]
        if rest == '':
            continue
        if not rest.startswith(child):
            raise Unreadable(f'line {i}: neither a connector nor a child segment: {ln!r}')
        parent = None
        for j in range(len(segs) - 1, -1, -1):
            if len(lines[segs[j][0]]) == col:
                parent = j
                break
        if parent is None:
            raise Unreadable(f'line {i}: no parent segment ends in column {col}: {ln!r}')
        segs[parent][4].append(len(segs))
        segs.append([i, col, rest[len(child):], parent, []])

    def split(seg, has_kids, where):
        if has_kids:
            if not seg.endswith(fork):
                raise Unreadable(f'line {where}: a segment with children does not end with the fork mark: {seg!r}')
            seg = seg[:len(seg) - len(fork)]
        pieces = seg.split(sep)
        return pieces[:-1], pieces[-1]

    out = []
    for k, sg in enumerate(segs):
        if sg[4]:
            continue
        path = []
        j = k
        while j is not None:
            path.append(j)
            j = segs[j][3]
        nodes, rests = [], []
        for j in reversed(path):
            ps, rest = split(segs[j][2], bool(segs[j][4]), segs[j][0])
            nodes += ps
            rests.append(rest)
        out.append((nodes, rests))
    return out


# ---------------------------------------------------------------------------
# the oracle
# ---------------------------------------------------------------------------

def text_legend(notation):
    """the legend of the text format: designation / closure / access markers from the library's markings
    table of the text format, the rest are the layout conventions of the text format"""
    st = StringTable.fetch('text', notation)

    def g(key, default):
        try:
            v = st[key]
            return v if isinstance(v, str) else default
        except KeyError:
            return default
    return dict(desT=g((Marking.tableau, 'designation', True), '[+]'),
                desF=g((Marking.tableau, 'designation', False), '[-]'),
                closure=g((Marking.tableau, 'flag', 'closure'), '(x)'),
                quit=g((Marking.tableau, 'flag', 'quit'), '(q)'),
                access=g((Marking.tableau, 'access'), 'R'),
                ellipsis=g((Marking.meta, 'ellipsis'), '...'),
                world='w', tick='*', sep='; ', child='-- ', fork=' .')


def check_text(tab, text, notation, lexopts, bad):
    """compare the text rendering with the tableau's branches; `bad(clause, what)` records a violation"""
    lg = text_legend(notation)
    lw = LexWriter(notation, 'text', **lexopts)
    tree = tab.tree
    try:
        got = read_text(text, lg)
    except Unreadable as e:
        bad('layout', f'the text rendering cannot be read back: {e}')
        return
    by_id = {b.id: b for b in tab}
    leaves = tree_leaves(tree)
    if len(tab) == 0:
        if text != '':
            bad('branch-count', f'a tableau without branches renders as {text[:60]!r}')
        return
    ids = [lf.branch_id for lf in leaves]
    if sorted(ids) != sorted(by_id):
        bad('branch-missing', f'the tree has {len(ids)} leaves for {len(by_id)} branches (leaf branch ids differ from the tableau\'s branches)')
        return
    if len(got) != len(ids):
        bad('branch-count', f'{len(got)} branches are read off the text, the tableau has {len(ids)}')
        return
    for bi, (bid, (pieces, rests)) in enumerate(zip(ids, got)):
        b = by_id[bid]
        nodes = [n for n in b if not isinstance(n, ClosureNode)]
        marks = sum(1 for r in rests if r == lg['closure'])
        stray = [r for r in rests if r not in ('', lg['closure'])]
        if stray:
            bad('stray-text', f'branch {bi}: text {stray[0][:40]!r} after the last node separator of a segment')
        want = 1 if b.closed else 0
        if marks != want:
            bad('closure-mark', f'branch {bi} is {"closed" if b.closed else "open"} but carries {marks} closure mark(s) {lg["closure"]!r}')
        if len(pieces) != len(nodes):
            bad('node-count', f'branch {bi}: {len(pieces)} node strings for {len(nodes)} nodes')
            continue
        for ni, (p, n) in enumerate(zip(pieces, nodes)):
            where = f'branch {bi} node {ni} {p!r}'
            if isinstance(n, SentenceNode):
                s = lw(n['sentence'])
                if not p.startswith(s):
                    bad('sentence', f'{where}: does not start with the written sentence {s!r}')
                    continue
                toks = [t for t in p[len(s):].split(' ') if t and t != lg['tick']]
                w, d = n.get('world'), n.get('designated')
                wt = [t for t in toks if t.startswith(lg['world']) and t[len(lg['world']):].isdigit()]
                if wt != ([f'{lg["world"]}{w}'] if w is not None else []):
                    bad('world', f'{where}: world marker(s) {wt}, the node has world {w}')
                dt = [t for t in toks if t in (lg['desT'], lg['desF'])]
                if dt != ([lg['desT'] if d else lg['desF']] if d is not None else []):
                    bad('designation', f'{where}: designation marker(s) {dt}, the node has designated={d}')
                other = [t for t in toks if t not in wt and t not in dt]
                if len(other) > (1 if getattr(n, 'ticked', None) else 0):      # a ticked node may carry one more mark
                    bad('sentence', f'{where}: unexplained text {other} after the sentence {s!r}')
            elif isinstance(n, AccessNode):
                toks = [t for t in p.split(' ') if t and t != lg['tick']]
                exp = f'{lg["world"]}{n["world1"]}{lg["access"]}{lg["world"]}{n["world2"]}'
                if toks[:1] != [exp] or len(toks) > (2 if getattr(n, 'ticked', None) else 1):
                    bad('access', f'{where}: expected {exp!r}')
            elif isinstance(n, EllipsisNode):
                if p.split() != [lg['ellipsis']]:
                    bad('ellipsis', f'{where}: expected the ellipsis mark {lg["ellipsis"]!r}')
            elif isinstance(n, FlagNode):
                if p.split() not in ([], [lg['quit']], [str(n.get('flag'))]):
                    bad('flag', f'{where}: unexpected text for a {n.get("flag")} flag node')
            else:
                bad('unknown-node', f'{where}: node of class {type(n).__name__}')


def node_kind(n):
    if isinstance(n, ClosureNode):
        return 'closure'
    if isinstance(n, FlagNode):
        return 'flag:' + str(n.get('flag'))
    if isinstance(n, AccessNode):
        return 'access'
    if isinstance(n, EllipsisNode):
        return 'ellipsis'
    if isinstance(n, SentenceNode):
        return 'sentence' + ('+designation' if n.get('designated') is not None else '') + ('+world' if n.get('world') is not None else '')
    return type(n).__name__


def run_job(job):
    tab = build_tab(job)
    viol = []
    out = dict(id=job['id'], viol=viol, finished=bool(tab.finished), valid=tab.valid, invalid=tab.invalid,
               premature=bool(tab.premature), nsteps=len(tab.history), nbranches=len(tab))
    tree = tab.tree
    if not tab.finished or tree is None:
        out['notree'] = True
        return out

    def add(key, what, **extra):
        if len(viol) < 16 and not any(v['key'] == key for v in viol):
            viol.append(dict(key=key, what=what, **extra))

    kinds = {}
    for b in tab:
        for n in b:
            k = node_kind(n)
            kinds[k] = kinds.get(k, 0) + 1
            if getattr(n, 'ticked', None):
                kinds['ticked'] = kinds.get('ticked', 0) + 1
    out['kinds'] = kinds
    out['tree_nodes'], out['tree_depth'], out['tree_structs'] = tree_stats(tree)
    out['tree'] = enc_tree(tree)
    renders = []        # [format, notation, writer opts, ok?]
    texts = []          # [notation, lexopts+dialect, text]  for the correspondence
    formats = list(wregistry)
    out['formats'] = formats
    nrender = 0
    firsts = []         # (format, notation, writer opts, first rendering)
    for fmt in formats:
        for notn in NOTATIONS:
            if fmt == 'text':
                variants = [v[1] for v in job.get('wvariants', []) if v[0] == notn] or [{}]
            else:
                variants = (job.get('dvariants') or {}).get(fmt) or [{}]
            for wopts in variants:
                nrender += 1
                tag = f'{fmt}:{notn}'
                try:
                    w = TabWriter(fmt, notn, **wopts)
                    a = w(tab)
                except Exception as e:  # noqa
                    tb = traceback.format_exc()
                    add(f'C19:render-raises:{fmt}:{notn}:{type(e).__name__}',
                        f'TabWriter({fmt!r}, {notn!r}, **{wopts})(tab) raised {type(e).__name__}: {str(e)[:160]}',
                        format=fmt, notation=notn, wopts=wopts, traceback=tb[-2500:], repo=str(common.REPO) in tb)
                    renders.append([fmt, notn, wopts, False])
                    continue
                renders.append([fmt, notn, wopts, True])
                firsts.append((fmt, notn, wopts, a))
                if not isinstance(a, str):
                    add(f'C19:render-not-str:{fmt}:{notn}', f'the {fmt} writer returned {type(a).__name__}', format=fmt, notation=notn, wopts=wopts)
                    continue
                try:
                    b = w(tab)
                    c = TabWriter(fmt, notn, **wopts)(tab)
                except Exception as e:  # noqa
                    tb = traceback.format_exc()
                    add(f'C19:render-raises:{fmt}:{notn}:{type(e).__name__}',
                        f'the second rendering with TabWriter({fmt!r}, {notn!r}, **{wopts}) raised {type(e).__name__}: {str(e)[:160]}',
                        format=fmt, notation=notn, wopts=wopts, traceback=tb[-2500:], repo=str(common.REPO) in tb)
                    continue
                if a != b or a != c:
                    other = b if a != b else c
                    i = next((k for k, (x, y) in enumerate(zip(a, other)) if x != y), min(len(a), len(other)))
                    add(f'C19:render-nondeterministic:{fmt}:{notn}',
                        f'rendering twice differs ({"same writer" if a != b else "fresh writer"}) at offset {i}: {a[max(0, i - 30):i + 30]!r} vs {other[max(0, i - 30):i + 30]!r}',
                        format=fmt, notation=notn, wopts=wopts)
                if fmt == 'text':
                    lexopts = {k: v for k, v in wopts.items() if k in ('drop_parens', 'identity_infix', 'max_infix', 'dialect')}
                    check_text(tab, a, notn, lexopts,
                               lambda clause, what, _n=notn, _o=wopts: add(f'C19:text-unfaithful:{clause}', f'text/{_n} {_o or ""}: {what}',
                                                                          format='text', notation=_n, wopts=_o, text=a[:1500]))
                    texts.append([notn, wopts, a])
    # long-lived writers: ONE writer object per (format, notation, options), kept for the whole worker process and used for
    # every tableau, interleaved with the writers of the other notations — its output must equal a fresh writer's
    for fmt, notn, wopts, a in firsts:
        key = (fmt, notn, json.dumps(wopts, sort_keys=True))
        try:
            wp = _LONG_LIVED.get(key)
            if wp is None:
                wp = _LONG_LIVED[key] = TabWriter(fmt, notn, **wopts)
            d = wp(tab)
        except Exception as e:  # noqa
            tb = traceback.format_exc()
            add(f'C19:render-raises:{fmt}:{notn}:{type(e).__name__}',
                f'a long-lived TabWriter({fmt!r}, {notn!r}, **{wopts}) raised {type(e).__name__}: {str(e)[:160]}',
                format=fmt, notation=notn, wopts=wopts, traceback=tb[-2500:], repo=str(common.REPO) in tb)
            continue
        if isinstance(a, str) and d != a:
            i = next((k for k, (x, y) in enumerate(zip(a, d)) if x != y), min(len(a), len(d)))
            add(f'C19:render-nondeterministic:{fmt}:{notn}',
                f'a writer object that has rendered other tableaux / been interleaved with writers of the other notation renders this '
                f'tableau differently from a fresh writer, at offset {i}: {a[max(0, i - 30):i + 30]!r} vs {d[max(0, i - 30):i + 30]!r}',
                format=fmt, notation=notn, wopts=wopts, history='long-lived writer per (format, notation, options) across the worker process')
    out['renders'] = renders
    out['nrender'] = nrender
    out['texts'] = texts
    # what the harness-side reader sees on the default polish rendering (for the Lean reader correspondence)
    for notn, wopts, a in texts[:1]:
        try:
            got = read_text(a, text_legend(notn))
            out['read'] = [[p + '; ' for p in ps] for ps, _ in got]
            out['read_marks'] = [sum(1 for r in rs if r == '(x)') for _, rs in got]
            out['read_clean'] = all(r in ('', '(x)') for _, rs in got for r in rs)
        except Unreadable:
            out['read'] = None
    return out


_LONG_LIVED: dict = {}


def freeze_clock():
    """Reproducibility only: the stopwatches of a tableau store millisecond readings as ints; their values decide whether an int
    object is allocated (> 256) or shared, which shifts heap addresses and with them every id()-based hash, i.e. the tie-breaks of
    the proof search, with machine load.  C19 is not about time (no build_timeout is ever set here), so the clock source
    `pytableaux.tools.timing._time` is frozen in this worker process."""
    from pytableaux.tools import timing
    timing._time = lambda: 0.0


def main():
    freeze_clock()
    src = open(sys.argv[1]) if len(sys.argv) > 1 else sys.stdin
    # answers go to a file as well (argv[2]): a full stdout pipe makes the buffered writer re-allocate, which again moves the heap
    dst = open(sys.argv[2], 'w') if len(sys.argv) > 2 else sys.stdout
    for line in src.read().splitlines():
        line = line.strip()
        if not line:
            continue
        job = json.loads(line)
        try:
            out = run_job(job)
        except Exception as ex:  # noqa
            tb = traceback.format_exc()
            out = dict(id=job.get('id'), error=f'{type(ex).__name__}: {ex}', traceback=tb[-3000:], repo=str(common.REPO) in tb)
        dst.write(json.dumps(out) + '\n')
        dst.flush()
    if dst is not sys.stdout:
        dst.close()


if __name__ == '__main__':
    main()
