"""
C17 — Limits and lifecycle: three-valued verdicts, bounded work, locked state.

1. Lean: Ptx.Props.C17 (theorems about the flag-word state machine Ptx/Tab/Lifecycle.lean).
2. Correspondence: interleavings of the public calls (step / finish / build / argument= /
   logic= / build_trunk / branch / rule-set mutations / rules.lock) on REAL tableaux; after
   every call the observable state (exception class, flag word, len(history), valid, invalid,
   tree built, rules locked, argument, logic, stats, models) is compared with the model's.
   The model is given, as inputs, what is outside it: the readings of the build timer at every
   `_check_timeout()`, the answers of `next()`, and whether open branches remain.  Those are
   observed through a subclass of Tableau whose overrides only record and delegate.
   The clock is `pytableaux.tools.timing._time`, replaced by a deterministic source (frozen /
   1 ms per reading / jump at the k-th next()) so that time limits are driven to both sides.
3. Implementation-side oracle (no Lean): the clauses of the property checked directly on the
   real tableau after every call; the big-limit clause by running "no limit" and "limit > n" in
   forked children (identical hash seeds, so the chooser is held fixed).
"""
from __future__ import annotations

import itertools
import json
import os
from fractions import Fraction

from .. import common
from ..common import Ctx, drive, lean_phase

from pytableaux import errors, examples
from pytableaux.lang import Argument
from pytableaux.logics import registry
from pytableaux.proof import Rule, Tableau
from pytableaux.tools import timing

LEVEL = 'proof'


def _fix_hash_seed():
    """The proof search of pytableaux depends on str hashing (e.g. CFOL 'Universal Predicate Syllogism' takes 9 or
    21 steps depending on PYTHONHASHSEED), so a run is reproducible for a given VERIF_SEED only with a fixed
    hash seed.  If none is set, restart the same command with PYTHONHASHSEED=0."""
    import os
    import sys
    if os.environ.get('PYTHONHASHSEED') is None:
        os.environ['PYTHONHASHSEED'] = '0'
        sys.stdout.flush()
        sys.stderr.flush()
        os.execv(sys.executable, [sys.executable, '-m', 'harness.check', *sys.argv[1:]])

SCALE = 2 ** 100          # abstract clock unit = 2^-100 ms (float limits are exact)
FLAG = Tableau.Flag
MASK = (FLAG.PREMATURE | FLAG.FINISHED | FLAG.TIMED_OUT | FLAG.TRUNK_BUILT |
        FLAG.HAS_STEP_LIMIT | FLAG.HAS_TIME_LIMIT | FLAG.STARTED).value


# --------------------------------------------------------------------------
# deterministic clock
# --------------------------------------------------------------------------

class Clock:
    """Replacement of timing._time.  mode: 'frozen' (never advances), 'tick' (1 ms per
    reading), 'real'.  `jump()` advances by a week."""

    def __init__(self, mode='tick'):
        self.mode = mode
        self.ms = 1_000_000
        self._real = timing._time

    def __call__(self):
        if self.mode == 'real':
            return self._real()
        if self.mode == 'tick':
            self.ms += 1
        return self.ms / 1000.0

    def jump(self):
        self.ms += 7 * 24 * 3600 * 1000

    def install(self):
        self._saved = timing._time
        timing._time = self

    def restore(self):
        timing._time = self._saved


# --------------------------------------------------------------------------
# observing subclass: overrides record and delegate, nothing else
# --------------------------------------------------------------------------

class Obs:
    def __init__(self):
        self.checks = []       # timer readings at every _check_timeout()
        self.nexts = []        # (len(history), entry is not None) for every next()
        self.steps = []        # one record per step()
        self.nnext = 0
        self.jump_at = None    # jump the clock during the k-th next()
        self.clock = None


class ObsTableau(Tableau):
    __slots__ = ('obs',)

    def __init__(self, *a, **kw):
        self.obs = Obs()
        super().__init__(*a, **kw)

    def _check_timeout(self):
        # record the reading the implementation's own check is about to see: with the ticking clock every reading advances
        # the clock, so the clock is held while the real check reads it (otherwise the model is fed a reading one tick
        # older than the one compared with the limit — a false disagreement exactly at reading == build_timeout)
        self.obs.checks.append(self.timers.build.elapsed_ms())
        clk = self.obs.clock
        if clk is None or clk.mode != 'tick':
            return super()._check_timeout()
        clk.mode = 'frozen'
        try:
            return super()._check_timeout()
        finally:
            clk.mode = 'tick'

    def next(self):
        o = self.obs
        hl = len(self.history)
        e = super().next()
        o.nexts.append((hl, e is not None))
        o.nnext += 1
        if o.jump_at is not None and o.nnext == o.jump_at and o.clock is not None:
            o.clock.jump()
        return e

    def step(self):
        o = self.obs
        c0, n0 = len(o.checks), len(o.nexts)
        try:
            return super().step()
        finally:
            o.steps.append(dict(checks=o.checks[c0:], nexts=o.nexts[n0:], open=len(self.open) > 0))


_dummy_serial = itertools.count()


def dummy_rule():
    n = next(_dummy_serial)
    name = f'VerifDummy{n}'
    ns = dict(__slots__=(), name=name,
              _get_targets=lambda self, branch: None,
              _apply=lambda self, target: None,
              example_nodes=staticmethod(lambda: ()))
    return type(Rule)(name, (Rule,), ns)


def _grp(tab):
    # never the closure group (its members must be ClosingRules)
    g = tab.rules.groups
    return g[-1] if len(g) > 1 else g.create()


# rule-set mutations; every one is wrapped by `locking` in the implementation
MUTATIONS = [
    ('rules.append', lambda tab: tab.rules.append(dummy_rule())),
    ('rules.extend', lambda tab: tab.rules.extend([dummy_rule()])),
    ('rules.clear', lambda tab: tab.rules.clear()),
    ('groups.create', lambda tab: tab.rules.groups.create()),
    ('groups.append', lambda tab: tab.rules.groups.append([dummy_rule()])),
    ('groups.extend', lambda tab: tab.rules.groups.extend([[dummy_rule()]])),
    ('groups.clear', lambda tab: tab.rules.groups.clear()),
    ('group.append', lambda tab: _grp(tab).append(dummy_rule())),
    ('group.extend', lambda tab: _grp(tab).extend([dummy_rule()])),
    ('group.clear', lambda tab: _grp(tab).clear()),
]


# --------------------------------------------------------------------------
# cases
# --------------------------------------------------------------------------

def get_argument(spec: str) -> Argument:
    if spec.startswith('ex:'):
        return examples.arguments[spec[3:]]
    return Argument(spec)


def scaled(x):
    "a limit or reading in abstract clock units, as an exact integer"
    if x is None:
        return '_'
    f = Fraction(x) * SCALE
    if f.denominator != 1:
        raise common.InfraError(f'time value {x!r} not representable')
    return str(int(f))


def opts_tokens(opts: dict) -> str:
    ms = opts.get('max_steps')
    return ' '.join(['_' if ms is None else str(int(ms)), scaled(opts.get('build_timeout')),
                     '1' if opts.get('auto_build_trunk', True) else '0',
                     '1' if opts.get('is_build_models', False) else '0'])


def observe(tab, out: str, case) -> str:
    def ob(v):
        return '_' if v is None else ('T' if v else 'F')
    arg = tab.argument
    ai = '_'
    if arg is not None:
        ai = '?'
        for k, spec in enumerate(case['args']):
            if get_argument(spec) == arg:
                ai = str(k)
                break
    lg = tab.logic
    li = '_'
    if lg is not None:
        li = '?'
        for k, name in enumerate(case['logics']):
            if registry(name) is lg:
                li = str(k)
                break
    return ' '.join([out, str(tab.flag.value & MASK), str(len(tab.history)), ob(tab.valid), ob(tab.invalid),
                     '1' if tab.tree is not None else '0', '1' if tab.rules.locked else '0', ai, li,
                     '1' if len(tab.stats) else '0', '1' if len(tab.models) else '0'])


def snapshot(tab):
    "what 'changes nothing' is measured on"
    return (tab.flag.value, len(tab.history), len(tab), len(tab.open), id(tab.tree), id(tab.stats),
            id(tab.models), tab.valid, tab.invalid, tab.argument, tab.logic,
            tuple(r.name for r in tab.rules), len(tab.rules.groups), tab.rules.locked)


def step_tokens(rec) -> str:
    checks = rec['checks']
    clk = checks[0] if checks else 0
    mclk = max(checks[1:], default=0)
    nx = rec['nexts'][0][1] if rec['nexts'] else False
    return f"{scaled(clk)} {int(nx)} {int(rec['open'])} {scaled(mclk)}"


class Violation(Exception):
    def __init__(self, key, what):
        self.key, self.what = key, what


def run_case(case, *, oracle=True):
    """Execute the case on a real tableau.  Returns (request line for the model, observed answer
    line, list of oracle violations (key, what, op index))."""
    clock = Clock(case.get('clock', 'tick'))
    clock.install()
    viol = []
    try:
        opts = dict(case['opts'])
        ops = [list(op) for op in case['ops']]
        mtoks, obs_out = [], []
        if case.get('ctor') == 'kw':
            # logic and argument through the constructor: __init__ applies the logic setter, then
            # the argument setter
            tab = ObsTableau(registry(case['logics'][0]), get_argument(case['args'][0]), **opts)
            for tok in ('L 0', 'A 0'):
                mtoks.append(tok)
            # the intermediate state after the logic setter is not observable; compare after both
            obs_out.append(None)
            obs_out.append(observe(tab, 'self', case))
        else:
            tab = ObsTableau(**opts)
        tab.obs.clock = clock
        tab.obs.jump_at = case.get('jump_at')
        maxsteps = opts.get('max_steps')
        limit = maxsteps if (maxsteps is not None and maxsteps > 0) else None
        for k, op in enumerate(ops):
            kind = op[0]
            o = tab.obs
            o.steps.clear()
            c0 = len(o.checks)
            n0 = len(o.nexts)
            before = snapshot(tab)
            was_finished = tab.finished
            # 'started' observed independently of the STARTED bit: the trunk is built or a step is on record
            was_started = FLAG.STARTED in tab.flag or FLAG.TRUNK_BUILT in tab.flag or len(tab.history) > 0
            hist0 = len(tab.history)
            out = None
            exc = None
            try:
                if kind == 'S':
                    r = tab.step()
                    out = 'none' if r is None else 'entry'
                elif kind == 'F':
                    r = tab.finish()
                    out = 'self' if r is tab else 'other'
                elif kind == 'B':
                    r = tab.build()
                    out = 'self' if r is tab else 'other'
                elif kind == 'A':
                    tab.argument = get_argument(case['args'][op[1]])
                    out = 'self'
                elif kind == 'L':
                    tab.logic = case['logics'][op[1]]
                    out = 'self'
                elif kind == 'T':
                    r = tab.build_trunk()
                    out = 'self' if r is tab else 'other'
                elif kind == 'N':
                    # Tableau.branch() by the user, with a node no rule looks at (an empty branch
                    # makes Tree.make raise IndexError — outside C17, see notes)
                    tab.branch().append({'flag': 'verif'})
                    out = 'self'
                elif kind == 'M':
                    MUTATIONS[op[1] % len(MUTATIONS)][1](tab)
                    out = 'self'
                elif kind == 'K':
                    tab.rules.lock()
                    out = 'self'
                else:
                    raise common.InfraError(f'bad op {op}')
            except (errors.ProofTimeoutError, errors.IllegalStateError) as e:
                exc = e
                out = f'raise:{type(e).__name__}'
            except common.InfraError:
                raise
            except Exception as e:   # any other class is itself a finding for the comparison
                exc = e
                out = f'raise:{type(e).__name__}'
            # ---- model inputs
            if kind == 'S':
                rec = o.steps[0] if o.steps else dict(checks=[], nexts=[], open=len(tab.open) > 0)
                mtoks.append('S ' + step_tokens(rec))
            elif kind == 'F':
                mtoks.append('F ' + scaled(max(o.checks[c0:], default=0)))
            elif kind == 'B':
                mtoks.append('B ' + ' , '.join(step_tokens(r) for r in o.steps))
            elif kind == 'A':
                mtoks.append(f"A {case['args'].index(case['args'][op[1]])}")
            elif kind == 'L':
                mtoks.append(f"L {case['logics'].index(case['logics'][op[1]])}")
            elif kind == 'M':
                mtoks.append('M')
            else:
                mtoks.append(kind)
            obs_out.append(observe(tab, out, case))
            if not oracle:
                continue
            # ---- the property's clauses, directly on the implementation
            after = snapshot(tab)
            where = f'op#{k} {op}'
            if tab.finished and FLAG.PREMATURE in tab.flag and (tab.valid is not None or tab.invalid is not None):
                viol.append(('C17:premature-verdict', f'premature tableau reports a verdict after {where}', k))
            if tab.argument is None and (tab.valid is not None or tab.invalid is not None):
                viol.append(('C17:verdict-without-argument', f'verdict without argument after {where}', k))
            if limit is not None and len(tab.history) > limit:
                viol.append(('C17:steps-exceed-limit',
                             f'len(history)={len(tab.history)} > max_steps={limit} after {where}', k))
            if limit is not None and kind in 'SB' and not was_finished and tab.finished and exc is None:
                # stopped by the step limit = finished in a step() in which next() was not consulted
                # although the clock did not stop it
                last = o.steps[-1] if o.steps else None
                if last is not None and not last['nexts'] and len(tab.history) >= limit:
                    if not tab.premature or tab.valid is not None or tab.invalid is not None:
                        viol.append(('C17:limit-stop-not-premature',
                                     f'stopped by max_steps={limit} but premature={tab.premature} '
                                     f'valid={tab.valid} invalid={tab.invalid} after {where}', k))
                    if tab.tree is None:
                        viol.append(('C17:limit-stop-no-tree', f'stopped by max_steps, tree not built, {where}', k))
            if (limit is not None and kind in 'SB' and not was_finished and tab.finished and exc is None
                    and len(tab.history) >= limit):
                # the step() that finished it began with the recorded steps already at the limit: the limit
                # check precedes the search, so this tableau was stopped by its step limit, whatever next()
                # would have answered (seed C17-6: the check skipped when no branch is open)
                if not tab.premature or tab.valid is not None or tab.invalid is not None:
                    viol.append(('C17:limit-reached-not-premature',
                                 f'finished with len(history)={len(tab.history)} >= max_steps={limit} but '
                                 f'premature={tab.premature} valid={tab.valid} invalid={tab.invalid} after {where}', k))
            if isinstance(exc, errors.ProofTimeoutError):
                if not tab.finished or FLAG.TIMED_OUT not in tab.flag:
                    viol.append(('C17:timeout-not-finished',
                                 f'ProofTimeoutError raised but flag={tab.flag!s} after {where}', k))
                if tab.tree is not None:
                    viol.append(('C17:timeout-tree-built', f'tree built although timed out, {where}', k))
                # raised by the check at the start of step(): the search was stopped → premature
                recs = o.steps
                stopped_search = bool(recs) and not recs[-1]['nexts']
                if stopped_search and (not tab.premature or tab.valid is not None or tab.invalid is not None):
                    viol.append(('C17:timeout-stop-not-premature',
                                 f'search stopped by the time limit but premature={tab.premature} '
                                 f'valid={tab.valid} invalid={tab.invalid} after {where}', k))
            elif exc is not None and not isinstance(exc, errors.IllegalStateError):
                viol.append((f'C17:unexpected-exception:{type(exc).__name__}',
                             f'{type(exc).__name__}: {exc} from {where}', k))
            if FLAG.TIMED_OUT in tab.flag and not tab.finished:
                viol.append(('C17:timed-out-not-finished', f'TIMED_OUT without FINISHED after {where}', k))
            if was_finished and kind in 'SFB':
                if after != before or exc is not None or (kind == 'S' and out != 'none'):
                    viol.append(('C17:finished-not-absorbing',
                                 f'{where} on a finished tableau: out={out} changed='
                                 f'{[i for i, (a, b) in enumerate(zip(before, after)) if a != b]}', k))
            if was_started and kind in 'ALTMK':
                if not isinstance(exc, errors.IllegalStateError) or after != before:
                    viol.append(('C17:started-not-locked',
                                 f'{where} on a started tableau: out={out} changed='
                                 f'{[i for i, (a, b) in enumerate(zip(before, after)) if a != b]}', k))
            if kind in 'SB' and exc is None and not was_finished and len(tab.history) < hist0:
                viol.append(('C17:history-shrank', f'{where}', k))
        req = 'life ' + opts_tokens(opts) + ' ; ' + ' ; '.join(mtoks)
        return req, obs_out, viol
    finally:
        clock.restore()


# --------------------------------------------------------------------------
# the big-limit clause: forked runs with the chooser held fixed
# --------------------------------------------------------------------------

def _signature(logic, argspec, max_steps):
    from ..wire import enc_node
    clock = Clock('frozen')
    clock.install()
    try:
        tab = Tableau(logic, get_argument(argspec), max_steps=max_steps)
        tab.build()
        branches = list(tab)
        hist = []
        for e in tab.history:
            t = e.target
            b = t.get('branch')
            n = t.get('node')
            try:
                ntxt = enc_node(n) if n is not None else '_'
            except Exception:
                ntxt = '?'
            hist.append([e.rule.name, branches.index(b) if b in branches else -1, ntxt])
        return dict(hist=hist, flag=tab.flag.value & MASK & ~FLAG.HAS_STEP_LIMIT.value,
                    valid=tab.valid, invalid=tab.invalid, nbranches=len(tab), nopen=len(tab.open),
                    nodes=[len(b) for b in tab], tree=tab.tree is not None)
    finally:
        clock.restore()


def forked(fn, *args):
    r, w = os.pipe()
    pid = os.fork()
    if pid == 0:
        code = 0
        try:
            os.close(r)
            data = json.dumps(fn(*args)).encode()
            with os.fdopen(w, 'wb') as fh:
                fh.write(data)
        except BaseException as e:   # noqa
            try:
                os.write(2, f'forked child failed: {type(e).__name__}: {e}\n'.encode())
            except Exception:
                pass
            code = 3
        finally:
            os._exit(code)
    os.close(w)
    with os.fdopen(r, 'rb') as fh:
        data = fh.read()
    _, status = os.waitpid(pid, 0)
    if status != 0 or not data:
        raise common.InfraError(f'forked run failed (status {status})')
    return json.loads(data)


def big_limit_oracle(ctx: Ctx, logic: str, argspec: str):
    base = forked(_signature, logic, argspec, None)
    n = len(base['hist'])
    for m in (n + 1, n + 2, 2 * n + 7, 0, -3):
        other = forked(_signature, logic, argspec, m)
        ctx.count(('biglimit', logic, argspec, m))
        if other != base:
            diff = [k for k in base if base[k] != other[k]]
            ctx.fail(f'C17:big-limit-changes-result:{logic}',
                     f'{logic} {argspec}: natural length {n}, max_steps={m} changes {diff} '
                     f'(steps {len(other["hist"])}, valid={other["valid"]}, invalid={other["invalid"]})',
                     dict(kind='biglimit', logic=logic, argument=argspec, max_steps=m, natural_length=n,
                          expected=dict(valid=base['valid'], invalid=base['invalid'], steps=n),
                          observed=dict(valid=other['valid'], invalid=other['invalid'], steps=len(other['hist']))))
    return n


# --------------------------------------------------------------------------
# generators
# --------------------------------------------------------------------------

PAIRS = [
    ('CPL', 'ex:Material Pseudo Contraposition'), ('CPL', 'ex:Addition'), ('CPL', 'ex:Affirming the Consequent'),
    ('CFOL', 'ex:Syllogism'), ('CFOL', 'ex:Universal Predicate Syllogism'),
    ('K', 'ex:Syllogism'), ('K', 'ex:Necessity Distribution 1'), ('K', 'NLa'), ('K', 'ex:Possibility Distribution'),
    ('S4', 'ex:S4 Conditional Inference 2'), ('S4', 'ex:Syllogism'), ('S5', 'ex:Possibility Distribution'),
    ('T', 'ex:S4 Material Inference 2'), ('D', 'ex:Serial Inference 1'),
    ('FDE', 'ex:Syllogism'), ('K3W', 'ex:Conditional Pseudo Contraction'), ('L3', 'ex:Conditional Pseudo Contraposition'),
    ('GO', 'ex:Quantifier Interdefinability 4'), ('KFDE', 'ex:Necessity Distribution 2'), ('MH', 'ex:Material Pseudo Contraposition'),
    ('KK3', 'ex:Possibility Distribution'), ('S4LP', 'ex:S4 Conditional Inference 2'),
]

TIMEOUTS = [None, 0, -2.5, 1e-9, 3, 40, 1e12]
ALPHABET = [('S',), ('F',), ('B',), ('A', 0), ('L', 0), ('T',), ('N',), ('M', 2), ('M', 0), ('K',)]


def natural_length(logic, argspec) -> int:
    clock = Clock('frozen')
    clock.install()
    try:
        return len(Tableau(logic, get_argument(argspec)).build().history)
    finally:
        clock.restore()


def random_ops(rng, nargs, nlogics, *, setup=True, length=None):
    ops = []
    if setup:
        first = [('L', rng.randrange(nlogics)), ('A', rng.randrange(nargs))]
        if rng.random() < 0.3:
            first.reverse()
        if rng.random() < 0.15:
            first.pop(rng.randrange(2))
        if rng.random() < 0.15:
            first.insert(rng.randrange(len(first) + 1), ('M', rng.randrange(len(MUTATIONS))))
        ops += first
    n = length if length is not None else rng.choice([2, 3, 5, 8, 12, 20])
    for _ in range(n):
        x = rng.random()
        if x < 0.55:
            ops.append(('S',))
        elif x < 0.63:
            ops.append(('B',))
        elif x < 0.70:
            ops.append(('F',))
        elif x < 0.76:
            ops.append(('A', rng.randrange(nargs)))
        elif x < 0.82:
            ops.append(('L', rng.randrange(nlogics)))
        elif x < 0.86:
            ops.append(('T',))
        elif x < 0.90:
            ops.append(('N',))
        elif x < 0.96:
            ops.append(('M', rng.randrange(len(MUTATIONS))))
        else:
            ops.append(('K',))
    return ops


def gen_cases(ctx: Ctx):
    rng = ctx.rng
    # (a) exhaustive-small interleavings over the alphabet, several option sets
    optsets = [dict(), dict(max_steps=1), dict(max_steps=2, is_build_models=True),
               dict(build_timeout=1e-9), dict(build_timeout=1e-9, is_build_models=True, max_steps=3),
               dict(auto_build_trunk=False), dict(auto_build_trunk=False, build_timeout=1e12, max_steps=-1)]
    depth = ctx.scale(3, 4)
    for opts in optsets:
        for d in range(1, depth + 1):
            for ops in itertools.product(ALPHABET, repeat=d):
                yield 'exhaustive', dict(logics=['CPL'], args=['ex:Affirming the Consequent'], opts=opts,
                                         clock='tick', ops=ops)
    # a deeper sample of the next depth
    for _ in range(ctx.scale(1500, 20000)):
        ops = tuple(rng.choice(ALPHABET) for _ in range(depth + 1 + rng.randrange(3)))
        yield 'exhaustive+', dict(logics=['K'], args=['NLa'], opts=rng.choice(optsets), clock='tick', ops=ops)
    # (b) every positive step limit 1..n+1 (and None, 0, negative, n+5) on real proofs
    for logic, argspec in PAIRS:
        n = natural_length(logic, argspec)
        ctx.coverage.setdefault('natural_lengths', {})[f'{logic}:{argspec}'] = n
        limits = list(range(1, n + 2))
        if not ctx.thorough and len(limits) > 14:
            limits = sorted(set(limits[:5] + limits[-4:] + rng.sample(limits, 5)))
        for m in limits + [None, 0, -1, -7, n + 5]:
            for style in range(ctx.scale(1, 4)):
                ops = [('S',)] * rng.randrange(0, n + 3)
                ops += rng.choice([[('B',)], [('F',)], [('B',), ('S',), ('F',)], [('S',)] * 3 + [('B',)]])
                ops += random_ops(rng, 2, 2, setup=False, length=rng.randrange(0, 5))
                opts = dict(max_steps=m)
                if rng.random() < 0.5:
                    opts['is_build_models'] = True
                ctor = 'kw' if (style + (m or 0)) % 2 == 0 else 'plain'
                if ctor == 'plain':
                    ops = [('L', 0), ('A', 0)] + ops
                yield 'limits', dict(logics=[logic, 'FDE'], args=[argspec, 'ex:Addition'], opts=opts, ctor=ctor,
                                     clock=rng.choice(['tick', 'frozen']), ops=ops)
    # (c) time limits driven to both sides
    for logic, argspec in (PAIRS if ctx.thorough else PAIRS[1::3] + [('K', 'NLa')]):
        for to in TIMEOUTS:
            for clockmode, jump in (('tick', None), ('frozen', None), ('frozen', 1), ('frozen', 3), ('frozen', 'last')):
                for models in (False, True):
                    n = ctx.coverage['natural_lengths'][f'{logic}:{argspec}']
                    j = (n + 1 if jump == 'last' else jump)
                    ops = [('S',)] * rng.randrange(0, 4) + [rng.choice([('B',), ('S',), ('F',)])]
                    ops += [('B',)] + random_ops(rng, 2, 2, setup=False, length=rng.randrange(0, 4))
                    opts = dict(build_timeout=to, is_build_models=models)
                    if rng.random() < 0.25:
                        opts['max_steps'] = rng.randrange(1, n + 3)
                    yield 'timeouts', dict(logics=[logic, 'CPL'], args=[argspec, 'ex:Addition'], opts=opts, ctor='kw',
                                           clock=clockmode, jump_at=j, ops=ops)
    # (d) free random interleavings
    for _ in range(ctx.scale(1200, 15000)):
        logic, argspec = rng.choice(PAIRS)
        logic2, argspec2 = rng.choice(PAIRS)
        opts = {}
        if rng.random() < 0.5:
            opts['max_steps'] = rng.choice([None, 0, -2, 1, 2, 3, 5, 8, 13, 50, 1000])
        if rng.random() < 0.5:
            opts['build_timeout'] = rng.choice(TIMEOUTS)
        if rng.random() < 0.4:
            opts['is_build_models'] = True
        if rng.random() < 0.2:
            opts['auto_build_trunk'] = False
        jump = rng.choice([None, None, 1, 2, 4, 9])
        yield 'random', dict(logics=[logic, logic2], args=[argspec, argspec2], opts=opts,
                             clock=rng.choice(['tick', 'tick', 'frozen']), jump_at=jump,
                             ops=random_ops(rng, 2, 2))


# --------------------------------------------------------------------------
# run
# --------------------------------------------------------------------------

def shrink(case, key):
    "drop operations while the same oracle violation persists"
    ops = list(case['ops'])
    i = 0
    while i < len(ops):
        trial = dict(case, ops=ops[:i] + ops[i + 1:])
        try:
            _, _, v = run_case(trial)
        except Exception:
            v = []
        if any(x[0] == key for x in v):
            ops = trial['ops']
        else:
            i += 1
    return dict(case, ops=ops)


def jsonable(case):
    return json.loads(json.dumps(case))


def run(ctx: Ctx):
    _fix_hash_seed()
    res = lean_phase(ctx, ['Ptx.Props.C17'])
    ctx.coverage['rule'] = ('distinct = distinct (options, clock mode, operation sequence, logic, argument) cases '
                            'executed on a real Tableau and compared call by call with the model')
    ctx.coverage['trusted_base'] += [
        'harness/props/c17.py: observing subclass ObsTableau (records and delegates), deterministic clock '
        'substituted for pytableaux.tools.timing._time, canonicalisation of the observed state']
    ctx.assumptions += [
        'The build timer readings at each _check_timeout(), the answer of next() (the whole proof search) and '
        'the open-branch status after a rule application are inputs of the model, observed on the real run; '
        'the theorems say what the life-cycle machine does given those.',
        'Real elapsed time is not modelled; the correspondence runs use a deterministic clock (frozen, 1 ms per '
        'reading, or a jump during the k-th next()) so that a limit is exceeded at a known check or never.',
        'Calls from AFTER_* event listeners into the tableau (re-entrancy), direct rule.apply() by the user and '
        'non-integer max_steps are outside the model.',
        'big_limit_noop holds the chooser fixed (next() a function of the history length); on the implementation '
        'this is realised by forked runs with identical hash seeds.',
    ]
    if not res.ok:
        for f, decl in res.failed_decls() or [('?', '?')]:
            ctx.notes.append(f'lean build failed at {f}:{decl}')
    # ---- corpus
    corpus = sorted((common.ROOT / 'corpus' / 'C17').glob('*.json')) if (common.ROOT / 'corpus' / 'C17').exists() else []
    streams = [('corpus', json.loads(p.read_text())) for p in corpus]
    cases = itertools.chain(streams, gen_cases(ctx))
    pending = []      # (stream, case, req, observed)
    hist = dict(ops={}, outs={}, streams={}, words=set(), clocks={}, limit_kinds={})
    nviol = 0

    def flush():
        nonlocal pending
        if not pending or not res.ok:
            pending = []
            return
        answers = drive([p[2] for p in pending])
        for (stream, case, req, observed), ans in zip(pending, answers):
            groups = ans.split(' ; ')
            if len(groups) != len(observed):
                ctx.fail(f'C17:corr:{stream}:shape', f'model answered {ans!r} for {req!r}',
                         dict(kind='case', case=jsonable(case), request=req, model=ans, correspondence=stream),
                         found_input=False)
                continue
            labels = ([['ctor'], ['ctor']] if case.get('ctor') == 'kw' else []) + list(case['ops'])
            for k, (m, o) in enumerate(zip(groups, observed)):
                if o is None:
                    continue
                if m != o:
                    opk = labels[k]
                    ctx.fail(f'C17:corr:{stream}:{opk[0]}',
                             f'model and implementation disagree after op #{k} {opk}: model [{m}] real [{o}] '
                             f'(fields: out word hist valid invalid tree locked arg logic stats models)',
                             dict(kind='case', case=jsonable(case), request=req, model=groups, observed=observed,
                                  correspondence=f'life/{stream}', theorem='Ptx.Tab.Life.exec vs Tableau'),
                             found_input=False)
                    break
        pending = []

    for stream, case in cases:
        case = dict(case)
        case['ops'] = [list(o) for o in case['ops']]
        try:
            req, observed, viol = run_case(case)
        except common.InfraError:
            raise
        key = (json.dumps(case['opts'], sort_keys=True), case.get('clock'), case.get('jump_at'), case.get('ctor'),
               tuple(case['logics']), tuple(case['args']), tuple(map(tuple, case['ops'])))
        ctx.count(key)
        hist['streams'][stream] = hist['streams'].get(stream, 0) + 1
        hist['clocks'][case.get('clock', 'tick')] = hist['clocks'].get(case.get('clock', 'tick'), 0) + 1
        ms = case['opts'].get('max_steps')
        lk = 'none' if ms is None else 'zero' if ms == 0 else 'negative' if ms < 0 else 'positive'
        hist['limit_kinds'][lk] = hist['limit_kinds'].get(lk, 0) + 1
        for op in case['ops']:
            hist['ops'][op[0]] = hist['ops'].get(op[0], 0) + 1
        for o in observed:
            if o is not None:
                f = o.split()
                hist['outs'][f[0]] = hist['outs'].get(f[0], 0) + 1
                hist['words'].add(int(f[1]))
                if int(f[1]) & 16 and f[3] != '_':
                    ctx.add_cov(timed_out_with_verdict_via_models=1)
        if hist['streams'][stream] <= 2:
            ctx.sample(dict(stream=stream, request=req, observed=observed))
        for vkey, what, k in viol:
            nviol += 1
            if any(v['key'] == vkey for v in ctx.violations):
                continue
            small = shrink(case, vkey)
            ctx.fail(vkey, what, dict(kind='case', case=jsonable(small), original_ops=case['ops'], failing_op_index=k))
        pending.append((stream, case, req, observed))
        if len(pending) >= 2000:
            flush()
    flush()
    # ---- big limit (forked, chooser fixed)
    pairs = PAIRS if ctx.thorough else PAIRS[::2] + [('K', 'NLa')]
    for logic, argspec in pairs:
        big_limit_oracle(ctx, logic, argspec)
    ctx.add_cov(ops_histogram=hist['ops'], outcome_histogram=hist['outs'], streams=hist['streams'],
                clock_modes=hist['clocks'], max_steps_kinds=hist['limit_kinds'],
                flag_words_reached=sorted(hist['words']), oracle_violations_seen=nviol,
                biglimit_pairs=len(pairs))
    if not res.ok and not ctx.violations:
        for f, decl in res.failed_decls() or [('?', '?')]:
            ctx.fail(f'C17:lean:{decl}', f'Lean build failed at {f} ({decl}); no failing input found on the '
                     f'implementation by the oracle streams', dict(theorem=decl, log=res.log[-3000:]), found_input=False)


def replay(data) -> int:
    _fix_hash_seed()
    "re-run the recorded input against the implementation-side oracle only"
    rp = data.get('replay', {})
    if rp.get('kind') == 'biglimit':
        base = forked(_signature, rp['logic'], rp['argument'], None)
        other = forked(_signature, rp['logic'], rp['argument'], rp['max_steps'])
        bad = base != other
        print(f"natural length {len(base['hist'])}; with max_steps={rp['max_steps']}: steps {len(other['hist'])}, "
              f"valid={other['valid']} invalid={other['invalid']} (unlimited: valid={base['valid']} invalid={base['invalid']})")
        print('VIOLATION reproduced' if bad else 'not reproduced')
        return 1 if bad else 0
    case = rp.get('case')
    if not case:
        print('nothing to replay')
        return 2
    _, observed, viol = run_case(case)
    for o in observed:
        print('  ', o)
    for v in viol:
        print('VIOLATION', v)
    if not viol:
        print('oracle: no property clause violated on this input')
    return 1 if viol else 0
