"""
C18 — ordered-set containers stay a set and a sequence at once.

Three containers: ``qset`` (tools/hybrids.py), ``linqset`` (tools/linked.py), ``Predicates``
(lang/collect.py).  One *case* is a whole operation sequence applied to an initially empty
container.  After EVERY operation the real object is observed (iteration, len, membership,
index(), c[i], reversed iteration, the redundant internal structure, for Predicates the
lookup index) and

  * checked directly against a plain Python list-without-duplicates reference model
    (`ref_step`; this is the implementation-side oracle, no Lean involved), and
  * compared, as a canonical string per step, with what the Lean model (Ptx/Cont/*.lean,
    through the compiled driver `ptxdrv`) answers for the same sequence, including the
    exception class of every operation.

Streams: corpus, exhaustive (small universe, bounded depth), seeded random (length <= 60),
malformed operations mixed into both.
"""
from __future__ import annotations

import functools
import itertools
import json
from collections import Counter

from ..common import ROOT, Ctx, InfraError, drive, lean_phase

from pytableaux.errors import DuplicateValueError, MissingValueError
from pytableaux.lang import Predicate, Predicates
from pytableaux.tools.hybrids import qset
from pytableaux.tools.linked import linqset

LEVEL = 'proof'
PROP = 'C18'
KINDS = ('qset', 'linqset', 'preds')

# --------------------------------------------------------------------------
# values
# --------------------------------------------------------------------------
# qset / linqset hold small ints.  Predicates holds predicates, written (index, sub, arity);
# Identity is (-1, 0, 2), Existence (-2, 0, 1).

PA, PB, PC = (0, 0, 1), (0, 0, 2), (1, 0, 1)      # PA / PB share the symbol, differ in arity
PD, PE, PI = (1, 0, 2), (0, 1, 1), (-1, 0, 2)
SYSNAME = {(-1, 0, 2): 'Identity', (-2, 0, 1): 'Existence'}
SYSBYNAME = {v: k for k, v in SYSNAME.items()}

UNI = dict(
    qset=dict(small=(0, 1, 2), big=(0, 1, 2, 3, 4)),
    linqset=dict(small=(0, 1, 2), big=(0, 1, 2, 3, 4)),
    preds=dict(small=(PA, PB, PC), big=(PA, PB, PC, PD, PE, PI)))


def vtok(kind, v) -> str:
    return '.'.join(map(str, v)) if kind == 'preds' else str(v)


def pyval(kind, v):
    "reference value -> the object handed to the real container"
    if kind != 'preds':
        return v
    return SYSNAME.get(v, v)


def canon(kind, x):
    "value coming out of the real container -> reference value"
    if kind != 'preds':
        return x
    return tuple(x.spec)


@functools.lru_cache(maxsize=None)
def pred_refs(p):
    "the references of a predicate, as (tag, payload); order fixed: b s d p [n]"
    r = [('b', p[:2]), ('s', p), ('d', p), ('p', p)]
    if p in SYSNAME:
        r.append(('n', SYSNAME[p]))
    return tuple(r)


@functools.lru_cache(maxsize=None)
def sys_of_ref(r):
    "the system predicate a reference denotes, if any"
    return next((p for p in SYSNAME if r in pred_refs(p)), None)


def reftok(r) -> str:
    tag, pl = r
    return f'{tag}:' + (pl if tag == 'n' else '.'.join(map(str, pl)))


@functools.lru_cache(maxsize=None)
def pyref(r):
    tag, pl = r
    if tag == 'b' or tag == 's':
        return tuple(pl)
    if tag == 'd':
        return ('Predicate', tuple(pl))
    if tag == 'n':
        return pl
    return Predicate(SYSNAME.get(pl, pl))


def canon_ref(k):
    "a key of the real `_lookup` dict -> (tag, payload)"
    if isinstance(k, Predicate):
        return ('p', tuple(k.spec))
    if isinstance(k, str):
        return ('n', k)
    if isinstance(k, tuple):
        if len(k) == 2 and k[0] == 'Predicate':
            return ('d', tuple(k[1]))
        if len(k) == 2:
            return ('b', tuple(k))
        if len(k) == 3:
            return ('s', tuple(k))
    return ('?', repr(k))


def pred_key(p):
    "Lexical order of predicates: (subscript, index, arity)"
    return (p[1], p[0], p[2])


# --------------------------------------------------------------------------
# operations
# --------------------------------------------------------------------------
# An op is a tuple (name, *args).  slices are 3-tuples with None for an omitted part.

SINGLE = {'append', 'add', 'insert', 'wedge', 'remove', 'discard', 'pop', 'del', 'set',
          'setT', 'delT', 'appendU'}
BULK = {'extend', 'update', 'ior', 'iand', 'isub', 'ixor'}
PURE = {'or', 'and', 'sub', 'xor', 'plus'}
MALFORMED = {'setT', 'delT', 'appendU', 'setsN'}
OPNAME = dict(set='setitem-index', sets='setitem-slice', setsN='setitem-slice', setT='setitem-index',
              dels='delitem-slice', delT='delitem-index', appendU='append')
OPNAME['del'] = 'delitem-index'


def opname(op) -> str:
    return OPNAME.get(op[0], op[0])


def stok(x) -> str:
    return '_' if x is None else str(x)


def enc_op(kind, op) -> str:
    n = op[0]
    v = lambda x: vtok(kind, x)  # noqa: E731
    if n in ('append', 'add', 'discard', 'setT'):
        return f'{n} {v(op[1])}'
    if n == 'remove':
        return f'remove {reftok(op[1])}' if kind == 'preds' else f'remove {v(op[1])}'
    if n in ('insert', 'set'):
        return f'{n} {op[1]} {v(op[2])}'
    if n == 'wedge':
        return f'wedge {v(op[1])} {v(op[2])} {op[3]}'
    if n in ('pop', 'del'):
        return f'{n} {op[1]}'
    if n in ('dels', 'setsN'):
        return f'{n} ' + ' '.join(map(stok, op[1]))
    if n == 'sets':
        return 'sets ' + ' '.join(map(stok, op[1])) + f' {len(op[2])}' + ''.join(' ' + v(x) for x in op[2])
    if n == 'sort':
        return f'sort {int(op[1])}'
    if n in ('reverse', 'clear', 'copy', 'delT', 'appendU'):
        return n
    if n in BULK or n in PURE:
        return f'{n} {len(op[1])}' + ''.join(' ' + v(x) for x in op[1])
    raise ValueError(op)


def enc_request(kind, uni, ops) -> str:
    head = kind + ' ' + (' '.join(vtok(kind, p) for p in uni) if kind == 'preds' else str(len(uni)))
    return ' ; '.join([head, *(enc_op(kind, o) for o in ops)])


# --------------------------------------------------------------------------
# reference model: a plain list without duplicates  (the property's oracle)
# --------------------------------------------------------------------------

def dedupe(xs):
    return list(dict.fromkeys(xs))


def conflicts(l, v, leaving=()):
    "some member (not leaving) has v's symbol but is a different predicate"
    return any(m[:2] == v[:2] and m != v and m not in leaving for m in l)


def build(kind, vals):
    "_from_iterable: sequential add into an empty container -> (list, outcome)"
    out = []
    for v in vals:
        if v in out:
            continue
        if kind == 'preds' and conflicts(out, v):
            return out, 'Conflict'
        out.append(v)
    return out, 'ok'


def lookup_ref(l, r):
    "the member a reference finds (Predicates lookup index), or None"
    for m in l:
        if r in pred_refs(m):
            return m
    return None


def ref_step(kind, l, op):
    """One operation on the reference list.  Returns (list', outcome, ret).
    `outcome` is 'ok' or the error enum; on a non-bulk error the list is unchanged."""
    P = kind == 'preds'
    n = op[0]
    size = len(l)
    if n in MALFORMED:
        return l, 'Type', None
    if n in ('append', 'add', 'insert'):
        v = op[-1]
        if v in l:
            return l, ('ok' if n == 'add' else 'Duplicate'), None
        if P and conflicts(l, v):
            return l, 'Conflict', None
        r = list(l)
        r.insert(op[1] if n == 'insert' else size, v)
        return r, 'ok', None
    if n == 'wedge':
        _, v, nb, rel = op
        if rel not in (-1, 1):
            return l, 'Value', None
        if nb not in l:
            return l, 'Missing', None
        if v in l:
            return l, 'Duplicate', None
        i = l.index(nb) + (1 if rel == 1 else 0)
        return l[:i] + [v] + l[i:], 'ok', None
    if n == 'remove':
        if P:
            m = lookup_ref(l, op[1])
            if m is None:
                return l, 'Missing', None
            tag = op[1][0]
            if tag not in ('p', 'n'):      # found by the index, but equal to no member
                return l, 'Value', None
            v = m
        else:
            v = op[1]
            if v not in l:
                return l, 'Missing', None
        return [x for x in l if x != v], 'ok', None
    if n == 'discard':
        return [x for x in l if x != op[1]], 'ok', None
    if n in ('pop', 'del'):
        i = op[1]
        if not -size <= i < size:
            return l, 'Index', None
        r = list(l)
        x = r.pop(i)
        return r, 'ok', (x if n == 'pop' else None)
    if n == 'set':
        _, i, v = op
        if not -size <= i < size:
            return l, 'Index', None
        old = l[i]
        if v in l and v != old:
            return l, 'Duplicate', None
        if P and conflicts(l, v, (old,)):
            return l, 'Conflict', None
        r = list(l)
        r[i] = v
        return r, 'ok', None
    if n in ('dels', 'sets'):
        a, b, c = op[1]
        if c == 0:
            return l, 'Value', None
        idxs = list(range(*slice(a, b, c).indices(size)))
        if n == 'dels':
            return [x for i, x in enumerate(l) if i not in idxs], 'ok', None
        vals = list(op[2])
        if len(vals) != len(idxs):
            return l, 'Value', None
        leaving = [l[i] for i in idxs]
        if any(v in l and v not in leaving for v in vals) or len(set(vals)) != len(vals):
            return l, 'Duplicate', None
        if P:
            if any(conflicts(l, v, leaving) for v in vals):
                return l, 'Conflict', None
            if any(conflicts(vals, v) for v in vals):
                return l, 'Conflict', None
        r = list(l)
        for i, v in zip(idxs, vals):
            r[i] = v
        return r, 'ok', None
    if n == 'sort':
        key = pred_key if P else None
        return sorted(l, key=key, reverse=bool(op[1])), 'ok', None
    if n == 'reverse':
        return l[::-1], 'ok', None
    if n == 'clear':
        return [], 'ok', None
    if n == 'copy':
        return list(l), 'ok', None
    if n in ('extend', 'update', 'ior'):
        r = list(l)
        for v in op[1]:
            if v in r:
                if n == 'extend':
                    return r, 'Duplicate', None
                continue
            if P and conflicts(r, v):
                return r, 'Conflict', None
            r.append(v)
        return r, 'ok', None
    if n == 'isub':
        return [x for x in l if x not in op[1]], 'ok', None
    if n == 'iand':
        o, out = build(kind, op[1])
        if out != 'ok':
            return l, out, None
        return [x for x in l if x in o], 'ok', None
    if n == 'ixor':
        o, out = build(kind, op[1])
        if out != 'ok':
            return l, out, None
        r = list(l)
        for v in o:
            if v in r:
                r.remove(v)
            else:
                if P and conflicts(r, v):
                    return r, 'Conflict', None
                r.append(v)
        return r, 'ok', None
    if n in ('or', 'plus'):
        r, out = build(kind, list(l) + list(op[1]))
        return l, out, (r if out == 'ok' else None)
    if n == 'and':
        r, out = build(kind, [v for v in op[1] if v in l])
        return l, out, (r if out == 'ok' else None)
    if n in ('sub', 'xor'):
        o, out = build(kind, op[1])
        if out != 'ok':
            return l, out, None
        r = [x for x in l if x not in o]
        if n == 'xor':
            r, out = build(kind, r + [x for x in o if x not in l])
        return l, out, (r if out == 'ok' else None)
    raise ValueError(op)


# --------------------------------------------------------------------------
# the real containers
# --------------------------------------------------------------------------

MAKE = dict(qset=qset, linqset=linqset, preds=Predicates)


def exc_kind(e: BaseException) -> str:
    if isinstance(e, DuplicateValueError):
        return 'Duplicate'
    if isinstance(e, MissingValueError):
        return 'Missing'
    if isinstance(e, IndexError):
        return 'Index'
    if isinstance(e, KeyError):
        return 'Key'
    if isinstance(e, TypeError):
        return 'Type'
    if isinstance(e, ValueError):
        return 'Conflict' if str(e).startswith('Value conflict') else 'Value'
    return 'crash:' + type(e).__name__


def real_step(kind, c, op):
    "Apply one operation to the real container.  Returns (container, outcome, ret)."
    n = op[0]
    pv = lambda x: pyval(kind, x)  # noqa: E731
    ret = None
    try:
        if n == 'append':
            c.append(pv(op[1]))
        elif n == 'add':
            c.add(pv(op[1]))
        elif n == 'insert':
            c.insert(op[1], pv(op[2]))
        elif n == 'wedge':
            c.wedge(pv(op[1]), pv(op[2]), op[3])
        elif n == 'remove':
            c.remove(pyref(op[1]) if kind == 'preds' else op[1])
        elif n == 'discard':
            c.discard(pv(op[1]))
        elif n == 'pop':
            ret = canon(kind, c.pop(op[1]))
        elif n == 'del':
            del c[op[1]]
        elif n == 'dels':
            del c[slice(*op[1])]
        elif n == 'set':
            c[op[1]] = pv(op[2])
        elif n == 'sets':
            c[slice(*op[1])] = [pv(x) for x in op[2]]
        elif n == 'sort':
            c.sort(reverse=bool(op[1]))
        elif n == 'reverse':
            c.reverse()
        elif n == 'clear':
            c.clear()
        elif n == 'copy':
            c = c.copy()
        elif n == 'extend':
            c.extend([pv(x) for x in op[1]])
        elif n == 'update':
            c.update([pv(x) for x in op[1]])
        elif n == 'ior':
            c |= [pv(x) for x in op[1]]
        elif n == 'iand':
            c &= [pv(x) for x in op[1]]
        elif n == 'isub':
            c -= [pv(x) for x in op[1]]
        elif n == 'ixor':
            c ^= [pv(x) for x in op[1]]
        elif n == 'or':
            ret = c | [pv(x) for x in op[1]]
        elif n == 'and':
            ret = c & [pv(x) for x in op[1]]
        elif n == 'sub':
            ret = c - [pv(x) for x in op[1]]
        elif n == 'xor':
            ret = c ^ [pv(x) for x in op[1]]
        elif n == 'plus':
            ret = c + [pv(x) for x in op[1]]
        # malformed stream
        elif n == 'setT':
            c['x'] = pv(op[1])
        elif n == 'delT':
            del c['x']
        elif n == 'appendU':
            c.append([0])
        elif n == 'setsN':
            c[slice(*op[1])] = 5
        else:
            raise InfraError(f'unknown op {op}')
    except InfraError:
        raise
    except Exception as e:  # noqa: BLE001 - classify whatever the container raises
        return c, exc_kind(e), None
    return c, 'ok', ret


class Obs:
    "Everything observed on a real container at one moment (canonical, comparable)."
    __slots__ = ('seq', 'aux', 'length', 'mem', 'idx', 'get', 'rev', 'lookup', 'getref',
                 'internal', 'extra')

    def snapshot(self):
        return (self.seq, self.aux, self.length, self.mem, self.idx, self.get, self.rev,
                self.lookup, self.getref, self.internal)


@functools.lru_cache(maxsize=None)
def obs_refs(kind, uni):
    return tuple(r for p in uni for r in pred_refs(p)) if kind == 'preds' else ()


def observe(kind, c, uni) -> Obs:
    o = Obs()
    cv = lambda x: canon(kind, x)  # noqa: E731
    o.seq = tuple(cv(x) for x in c)                      # forward iteration
    o.length = len(c)
    o.rev = tuple(cv(x) for x in reversed(c))
    n = len(o.seq)
    get = []
    for i in range(-n - 1, n + 1):
        try:
            get.append(cv(c[i]))
        except IndexError:
            get.append('I')
        except Exception as e:  # noqa: BLE001
            get.append('!' + type(e).__name__)
    o.get = tuple(get)
    members = [pyref(('p', p)) for p in uni] if kind == 'preds' else list(uni)
    o.mem = tuple(bool(m in c) for m in members)
    idx = []
    for m in members:
        try:
            idx.append(c.index(m))
        except MissingValueError:
            idx.append('M')
        except ValueError:
            idx.append('V')
        except Exception as e:  # noqa: BLE001
            idx.append('!' + type(e).__name__)
    o.idx = tuple(idx)
    o.lookup = None
    o.getref = None
    o.internal = []
    o.extra = {}
    if kind == 'qset' or kind == 'preds':
        o.aux = frozenset(cv(x) for x in c._set_)
        if o.aux != frozenset(cv(x) for x in c._seq_) or len(c._set_) != len(set(c._seq_)):
            o.internal.append(('stale-set', f'_set_={sorted(o.aux)} _seq_={list(map(cv, c._seq_))}'))
    if kind == 'preds':
        o.lookup = frozenset((canon_ref(k), cv(v)) for k, v in c._lookup.items())
        refs = obs_refs(kind, uni)
        gr, mr = [], []
        for r in refs:
            pr = pyref(r)
            mr.append(bool(pr in c))
            try:
                gr.append(cv(c.get(pr)))
            except KeyError:
                gr.append('K')
            except Exception as e:  # noqa: BLE001
                gr.append('!' + type(e).__name__)
        o.getref = tuple(gr)
        o.extra['memref'] = tuple(mr)
        want = frozenset((r, m) for m in o.seq for r in pred_refs(m))
        if o.lookup != want:
            o.internal.append(('stale-lookup', f'lookup differs from refs of members: '
                               f'extra={sorted(map(str, o.lookup - want))} missing={sorted(map(str, want - o.lookup))}'))
    if kind == 'linqset':
        table = c._linqset__table
        o.aux = frozenset(table)
        bad = [(k, lk.value) for k, lk in table.items() if lk.value != k]
        if bad:
            o.internal.append(('stale-table', f'table key -> link.value mismatch {bad}'))
        elif o.aux != frozenset(o.seq) or len(table) != len(o.seq):
            o.internal.append(('stale-table', f'table keys {sorted(table)} vs chain {list(o.seq)}'))
        else:
            # every table entry is the link that sits in the chain
            links, lk = [], c.__link_first__
            while lk is not None and len(links) <= n + 1:
                links.append(lk)
                lk = lk.next
            if any(table[x.value] is not x for x in links):
                o.internal.append(('stale-table', 'table entry is not the link in the chain'))
        # from every member, forward / backward iteration from the value
        ifv = []
        for v in o.seq:
            try:
                ifv.append((tuple(c.iter_from_value(v)), tuple(c.iter_from_value(v, reverse=True))))
            except Exception as e:  # noqa: BLE001
                ifv.append('!' + type(e).__name__)
        o.extra['ifv'] = tuple(ifv)
    return o


def check_obs(kind, o: Obs, ref, uni):
    """The property on one observed state, against the reference list `ref`.
    Returns a list of (symptom, observable?, detail); empty = holds."""
    bad = []
    seq = list(o.seq)
    aux = dict(qset='stale-set', linqset='stale-table', preds='stale-lookup')[kind]
    if len(set(seq)) != len(seq):
        bad.append(('duplicates', True, f'iteration yields {seq}'))
    want_mem = tuple(v in seq for v in uni)
    if o.mem != want_mem:
        bad.append((aux, True, f'membership {list(o.mem)} for {list(uni)} but iteration yields {seq}'))
    if kind == 'preds':
        for a, b in itertools.combinations(seq, 2):
            if a[:2] == b[:2] and a != b:
                bad.append(('arity-conflict', True, f'holds both {a} and {b}'))
                break
        refs = obs_refs(kind, uni)
        for r, got, isin in zip(refs, o.getref, o.extra['memref']):
            m = lookup_ref(seq, r)
            sysm = sys_of_ref(r)
            want = m if m is not None else (sysm if sysm is not None else 'K')
            if got != want or isin != (m is not None):
                bad.append((aux, True, f'reference {reftok(r)}: get -> {got}, in -> {isin}; members {seq}'))
                break
    for sym, det in o.internal:
        bad.append((sym, False, det))
    if o.length != len(seq):
        bad.append(('length', True, f'len {o.length} but iteration yields {len(seq)} items'))
    if seq != list(ref):
        bad.append(('order', True, f'iteration yields {seq}, list model has {list(ref)}'))
    want_idx = tuple(seq.index(v) if v in seq else 'M' for v in uni)
    if o.idx != want_idx:
        bad.append(('index', True, f'index() gives {list(o.idx)} for {list(uni)}, iteration yields {seq}'))
    n = len(seq)
    want_get = tuple(seq[i] if -n <= i < n else 'I' for i in range(-n - 1, n + 1))
    if o.get != want_get:
        bad.append(('getitem', True, f'c[i] gives {list(o.get)}, iteration yields {seq}'))
    if list(o.rev) != seq[::-1]:
        bad.append(('reversed', True, f'reversed iteration {list(o.rev)}, forward {seq}'))
    if kind == 'linqset':
        want = tuple((tuple(seq[i:]), tuple(seq[i::-1])) for i in range(n))
        if o.extra['ifv'] != want:
            bad.append(('iter-from-value', True, f'{o.extra["ifv"]} with forward {seq}'))
    return bad


# --------------------------------------------------------------------------
# canonical per-step record (the thing compared with the Lean driver)
# --------------------------------------------------------------------------

def lst(xs) -> str:
    xs = list(xs)
    return ','.join(xs) if xs else '-'


def state_str(kind, o: Obs) -> str:
    v = lambda x: vtok(kind, x)  # noqa: E731
    parts = [lst(map(v, o.seq)), lst(sorted(map(v, o.aux))), str(o.length)]
    if kind == 'preds':
        parts.append(lst(sorted(f'{reftok(r)}={v(p)}' for r, p in o.lookup)))
    return '|'.join(parts)


def record(kind, out, ret, o: Obs, uni) -> str:
    v = lambda x: vtok(kind, x)  # noqa: E731
    if out == 'ok' and ret is not None:
        out = 'ok=' + (state_str(kind, ret) if isinstance(ret, Obs) else v(ret))
    parts = [out, state_str(kind, o),
             ''.join('1' if b else '0' for b in (o.extra['memref'] if kind == 'preds' else o.mem)),
             lst(map(str, o.idx))]
    if kind == 'preds':
        parts.append(lst(x if isinstance(x, str) else v(x) for x in o.getref))
    return '/'.join(parts)


# --------------------------------------------------------------------------
# running one sequence on the implementation (oracle) — used by every stream and by replay
# --------------------------------------------------------------------------

class Step:
    __slots__ = ('op', 'out', 'rec', 'bad', 'ref', 'refout')


def run_real(kind, uni, ops, *, stop_on_bad=True):
    """Apply `ops` to a fresh real container; observe and check after every op.
    Returns the list of Step (ends at the first failing step if stop_on_bad)."""
    c = MAKE[kind]()
    ref: list = []
    steps = []
    before = observe(kind, c, uni)
    for op in ops:
        s = Step()
        s.op = op
        ref2, refout, refret = ref_step(kind, ref, op)
        c, out, ret = real_step(kind, c, op)
        o = observe(kind, c, uni)
        s.bad = []
        if out != 'ok' and op[0] not in BULK and o.snapshot() != before.snapshot():
            s.bad.append(('not-atomic', True, f'{enc_op(kind, op)} raised {out} but the container changed: '
                          f'{state_str(kind, before)} -> {state_str(kind, o)}'))
        if out != 'ok' and refout == 'ok' and op[0] not in BULK:
            # the list model performs the operation, the container refused it
            s.bad.append(('outcome', True, f'{enc_op(kind, op)} raised {out}; the list model performs it'))
            ref2 = ref
        retobs = None
        if op[0] in PURE and out == 'ok':
            retobs = observe(kind, ret, uni)
            rb = check_obs(kind, retobs, refret if refret is not None else retobs.seq, uni)
            s.bad.extend((f'result-{sym}', obs, det) for sym, obs, det in rb)
            if refout != 'ok':
                s.bad.append(('outcome', True, f'{enc_op(kind, op)} returned {list(retobs.seq)}; the list model raises {refout}'))
        s.bad.extend(check_obs(kind, o, ref2, uni))
        s.out, s.ref, s.refout = out, list(ref2), refout
        s.rec = record(kind, out, retobs if retobs is not None else ret, o, uni)
        steps.append(s)
        ref, before = ref2, o
        if s.bad and stop_on_bad:
            break
    return steps


def first_bad(steps):
    "(index, step) of the first step with any finding, observable or internal"
    for i, s in enumerate(steps):
        if s.bad:
            return i, s
    return None


def violates(steps) -> bool:
    "an *observable* failure somewhere in the run"
    return any(obs for s in steps for (_, obs, _) in s.bad)


def violating(kind, uni, ops) -> bool:
    return violates(run_real(kind, uni, ops, stop_on_bad=False))


def shrink(kind, uni, ops):
    "greedy: drop ops, then shorten value lists, while an observable failure remains"
    ops = list(ops)
    steps = run_real(kind, uni, ops, stop_on_bad=False)
    # cut after the first observable failure
    for i, s in enumerate(steps):
        if any(obs for _, obs, _ in s.bad):
            ops = ops[:i + 1]
            break
    changed = True
    while changed:
        changed = False
        for i in range(len(ops) - 1, -1, -1):
            cand = ops[:i] + ops[i + 1:]
            if cand and violating(kind, uni, cand):
                ops, changed = cand, True
    return ops


def classify(kind, uni, ops):
    "key + description of a violating sequence: the first op at which anything is off"
    steps = run_real(kind, uni, ops, stop_on_bad=False)
    i, s = first_bad(steps)
    sym, _, det = s.bad[0]
    key = f'{PROP}:{kind}:{opname(s.op)}:{sym}'
    shown = ' ; '.join(enc_op(kind, o) for o in ops)
    what = f'{kind}: after [{shown}] at op #{i + 1} ({enc_op(kind, s.op)}): {det}'
    obs = [d for st in steps for (_, ob, d) in st.bad if ob]
    if obs and obs[0] != det:
        what += f'; observable: {obs[0]}'
    return key, what


def signature(kind, steps):
    i, s = first_bad(steps)
    return (kind, opname(s.op), s.bad[0][0])


# --------------------------------------------------------------------------
# generators
# --------------------------------------------------------------------------

def alphabet(kind, level):
    """Operation alphabets over the small universe.
    level 'mini' (for the deepest enumeration) < 'core' < 'full'."""
    V = UNI[kind]['small']
    A = []
    add = A.append
    if level == 'mini':
        V2 = V[:2]
        for v in V2:
            add(('append', v))
        add(('insert', 0, V[2]))
        add(('remove', ('p', V[0]) if kind == 'preds' else V[0]))
        add(('discard', V[1]))
        add(('del', 0))
        add(('set', 0, V[1]))
        add(('set', -1, V[2]))
        add(('sets', (0, 2, None), (V[1], V[0])))
        add(('sets', (None, None, -1), (V[2], V[2])))
        add(('dels', (None, None, 2)))
        add(('reverse',))
        add(('ixor', (V[0], V[2])))
        if kind == 'linqset':
            add(('wedge', V[2], V[0], 1))
        else:
            add(('sort', 0))
        return A
    idx = (0, 1, -1) if level == 'core' else (0, 1, -1, 2, -3)
    for v in V:
        add(('append', v))
        add(('add', v))
        add(('discard', v))
        add(('remove', ('p', v) if kind == 'preds' else v))
        for i in idx:
            add(('insert', i, v))
            add(('set', i, v))
    if kind == 'preds':
        add(('remove', ('s', V[0])))
        add(('remove', ('b', V[0][:2])))
    for i in idx:
        add(('del', i))
    add(('pop', -1))
    add(('pop', 0))
    slices = [(None, None, None), (0, 1, None), (1, None, None), (None, None, 2), (None, None, -1)]
    if level == 'full':
        slices += [(0, 2, None), (-2, None, None), (None, None, 0), (2, 0, -1), (0, 0, None)]
    for sl in slices:
        add(('dels', sl))
    add(('sets', (0, 0, None), ()))
    add(('sets', (0, 1, None), ()))
    for v in V:
        add(('sets', (0, 1, None), (v,)))
        add(('sets', (-1, None, None), (v,)))
    pairs = list(itertools.product(V, V)) if level == 'full' else [(V[0], V[1]), (V[1], V[0]), (V[2], V[2]), (V[1], V[2])]
    for p in pairs:
        add(('sets', (0, 2, None), p))
        add(('sets', (None, None, -1), p))
        if level == 'full':
            add(('sets', (None, None, 2), p))
    if level == 'full':
        add(('sets', (None, None, 0), (V[0],)))
        add(('sets', (None, None, None), V))
        add(('sets', (None, None, None), (V[2], V[0], V[1])))
    if kind == 'linqset':
        for v, nb in itertools.product(V, V):
            if v != nb or level == 'full':
                add(('wedge', v, nb, 1))
                add(('wedge', v, nb, -1))
        add(('wedge', V[0], V[1], 0))
        add(('wedge', V[0], V[1], 2))
    else:
        add(('sort', 0))
        add(('sort', 1))
    add(('reverse',))
    add(('clear',))
    add(('copy',))
    bulk_args = [(V[0], V[1]), (V[1], V[2]), (V[2], V[2], V[0])] if level == 'core' else \
        [(), (V[0],), (V[0], V[1]), (V[1], V[0]), (V[1], V[2]), (V[2], V[2], V[0]), V]
    for name in ('extend', 'update', 'ior', 'iand', 'isub', 'ixor', 'or', 'and', 'sub', 'xor', 'plus'):
        for a in bulk_args:
            add((name, a))
    # malformed
    add(('setT', V[0]))
    add(('delT',))
    add(('appendU',))
    add(('setsN', (0, 1, None)))
    return A


def random_ops(kind, rng, length):
    "mostly-valid random sequence, steered by the reference list; ~6% malformed"
    U = UNI[kind]['big']
    ref: list = []
    ops = []

    def val(fresh=None):
        pool = [v for v in U if (v not in ref) == fresh] if fresh is not None else list(U)
        if kind == 'preds' and fresh:
            ok = [v for v in pool if not conflicts(ref, v)]
            if ok and rng.random() < 0.8:
                pool = ok
        return rng.choice(pool) if pool else rng.choice(U)

    def index():
        n = len(ref)
        return rng.randint(-n, n - 1) if n and rng.random() < 0.85 else rng.randint(-n - 2, n + 2)

    def slc():
        n = len(ref)
        part = lambda: None if rng.random() < 0.35 else rng.randint(-n - 2, n + 2)  # noqa: E731
        step = rng.choice([None, None, None, 1, 2, -1, -1, -2, 3, 0] if rng.random() < 0.5 else [None, 1, 2, -1])
        return (part(), part(), step)

    def vals(k=None):
        k = rng.randint(0, 4) if k is None else k
        return tuple(val() for _ in range(k))

    names = ['append', 'add', 'insert', 'remove', 'discard', 'pop', 'del', 'set', 'dels', 'sets',
             'reverse', 'clear', 'copy', 'extend', 'update', 'ior', 'iand', 'isub', 'ixor',
             'or', 'and', 'sub', 'xor', 'plus', 'malformed']
    weights = [10, 8, 10, 6, 5, 3, 4, 10, 4, 10, 3, 1, 2, 4, 3, 2, 2, 2, 3, 1, 1, 1, 1, 1, 4]
    if kind == 'linqset':
        names.append('wedge')
        weights.append(10)
    else:
        names.append('sort')
        weights.append(3)
    while len(ops) < length:
        n = rng.choices(names, weights)[0]
        valid = rng.random() < 0.8
        if n in ('append', 'add'):
            op = (n, val(fresh=True if valid else None))
        elif n == 'insert':
            op = (n, index(), val(fresh=True if valid else None))
        elif n == 'wedge':
            nb = rng.choice(ref) if ref and valid else val()
            op = (n, val(fresh=True if valid else None), nb, rng.choice([1, -1]) if rng.random() < 0.93 else rng.choice([0, 2, -2]))
        elif n == 'remove':
            v = rng.choice(ref) if ref and valid else val()
            if kind == 'preds':
                tag = rng.choice(['p', 'p', 'p', 's', 'b', 'd'] + (['n'] if v in SYSNAME else []))
                v = next(r for r in pred_refs(v) if r[0] == tag)
            op = (n, v)
        elif n == 'discard':
            op = (n, rng.choice(ref) if ref and valid else val())
        elif n in ('pop', 'del'):
            op = (n, index())
        elif n == 'set':
            op = (n, index(), val(fresh=True if valid and rng.random() < 0.8 else None))
        elif n == 'dels':
            op = (n, slc())
        elif n == 'sets':
            sl = slc()
            k = len(range(*slice(sl[0], sl[1], sl[2] or 1).indices(len(ref)))) if sl[2] != 0 else 1
            if valid:
                leaving = [ref[i] for i in range(*slice(*sl).indices(len(ref)))] if sl[2] != 0 else []
                pool = [v for v in U if v not in ref or v in leaving]
                rng.shuffle(pool)
                vs = tuple(pool[:k]) if len(pool) >= k and rng.random() < 0.85 else vals(k)
            else:
                vs = vals(k if rng.random() < 0.6 else None)
            op = (n, sl, vs)
        elif n == 'sort':
            op = (n, rng.random() < 0.4)
        elif n in ('reverse', 'clear', 'copy'):
            op = (n,)
        elif n == 'malformed':
            m = rng.choice(sorted(MALFORMED))
            op = (m, val()) if m == 'setT' else ((m, slc()) if m == 'setsN' else (m,))
            if m == 'setsN' and op[1][2] == 0:
                op = (m, (0, 1, None))
        else:
            op = (n, vals())
        ops.append(op)
        ref = ref_step(kind, ref, op)[0]
    return ops


# --------------------------------------------------------------------------
# the check
# --------------------------------------------------------------------------

class Runner:
    def __init__(self, ctx: Ctx, lean_ok: bool):
        self.ctx = ctx
        self.lean_ok = lean_ok
        self.pending: list[tuple[str, str, tuple, list, list[str]]] = []   # (kind, request, uni, ops, records)
        self.seen_sig: set = set()
        self.ops_hist: Counter = Counter()
        self.out_hist: Counter = Counter()
        self.len_hist: Counter = Counter()
        self.stream_hist: Counter = Counter()
        self.mismatches = 0
        self.nsample: Counter = Counter()
        self.mismatch_keys: dict[str, tuple] = {}

    # -- implementation side
    def report(self, kind, uni, ops, steps):
        """a run with findings.  One report per (kind, op, symptom) of the first thing that is
        off; if nothing is observable yet, short extensions are probed for a consequence."""
        sig = signature(kind, steps)
        if sig in self.seen_sig:
            return
        self.seen_sig.add(sig)
        if not violates(steps):
            # internal drift only so far: try to make it observable by extending (cheap probes)
            ops2 = self.make_observable(kind, uni, ops)
            if ops2 is None:
                _, s = first_bad(steps)
                self.ctx.fail(f'{PROP}:{kind}:{opname(s.op)}:{s.bad[0][0]}:internal',
                              f'{kind}: internal structures drift after [{" ; ".join(enc_op(kind, o) for o in ops)}]: '
                              f'{s.bad[0][2]} (no observable consequence found by the probes)',
                              dict(kind=kind, universe=list(uni), ops=ops), found_input=False)
                return
            ops = ops2
        small = shrink(kind, uni, ops)
        key, what = classify(kind, uni, small)
        self.seen_sig.add(tuple(key.split(':')[1:]))
        self.ctx.fail(key, what, dict(kind=kind, universe=[list(u) if isinstance(u, tuple) else u for u in uni],
                                      ops=[list(o) for o in small], request=enc_request(kind, uni, small)))

    def make_observable(self, kind, uni, ops):
        V = UNI[kind]['small']
        probes = [[('remove', ('p', v) if kind == 'preds' else v)] for v in V]
        probes += [[('append', v)] for v in V] + [[('discard', v), ('append', v)] for v in V]
        if kind == 'linqset':
            probes += [[('wedge', a, b, 1)] for a in V for b in V if a != b]
        for p in probes:
            cand = list(ops) + p
            if violating(kind, uni, cand):
                return cand
        for p, q in itertools.product(probes, probes):
            cand = list(ops) + p + q
            if violating(kind, uni, cand):
                return cand
        return None

    def case(self, kind, uni, ops, stream, *, queue=True):
        "one sequence: oracle now, Lean comparison queued.  Returns False if the oracle found something"
        steps = run_real(kind, uni, ops)
        self.account(kind, ops, steps, stream)
        if first_bad(steps) is not None:
            self.report(kind, uni, ops, steps)
            return False
        if queue:
            self.queue(kind, uni, ops, steps)
        return True

    def account(self, kind, ops, steps, stream):
        req = enc_request(kind, (), ops)
        self.ctx.count(req)
        self.stream_hist[f'{kind}:{stream}'] += 1
        self.len_hist[min(len(ops), 60) // 10 * 10] += 1
        for s in steps:
            self.ops_hist[f'{kind}:{s.op[0]}'] += 1
            self.out_hist[f'{kind}:{opname(s.op)}:{s.out}'] += 1

    def queue(self, kind, uni, ops, steps):
        req = enc_request(kind, uni, ops)
        self.pending.append((kind, req, uni, ops, [s.rec for s in steps]))
        if 3 <= len(ops) <= 8 and self.nsample[kind] < 4 and any(s.out != 'ok' for s in steps):
            self.nsample[kind] += 1
            self.ctx.sample(dict(request=req, implementation=[s.rec for s in steps]))
        if len(self.pending) >= 20000:
            self.flush()

    # -- model side
    def flush(self):
        pend, self.pending = self.pending, []
        if not pend or not self.lean_ok:
            return
        answers = drive([p[1] for p in pend])
        for (kind, req, uni, ops, recs), ans in zip(pend, answers):
            got = ans.split(' ; ')
            if got == recs:
                continue
            self.mismatches += 1
            i = next((j for j in range(min(len(got), len(recs))) if got[j] != recs[j]), min(len(got), len(recs)))
            op = ops[i] if i < len(ops) else ('?',)
            key = f'{PROP}:corr:{kind}:{opname(op)}'
            if key not in self.mismatch_keys:
                self.mismatch_keys[key] = (req, i, recs[i] if i < len(recs) else None, got[i] if i < len(got) else ans)

    def finish(self):
        self.flush()
        ctx = self.ctx
        for key, (req, i, real, model) in sorted(self.mismatch_keys.items()):
            ctx.fail(key, f'Lean model and implementation disagree at op #{i + 1} of [{req}]: implementation {real} / model {model}; '
                          f'the implementation-side oracle finds no property violation on this input '
                          f'(correspondence stream {key.split(":")[2]} no longer ties the model to the code)',
                     dict(request=req, step=i, implementation=real, model=model, correspondence=key), found_input=False)
        top = lambda c, n=400: dict(sorted(c.items())[:n])  # noqa: E731
        ctx.add_cov(streams=top(self.stream_hist), ops=top(self.ops_hist), outcomes=top(self.out_hist),
                    sequence_lengths={str(k): v for k, v in sorted(self.len_hist.items())},
                    model_mismatches=self.mismatches)


def enumerate_seqs(runner: Runner, kind, level, depth, stream):
    """Exhaustive sequences over an alphabet to a depth; every prefix is checked by the oracle
    (a failing prefix is reported once and not extended); maximal sequences go to the driver."""
    A = alphabet(kind, level)
    uni = UNI[kind]['small']

    def rec(prefix):
        for op in A:
            ops = prefix + [op]
            leaf = len(ops) == depth
            ok = runner.case(kind, uni, ops, stream, queue=leaf)
            if ok and not leaf:
                rec(ops)
    rec([])
    return len(A)


def corpus_cases():
    d = ROOT / 'corpus' / PROP
    if not d.is_dir():
        return
    for f in sorted(d.glob('*.json')):
        data = json.loads(f.read_text())
        yield f.name, data['kind'], parse_uni(data['kind'], data['universe']), parse_ops(data['ops'])


def parse_uni(kind, u):
    return tuple(tuple(x) if isinstance(x, list) else x for x in u)


def parse_ops(ops):
    def conv(x):
        return tuple(conv(y) for y in x) if isinstance(x, (list, tuple)) else x
    return [conv(o) for o in ops]


def run(ctx: Ctx):
    res = lean_phase(ctx, ['Ptx.Props.C18'])
    ctx.coverage['trusted_base'] += [
        'Python slice.indices / list semantics as transcribed in Ptx/Cont/Basic.lean (compared through the driver on every slice op)',
        'linkseq pointer surgery (_spot/_unlink/_link_at) modelled at list level; pointer consistency is observed '
        '(forward, reversed, iter_from_value, table entry is the chain link), not proved',
        'hash-set / dict iteration order not modelled (internal structures compared sorted)',
        'harness/props/c18.py: generators, canonicalisation, reference list model']
    ctx.coverage['rule'] = ('one evaluation = one operation sequence run on the real container with the oracle after every op '
                            '(and, for maximal sequences, diffed against the Lean driver step by step); '
                            'distinct = distinct (container, sequence)')
    ctx.assumptions.append('values are hashable with a consistent __eq__/__hash__ (ints; Predicate objects for the predicate store)')
    r = Runner(ctx, res.ok)

    for name, kind, uni, ops in corpus_cases():
        r.case(kind, uni, ops, 'corpus')

    # exhaustive
    plan = [('full', 2)] + ([('mini', 5)] if ctx.thorough else [('mini', 4)])
    sizes = {}
    for kind in KINDS:
        for level, depth in plan:
            n = enumerate_seqs(r, kind, level, depth, f'exhaustive-{level}-{depth}')
            sizes[f'{kind}:{level}'] = n
    ctx.add_cov(alphabet_sizes=sizes, exhaustive_plan=[f'{lv}^{d}' for lv, d in plan])

    # seeded random
    nrand = ctx.scale(400, 6000)
    for kind in KINDS:
        for i in range(nrand):
            length = ctx.rng.choice([8, 15, 30, 60]) if i % 4 else 60
            ops = random_ops(kind, ctx.rng, length)
            r.case(kind, UNI[kind]['big'], ops, 'random')
    r.finish()

    if not res.ok and not ctx.violations and not ctx.known_hit:
        decls = res.failed_decls()
        ctx.fail(f'{PROP}:lean:build', f'Lean build of Ptx.Props.C18 failed ({decls or res.log[-400:]}); '
                 f'no failing input found by the implementation-side oracle over all streams',
                 dict(theorem=[d for _, d in decls], log=res.log[-3000:]), found_input=False)
    elif not res.ok:
        ctx.notes.append(f'Lean build failed: {res.failed_decls()}')


def replay(data) -> int:
    "re-run a recorded sequence against the implementation-side oracle only (no Lean)"
    rp = data.get('replay', data)
    kind = rp['kind']
    uni = parse_uni(kind, rp['universe'])
    ops = parse_ops(rp['ops'])
    steps = run_real(kind, uni, ops, stop_on_bad=False)
    for i, s in enumerate(steps, 1):
        print(f'#{i} {enc_op(kind, s.op)} -> {s.rec}   [list model: {s.refout} {s.ref}]')
        for sym, obs, det in s.bad:
            print(f'    {"OBSERVABLE" if obs else "internal"} {sym}: {det}')
    if violates(steps):
        key, what = classify(kind, uni, ops)
        print(f'VIOLATION reproduced: {key} :: {what}')
        return 1
    print('no violation on this input')
    return 0
