"""
C19 — Every finished tableau renders, deterministically and faithfully.

0. Regeneration: the `text` string tables (harness/extract/symbols.py -> Ptx/Gen/Symbols.lean) and the marks of
   the text template (`probe_marks` below -> Ptx/Gen/RenderMarks.lean): the REAL `nodes.jinja2` is rendered on
   one node of each kind and the literals are read off; the probe also validates that the template has the
   shape the model assumes (uniform in the world number, fixed order of the parts).
1. Lean: Ptx.Props.C19 — faithfulness of the plain-text rendering against an independent reader, for every
   tree of a finished tableau; readability side conditions of the regenerated marks/tables by `decide +kernel`.
2. Correspondence: real finished tableaux (valid / invalid / premature by max_steps; modal, many-valued,
   first-order; quit flags; rule-example tableaux with ellipsis nodes) × text format × {polish, standard} ×
   LexWriter options × dialects: real `TabWriter('text', notation, **opts)(tab)` vs `render` of the Lean driver;
   and the Lean READER (`textread`) on the real text vs the harness-side reader.
3. Implementation-side oracle WITHOUT Lean (harness/props/_c19_worker.py) for every clause of the property on
   every registered format × notation: no exception, two renderings identical, text parsed back and compared
   with the tableau's branches.  A failure here is a VIOLATION with the tableau as replay; a mismatch of (2)
   alone is reported with found_input=False.
"""
from __future__ import annotations

import collections
import json
import os
import subprocess
from concurrent.futures import ThreadPoolExecutor

from .. import common, tabrun, wire
from ..common import LEAN, PY, ROOT, Ctx, InfraError, drive, lean_phase, write_if_changed

LEVEL = 'proof'
WORKER = 'harness.props._c19_worker'
GEN = LEAN / 'Ptx' / 'Gen'


# ---------------------------------------------------------------------------
# marks of the text template
# ---------------------------------------------------------------------------

class ProbeError(Exception):
    pass


MARK_FIELDS = ('world', 'desT', 'desF', 'acc1', 'acc2', 'ellipsis', 'tick', 'closure', 'sep', 'child', 'fork')


def probe_marks() -> dict:
    """Render the real template of the text writer on hand-made structures and read the literals off."""
    from types import SimpleNamespace as NS
    from pytableaux.lang import Atomic
    from pytableaux.proof import Node
    from pytableaux.proof.writers import TabWriter

    w = TabWriter('text', 'polish')
    tpl = w.get_template(w.template_name)
    a = Atomic(0, 0)
    S = w.lw(a)

    def node(ticked=False, **props):
        n = Node.for_mapping(props)
        if ticked:
            n.ticked = True
        return n

    def seg(nodes, depth=0, kids=False):
        return tpl.render(structure=NS(depth=depth, nodes=nodes, children=[NS()] if kids else []))

    def need(cond, what):
        if not cond:
            raise ProbeError(what)

    base = seg([node(sentence=a)])
    need(base.startswith(S) and len(base) > len(S), f'a bare sentence node renders as {base!r}')
    sep = base[len(S):]
    m = dict(sep=sep)

    def body(nodes_str, what):
        need(nodes_str.endswith(sep), f'{what}: {nodes_str!r} does not end with the separator {sep!r}')
        return nodes_str[:len(nodes_str) - len(sep)]

    r = body(seg([node(sentence=a, world=7)]), 'world node')
    need(r.startswith(S) and r.endswith('7') and len(r) > len(S) + 1, f'world node renders as {r!r}')
    m['world'] = r[len(S):-1]
    for wv in (0, 1, 12, 305):
        need(seg([node(sentence=a, world=wv)]) == S + m['world'] + str(wv) + sep,
             f'world {wv} is not written as {m["world"]!r}+{wv}: {seg([node(sentence=a, world=wv)])!r}')
    for key, val in (('desT', True), ('desF', False)):
        r = body(seg([node(sentence=a, designated=val)]), 'designation node')
        need(r.startswith(S) and len(r) > len(S), f'designated={val} renders as {r!r}')
        m[key] = r[len(S):]
    r1 = body(seg([node(world1=1, world2=2)]), 'access node')
    r2 = body(seg([node(world1=34, world2=56)]), 'access node')
    k = 0
    while k < min(len(r1), len(r2)) and r1[k] == r2[k]:
        k += 1
    m['acc1'] = r1[:k]
    need(r1[k:k + 1] == '1' and r1.endswith('2'), f'access node renders as {r1!r}')
    m['acc2'] = r1[k + 1:-1]
    need(r2 == m['acc1'] + '34' + m['acc2'] + '56', f'access node 34,56 renders as {r2!r}')
    need(seg([node(world1=0, world2=0)]) == m['acc1'] + '0' + m['acc2'] + '0' + sep, 'access node 0,0')
    m['ellipsis'] = body(seg([node(ellipsis=True)]), 'ellipsis node')
    r = body(seg([node(sentence=a, ticked=True)]), 'ticked node')
    need(r.startswith(S), f'ticked node renders as {r!r}')
    m['tick'] = r[len(S):]
    m['closure'] = seg([node(flag='closure', is_flag=True, closure=True)])
    need(seg([node(flag='quit', is_flag=True, quit=True)]) == sep, 'a quit flag node is not written as the bare separator')
    r = seg([node(sentence=a)], depth=1)
    need(r.endswith(base) and seg([node(sentence=a)], depth=5) == r, f'depth>0 renders as {r!r}')
    m['child'] = r[:len(r) - len(base)]
    r = seg([node(sentence=a)], kids=True)
    need(r.startswith(base), f'a structure with children renders as {r!r}')
    m['fork'] = r[len(base):]
    # the composition the model assumes
    full = seg([node(sentence=a, world=3, designated=False, ticked=True), node(world1=0, world2=1, ticked=True),
                node(ellipsis=True), node(flag='closure', is_flag=True, closure=True)], depth=2, kids=True)
    exp = (m['child'] + S + m['world'] + '3' + m['desF'] + m['tick'] + sep + m['acc1'] + '0' + m['acc2'] + '1' + m['tick'] + sep
           + m['ellipsis'] + sep + m['closure'] + m['fork'])
    need(full == exp, f'composition: {full!r} != {exp!r}')
    need(seg([]) == '' and seg([], depth=1, kids=True) == m['child'] + m['fork'], 'empty structures')
    return m


def lean_marks(m: dict, tables: list[str]) -> str:
    def cs(x):
        return '[' + ', '.join(str(ord(c)) for c in x) + ']'
    out = ['/- GENERATED by harness/props/c19.py from the running pytableaux (probe of proof/writers/templates/text/nodes.jinja2;',
           '   the `text` string tables of Ptx/Gen/Symbols.lean) — do not edit. -/',
           'import Ptx.Tab.Render', 'import Ptx.Gen.Symbols', 'namespace Ptx.Gen.RenderMarks', 'open Ptx.Render', '',
           'def textMarks : Marks where']
    out += [f'  {k} := {cs(m[k])}' for k in MARK_FIELDS]
    out += ['', 'def textTables : List Ptx.Sym.StringTable := [' + ', '.join(f'Ptx.Gen.Symbols.{t}' for t in tables) + ']',
            '', 'end Ptx.Gen.RenderMarks', '']
    return '\n'.join(out)


def regenerate(ctx: Ctx):
    """-> (marks or None, problem or None)"""
    from ..extract import symbols
    try:
        data = symbols.generate()
    except Exception as e:  # noqa
        return None, f'symbol tables: {type(e).__name__}: {e}'
    tables = sorted(d['name'] for d in data['strings'] if d['format'] == 'text')
    try:
        m = probe_marks()
    except ProbeError as e:
        return None, f'text template does not have the modelled shape: {e}'
    except Exception as e:  # noqa
        return None, f'probing the text template raised {type(e).__name__}: {e}'
    write_if_changed(GEN / 'RenderMarks.lean', lean_marks(m, tables))
    return m, None


# ---------------------------------------------------------------------------
# running jobs
# ---------------------------------------------------------------------------

_NOASLR = None


def no_aslr_prefix() -> list[str]:
    """`setarch <arch> -R`: lexical items hash by `hash((__class__, sort_tuple))`, and a class hashes by its address, so the
    iteration order of the constant / sentence sets (hence which constant a quantifier rule takes first) varies from process to
    process with address-space randomisation even under PYTHONHASHSEED=0 and the node/branch hook.  Without ASLR a worker is
    reproducible; if setarch is unavailable the verdict is unaffected, only the generated tableaux (and the evidence counts) vary."""
    global _NOASLR
    if _NOASLR is None:
        import platform
        import shutil
        found = []
        exe = shutil.which('setarch')
        if exe:
            cmd = [exe, platform.machine(), '-R']
            try:
                if subprocess.run(cmd + ['true'], capture_output=True, timeout=20).returncode == 0:
                    found = cmd
            except Exception:  # noqa
                pass
        _NOASLR = found
    return _NOASLR


def run_jobs(jobs, order_seed=0, nproc=None, timeout=3000):
    if not jobs:
        return []
    nproc = min(nproc or (os.cpu_count() or 4), len(jobs))
    chunks = [jobs[i::nproc] for i in range(nproc)]
    prefix = no_aslr_prefix()       # decided once, before the threads start
    env = dict(os.environ, PYTABLEAUX_VERIF='1', PYTABLEAUX_VERIF_ORDER=str(order_seed), PYTHONDONTWRITEBYTECODE='1',
               PYTHONHASHSEED='0')

    def work(chunk):
        # jobs and answers travel in files, not pipes: pipe reads/writes come in timing-dependent pieces, which shifts heap
        # addresses (and with them every id()-based hash, i.e. the tie-breaks of the proof search) from run to run
        import tempfile
        with tempfile.NamedTemporaryFile('w', suffix='.jsonl', prefix='c19_', delete=False) as fh:
            fh.write('\n'.join(json.dumps(j) for j in chunk) + '\n')
            path = fh.name
        opath = path[:-6] + '.out'
        text = ''
        try:
            p = subprocess.run(prefix + [PY, '-m', WORKER, path, opath], stdin=subprocess.DEVNULL,
                               capture_output=True, text=True, cwd=str(ROOT), env=env, timeout=timeout)
            if os.path.exists(opath):
                text = open(opath).read()
        finally:
            for f in (path, opath):
                try:
                    os.unlink(f)
                except OSError:
                    pass
        outs = [json.loads(l) for l in text.splitlines() if l.strip().startswith('{')]
        got = {o.get('id') for o in outs}
        for j in chunk:
            if j['id'] not in got:
                outs.append(dict(id=j['id'], error='worker died', traceback=p.stderr[-2000:], repo=str(common.REPO) in p.stderr))
        return outs

    with ThreadPoolExecutor(nproc) as ex:
        res = [o for outs in ex.map(work, chunks) for o in outs]
    by = {o['id']: o for o in res}
    return [by[j['id']] for j in jobs]


def logic_meta():
    from pytableaux.logics import registry
    out = {}
    for modname in sorted(registry.all()):
        lg = registry(modname)
        M = lg.Meta
        out[M.name] = dict(modal=bool(getattr(M, 'modal', False)), quantified=bool(getattr(M, 'quantified', False)),
                         marks=bool(getattr(M, 'many_valued', False)))
    return out


def rule_names(logic):
    from pytableaux.logics import registry
    from pytableaux.proof import Tableau
    return [type(r).__name__ for r in Tableau(registry(logic)).rules]


def fragments(meta):
    out = [dict(modal=False, quant=False, ident=False)]
    if meta['modal']:
        out += [dict(modal=True, quant=False, ident=False)] * 2
    if meta['quantified']:
        out.append(dict(modal=meta['modal'], quant=True, ident=True))
    return out


STD_OPTS = [dict(), dict(drop_parens=False), dict(identity_infix=False), dict(max_infix=3),
            dict(drop_parens=False, identity_infix=False, max_infix=3)]
DIALECTS = ['text', 'ascii', 'unicode']
HTML_OPTS = [dict(), dict(fulldoc=True), dict(wrapper=False), dict(inline_css=True), dict(classes=['x', 'y'], wrap_classes=['z'])]
LATEX_OPTS = [dict(), dict(fulldoc=True)]


def writer_variants(rng):
    """text: default polish + default standard + one random option/dialect set each; html/latex: default + one variant"""
    wv = [['polish', {}], ['standard', {}]]
    wv.append(['polish', dict(dialect=rng.choice(DIALECTS))])
    so = dict(rng.choice(STD_OPTS))
    if rng.random() < 0.5:
        so['dialect'] = rng.choice(DIALECTS)
    wv.append(['standard', so])
    dv = dict(html=[{}, rng.choice(HTML_OPTS[1:])], latex=[{}, rng.choice(LATEX_OPTS[1:])])
    return wv, dv


def fixed_arguments(meta):
    "a few hand-picked arguments per logic: closes at once / open / fork at the first step / modal / quantified loops"
    from pytableaux.lang import Parser
    p = Parser('polish')
    args = [('a', ['a']), ('b', ['a']), ('b', ['KaNa']), ('Aab', ['Aab']), ('a', ['Aab', 'Nb']), ('NKab', ['ANaNb'])]
    if meta['modal']:
        args += [('b', ['LMa']), ('LMa', ['b']), ('MNa', ['NLa']), ('LLa', ['La'])]
    if meta['quantified']:
        args += [('SxFx', ['Fm']), ('b', ['VxSyHxy']), ('Fn', ['VxFx', 'Imn'])]
    return [([p(x) for x in prem], p(conc)) for conc, prem in args]


def make_jobs(ctx: Ctx, metas, logics):
    from pytableaux.lang import Parser
    rng = ctx.rng
    jobs = []

    def add(**kw):
        wv, dv = writer_variants(rng)
        jobs.append(dict(id=len(jobs), wvariants=wv, dvariants=dv, **kw))

    cdir = ROOT / 'corpus' / 'C19'
    if cdir.exists():
        p = Parser('polish')
        for f in sorted(cdir.glob('*.json')):
            for c in json.loads(f.read_text()):
                if c.get('kind', 'arg') == 'arg':
                    j = tabrun.job_for(0, c['logic'], [p(x) for x in c['premises']], p(c['conclusion']), opts=c.get('opts') or {})
                    j.pop('id')
                    add(kind='arg', stream='corpus', max_steps=c.get('max_steps'), **j)
                else:
                    add(kind=c['kind'], stream='corpus', logic=c['logic'], rule=c.get('rule'), opts=c.get('opts') or {},
                        max_steps=c.get('max_steps'))
    limits = [None, None, None, None, 1, 2, 3, 5, 8, 20]      # (max_steps=0 means unlimited)
    nrand = ctx.scale(8, 60)
    nrule = ctx.scale(3, 10 ** 6)
    for lg in logics:
        meta = metas[lg]
        add(kind='empty', stream='fixed', logic=lg, opts={}, max_steps=None)
        fx = fixed_arguments(meta)
        if not ctx.thorough:
            fx = fx[:2] + rng.sample(fx[2:], min(3, len(fx) - 2))
        for prem, conc in fx:
            j = tabrun.job_for(0, lg, prem, conc, opts=dict(tabrun.OPTS[rng.randrange(4)]))
            j.pop('id')
            add(kind='arg', stream='fixed', max_steps=rng.choice([None, None, 40]) if not meta['quantified'] else 60, **j)
        fr = fragments(meta)
        for k in range(nrand):
            f = fr[k % len(fr)]
            prem, conc = tabrun.rand_argument(rng, depth=rng.choice([2, 2, 3, 3, 4] if not f['quant'] else [2, 2, 3]), **f)
            ms = rng.choice(limits)
            j = tabrun.job_for(0, lg, prem, conc, opts=dict(tabrun.OPTS[rng.randrange(4)]))
            j.pop('id')
            add(kind='arg', stream='random', models=rng.random() < 0.2, max_steps=ms if ms is not None else ctx.scale(40, 150), **j)
        rules = rule_names(lg)
        for r in (rules if len(rules) <= nrule else rng.sample(rules, nrule)):
            add(kind='rule', stream='rule-example', logic=lg, rule=r, opts={}, max_steps=None)
    return jobs


def job_text(job):
    d = dict(kind=job.get('kind'), logic=job['logic'], tableau_opts=job.get('opts'), max_steps=job.get('max_steps'))
    if job.get('kind') == 'arg':
        d.update(tabrun.arg_text(job))
    elif job.get('kind') == 'rule':
        d['rule'] = job['rule']
    return d


def subsentences(s):
    from pytableaux.lang import Operated
    return list(s.operands) if isinstance(s, Operated) else []


def shrink(job, key, seed):
    "a smaller argument on which the same clause still fails"
    if job.get('kind') != 'arg':
        return job
    cur = dict(job)
    for _ in range(5):
        cands = []
        prem, conc = cur['premises'], cur['conclusion']
        for i in range(len(prem)):
            cands.append(dict(cur, premises=prem[:i] + prem[i + 1:]))
        for i, p in enumerate(prem):
            for sub in subsentences(wire.dec_sent(p)):
                cands.append(dict(cur, premises=prem[:i] + [wire.enc_sent(sub)] + prem[i + 1:]))
        for sub in subsentences(wire.dec_sent(conc)):
            cands.append(dict(cur, conclusion=wire.enc_sent(sub)))
        cands = cands[:32]
        for n, c in enumerate(cands):
            c['id'] = n
        outs = run_jobs(cands, order_seed=seed)
        better = [c for c, o in zip(cands, outs) if any(v['key'] == key for v in o.get('viol', []))]
        if not better:
            break
        cur = min(better, key=lambda c: len(' '.join(c['premises'])) + len(c['conclusion']))
    return cur


def chars(s: str) -> str:
    return ','.join(str(ord(c)) for c in s) if s else '-'


def unchars(t: str) -> str:
    return '' if t == '-' else ''.join(chr(int(x)) for x in t.split(','))


def render_request(tree_wire, notn, wopts):
    d = wopts.get('dialect', 'text')
    return (f"render {'p' if notn == 'polish' else 's'} {d} {int(wopts.get('drop_parens', True))} "
            f"{int(wopts.get('identity_infix', True))} {int(wopts.get('max_infix', 0))} ## {tree_wire}")


def run(ctx: Ctx):
    marks, problem = regenerate(ctx)
    res = lean_phase(ctx, ['Ptx.Props.C19'])
    if not res.ok:
        for f, decl in res.failed_decls() or [('?', '?')]:
            ctx.notes.append(f'lean build failed at {f}:{decl}')
    metas = logic_meta()
    logics = sorted(metas)
    jobs = make_jobs(ctx, metas, logics)
    seeds = [0, 1] if not ctx.thorough else [0, 1, 2, 3]
    allouts = []
    for sd in seeds:
        sub = [j for i, j in enumerate(jobs) if i % len(seeds) == seeds.index(sd)]
        outs = run_jobs(sub, order_seed=sd)
        allouts += [(j, o, sd) for j, o in zip(sub, outs)]
    allouts.sort(key=lambda x: x[0]['id'])

    stats = collections.Counter()
    kinds = collections.Counter()
    fmt_notn = collections.Counter()
    per_logic = collections.Counter()
    h_nodes, h_br, h_depth = collections.Counter(), collections.Counter(), collections.Counter()
    wopt_seen = collections.Counter()
    good = []
    for j, o, sd in allouts:
        if 'error' in o:
            stats['build-exception'] += 1
            # building the tableau is not C19's subject; report only as a broken tie
            ctx.fail(f'C19:build-exception:{j["logic"]}:{o["error"].split(":")[0]}',
                     f'{j["logic"]}: building the tableau raised {o["error"][:200]} (not a rendering failure)',
                     dict(job=j, input=job_text(j), order_seed=sd, traceback=o.get('traceback'), correspondence='tableau construction'),
                     found_input=False)
            continue
        if o.get('notree'):
            stats['no-tree'] += 1
            continue
        ctx.count((j['kind'], j['logic'], tuple(j.get('premises') or ()), j.get('conclusion'), j.get('rule'),
                   json.dumps(j.get('opts'), sort_keys=True), j.get('max_steps'), sd), n=o['nrender'])
        stats['tableaux'] += 1
        stats['renderings'] += o['nrender']
        stats['stream:' + j['stream']] += 1
        stats['valid' if o['valid'] else 'invalid' if o['invalid'] else 'premature' if o['premature'] else 'no-argument'] += 1
        per_logic[j['logic']] += 1
        for k, v in o['kinds'].items():
            kinds[k] += v
        for fmt, notn, wopts, ok in o['renders']:
            fmt_notn[f'{fmt}/{notn}'] += 1
            wopt_seen[fmt + ':' + (','.join(f'{k}={v}' for k, v in sorted(wopts.items())) or 'default')] += 1
        h_nodes[min(o['tree_nodes'], 129) // 16 * 16] += 1
        h_br[min(o['nbranches'], 17) // 2 * 2] += 1
        h_depth[min(o['tree_depth'], 9)] += 1
        good.append((j, o, sd))
        for v in o['viol']:
            stats['oracle_violations'] += 1
            key = v['key']
            if any(x['key'] == key for x in ctx.violations) or ctx.match_known(key):
                ctx.fail(key, f'{j["logic"]}: {v["what"]}', dict(job=j, order_seed=sd))
                continue
            small = shrink(j, key, sd)
            so = run_jobs([dict(small, id=0)], order_seed=sd)[0]
            sv = [x for x in so.get('viol', []) if x['key'] == key] or [v]
            ctx.fail(key, f'{j["logic"]}: {sv[0]["what"]}',
                     dict(job=small, input=job_text(small), order_seed=sd, format=sv[0].get('format'), notation=sv[0].get('notation'),
                          writer_opts=sv[0].get('wopts'), text=sv[0].get('text'), traceback=sv[0].get('traceback'),
                          original=job_text(j)),
                     found_input=True)

    # ---- correspondence with the Lean model
    corr = collections.Counter()
    if res.ok:
        reqs, back = [], []
        for gi, (j, o, sd) in enumerate(good):
            for notn, wopts, text in o['texts']:
                if notn not in ('polish', 'standard'):
                    corr['render_skipped_unknown_notation'] += 1
                    continue
                reqs.append(render_request(o['tree'], notn, wopts))
                back.append((gi, 'render', notn, wopts, text))
            if o.get('read') is not None and o['texts']:
                reqs.append('textread ' + chars(o['texts'][0][2]))
                back.append((gi, 'read', o['texts'][0][0], o['texts'][0][1], None))
        answers = drive(reqs)
        for (gi, what, notn, wopts, text), a in zip(back, answers):
            j, o, sd = good[gi]
            if a == 'err:unknown-request':
                raise InfraError('the driver does not know the `render` request: Ptx/Drv/Render.lean is not registered in Driver/Main.lean')
            clean = not o['viol']
            if what == 'render':
                corr['render_compared'] += 1
                ok = a.startswith('ok ')
                wf, got = (a.split(' ')[1], unchars(a.split(' ')[2])) if ok else ('?', None)
                if ok and wf != '1':
                    corr['tree_not_wf'] += 1
                    if clean:
                        ctx.fail(f'C19:corr:tree-wf:{j["logic"]}',
                                 f'{j["logic"]}: the tree of a finished tableau violates the well-formedness hypothesis of C19_text_faithful '
                                 f'(depths / closure node last on closed leaves); the oracle found no clause of the property violated',
                                 dict(job=j, input=job_text(j), order_seed=sd, correspondence='render/tree-wf', tree=o['tree'][:3000]), found_input=False)
                if ok and len(a.split(' ')) > 3 and a.split(' ')[3] != '1':
                    corr['tree_not_regular'] += 1
                    if clean:
                        ctx.fail(f'C19:corr:tree-regular:{j["logic"]}',
                                 f'{j["logic"]}: a node of a finished tableau violates the regularity hypothesis of C19_render_injective '
                                 f'(node classes of proof/common.py: paired access worlds, constructible sentence, quit flag only on the bare '
                                 f'flag node, no empty node); the oracle found no clause of the property violated',
                                 dict(job=j, input=job_text(j), order_seed=sd, correspondence='render/tree-regular', tree=o['tree'][:3000]), found_input=False)
                if ok and got == text:
                    corr['render_agree'] += 1
                    continue
                corr['render_mismatch'] += 1
                if not clean:
                    continue        # the oracle reported a failing clause on this very tableau
                ctx.fail(f'C19:corr:render-text:{notn}',
                         f'{j["logic"]}: the Lean model of the text writer and TabWriter("text", "{notn}", **{wopts}) disagree; '
                         f'no clause of the property fails on this tableau',
                         dict(job=j, input=job_text(j), order_seed=sd, correspondence=f'render/text/{notn}', writer_opts=wopts,
                              model=(got if got is not None else a)[:3000], observed=text[:3000]), found_input=False)
            else:
                corr['read_compared'] += 1
                exp = 'ok {} {} {}'.format(int(o['read_clean']), ','.join(map(str, o['read_marks'])),
                                            '|'.join('/'.join(chars(p) for p in br) for br in o['read']))
                if a == exp:
                    corr['read_agree'] += 1
                    continue
                corr['read_mismatch'] += 1
                if not clean:
                    continue
                ctx.fail('C19:corr:reader',
                         f'{j["logic"]}: the Lean reader (Ptx.Render.readText) and the harness reader disagree on a real text rendering',
                         dict(job=j, input=job_text(j), order_seed=sd, correspondence='textread', model=a[:2000], observed=exp[:2000]),
                         found_input=False)

    if problem and not ctx.violations:
        ctx.fail('C19:extract:marks', f'regeneration of the text marks failed: {problem}; the oracle found no failing input',
                 dict(correspondence='probe_marks / Ptx.Gen.RenderMarks', problem=problem), found_input=False)
    elif problem:
        ctx.notes.append(f'regeneration of the text marks failed: {problem}')

    ctx.add_cov(
        run_stats=dict(stats), correspondence=dict(corr), logics=len(per_logic), tableaux_per_logic=dict(per_logic),
        formats_x_notations=dict(fmt_notn), writer_options_seen=dict(wopt_seen), node_kinds_seen=dict(kinds),
        text_marks=marks, order_seeds=seeds, workers_without_aslr=bool(no_aslr_prefix()),
        tree_nodes_histogram={f'{k}+': v for k, v in sorted(h_nodes.items())},
        branches_histogram={f'{k}+': v for k, v in sorted(h_br.items())},
        tree_depth_histogram={str(k): v for k, v in sorted(h_depth.items())},
        partial='C19 is PARTIAL: theorems cover the plain-text format (model of TextTabWriter + nodes.jinja2) only; "renders without '
                'error" and "twice identical" for text/html/latex and everything about html/latex are observed by the oracle, not proved',
        rule='streams: corpus; fixed (empty tableau + hand-picked arguments per logic); seeded random arguments per logic over '
             'propositional / modal / first-order+identity fragments with max_steps ∈ {1,2,3,5,8,20,40|150} and the 4 optimisation '
             'option sets; rule-example tableaux with the ellipsis helper (as the documentation builds them).  Every tableau is rendered '
             'in every registered format × {polish, standard} × (default + a random writer option set), each rendering three times; '
             'distinct = distinct (stream kind, logic, argument / rule, options, limit, order seed); evaluations = renderings checked')
    ctx.coverage['trusted_base'] += [
        'harness/props/_c19_worker.py: column reader `read_text`, per-node comparison against the tableau\'s branches with the library\'s LexWriter '
        'and the text markings table (oracle, no Lean)',
        'harness/props/c19.py probe_marks (reads the template literals by rendering one node of each kind; validates uniformity on worlds 0,1,12,305 '
        'and on a composite structure), harness/extract/symbols.py (string tables)',
        'Ptx/Drv/Render.lean (wire parsing of trees, table lookup by name)']
    ctx.assumptions += [
        'The Lean theorems are about Ptx.Render.renderText (hand-written model of TextTabWriter._write_structure + nodes.jinja2); Jinja2 itself '
        '(whitespace control, attribute lookup, Undefined) is not modelled — the tie is the sampled correspondence.',
        'html / latex writers, the doctree builder and translators are not modelled; "no exception" and "twice identical" are observations.',
        'C19_text_faithful assumes RTree.WF (only the root has depth 0; the closure node is the bare last node of exactly the closed leaves); '
        'the driver evaluates WF on every real tree sent (coverage key correspondence.tree_not_wf).',
        'C19_render_injective additionally assumes RNode.regular of every node (the node classes of proof/common.py with constructible sentences); '
        'the driver evaluates it on every real tree sent (coverage key correspondence.tree_not_regular).',
        'str(int) of a world number with more than 4300 digits would raise; not modelled.']
    for j, o, sd in good[:400:40]:
        ctx.sample(dict(input=job_text(j), order_seed=sd, branches=o['nbranches'], nodes=o['tree_nodes'],
                        text_polish=(o['texts'][0][2][:240] if o['texts'] else None)))
    if not res.ok and not ctx.violations:
        for f, decl in res.failed_decls() or [('?', '?')]:
            ctx.fail(f'C19:lean:{decl}', f'Lean build failed at {f} ({decl}); the oracle found no failing input on the implementation',
                     dict(theorem=decl, log=res.log[-3000:]), found_input=False)


def replay(data) -> int:
    rp = data.get('replay', {})
    job = rp.get('job')
    if not job:
        print('nothing to replay (no concrete input recorded):', data.get('what'))
        return 2
    out = run_jobs([dict(job, id=0)], order_seed=int(rp.get('order_seed', 0)))[0]
    print(json.dumps(job_text(job)))
    if 'error' in out:
        print('building the tableau raised', out['error'])
        print(out.get('traceback', ''))
        return 1
    print(f"{out.get('nbranches')} branches, {out.get('nsteps')} steps, {out.get('nrender')} renderings checked")
    for v in out.get('viol', []):
        print('VIOLATION', v['key'], '::', v['what'])
        if v.get('text'):
            print(v['text'])
        if v.get('traceback'):
            print(v['traceback'])
    if not out.get('viol'):
        print('oracle: no clause of the property violated on this input')
    return 1 if out.get('viol') else 0
