"""
C16 — A tableau's bookkeeping is consistent at every step.

1. Lean: Ptx.Props.C16 — step-level invariants of the calculus model with its event record (`Book`,
   Ptx/Tab/Tree.lean) for EVERY legal step of ANY logic data, lifted to every derivation from the trunk;
   theorems about the tree builder `Tree.build` (no exception path, one leaf per branch with the branch as
   its root-to-leaf path, counts, distinct nodes) and the statistics.
2. Implementation-side oracle (no Lean): real runs in worker processes (harness/props/_c16_worker.py);
   after the trunk and after EVERY rule application the tableau is observed only through the public API
   and the public events and the property's clauses are checked directly; after finishing, tree and
   statistics are recomputed independently.
3. Correspondence: the history of every run is replayed through the Lean model (`tree` request of
   Ptx/Drv/Tree.lean); the per-prefix observations (#branches, open view, branch lengths), the final
   stat record (recorded step numbers of additions, ticks, closures, parents), the finished tree
   (every field the property names) and the statistics (counts and result word) must agree exactly.
"""
from __future__ import annotations

import collections
import json
import os
import subprocess
from concurrent.futures import ThreadPoolExecutor

from .. import common, logicobl, tabrun, wire
from ..common import PY, ROOT, Ctx, InfraError, drive, lean_phase

LEVEL = 'proof'
WORKER = 'harness.props._c16_worker'


def run_jobs(jobs, order_seed=0, nproc=None, timeout=3000, module=WORKER):
    if not jobs:
        return []
    nproc = min(nproc or (os.cpu_count() or 4), len(jobs))
    chunks = [jobs[i::nproc] for i in range(nproc)]
    env = dict(os.environ, PYTABLEAUX_VERIF='1', PYTABLEAUX_VERIF_ORDER=str(order_seed), PYTHONDONTWRITEBYTECODE='1',
               PYTHONHASHSEED='0')

    prefix = common.no_aslr_prefix()      # decided once, before the threads start

    def work(chunk):
        p = subprocess.run(prefix + [PY, '-m', module], input='\n'.join(json.dumps(j) for j in chunk) + '\n',
                           capture_output=True, text=True, cwd=str(ROOT), env=env, timeout=timeout)
        outs = [json.loads(l) for l in p.stdout.splitlines() if l.strip().startswith('{')]
        got = {o.get('id') for o in outs}
        for j in chunk:
            if j['id'] not in got:
                outs.append(dict(id=j['id'], error='worker died', traceback=p.stderr[-2000:], repo=str(common.REPO) in p.stderr))
        return outs

    with ThreadPoolExecutor(nproc) as ex:
        res = [o for outs in ex.map(work, chunks) for o in outs]
    by = {o['id']: o for o in res}
    return [by[j['id']] for j in jobs]


def fragments(meta):
    out = [dict(modal=False, quant=False, ident=False)]
    if meta['modal']:
        out.append(dict(modal=True, quant=False, ident=False))
    if meta['quantified']:
        out.append(dict(modal=meta['modal'], quant=True, ident=not meta['marks']))
    if not meta['marks']:
        out.append(dict(modal=meta['modal'], quant=False, ident=True))
    return out


def make_jobs(ctx: Ctx, data, logics, per_logic):
    from pytableaux.lang import Parser
    jobs = []
    cdir = ROOT / 'corpus' / 'C16'
    if cdir.exists():
        p = Parser('polish')
        for f in sorted(cdir.glob('*.json')):
            for c in json.loads(f.read_text()):
                jobs.append(tabrun.job_for(len(jobs), c['logic'], [p(x) for x in c['premises']], p(c['conclusion']),
                                           opts=c.get('opts') or {}, mode=c.get('mode', 'step'), max_steps=c.get('max_steps', 200),
                                           stream='corpus'))
    rng = ctx.rng
    limits = [None, None, None, 1, 2, 3, 5, 8, 13, 30]
    for lg in logics:
        fr = fragments(data[lg])
        for k in range(per_logic):
            f = fr[k % len(fr)]
            prem, conc = tabrun.rand_argument(rng, depth=rng.choice([2, 2, 3, 3, 4] if not f['quant'] else [2, 2, 3]), **f)
            ms = rng.choice(limits)
            jobs.append(tabrun.job_for(len(jobs), lg, prem, conc, opts=dict(tabrun.OPTS[rng.randrange(4)]),
                                       mode=rng.choice(['build', 'step']), models=rng.random() < 0.25,
                                       max_steps=ms if ms is not None else ctx.scale(150, 600), stream='random'))
    return jobs


def subsentences(s):
    from pytableaux.lang import Operated, Quantified
    if isinstance(s, Operated):
        return list(s.operands)
    return []


def shrink(job, key, seed):
    "smaller argument on which the same clause still fails (drop premises, replace a sentence by an operand, lower the step limit)"
    cur = dict(job)
    for _ in range(6):
        cands = []
        prem, conc = cur['premises'], cur['conclusion']
        for i in range(len(prem)):
            cands.append(dict(cur, premises=prem[:i] + prem[i + 1:]))
        for i, p in enumerate(prem):
            for sub in subsentences(wire.dec_sent(p)):
                cands.append(dict(cur, premises=prem[:i] + [wire.enc_sent(sub)] + prem[i + 1:]))
        for sub in subsentences(wire.dec_sent(conc)):
            cands.append(dict(cur, conclusion=wire.enc_sent(sub)))
        cands = cands[:40]
        for n, c in enumerate(cands):
            c['id'] = n
        outs = run_jobs(cands, order_seed=seed)
        better = [c for c, o in zip(cands, outs) if any(v[0] == key for v in o.get('viol', []))]
        if not better:
            break
        cur = min(better, key=lambda c: len(' '.join(c['premises'])) + len(c['conclusion']))
    return cur


def run(ctx: Ctx):
    data = logicobl.regenerate()
    res = lean_phase(ctx, ['Ptx.Props.C16'])
    if not res.ok:
        for f, decl in res.failed_decls() or [('?', '?')]:
            ctx.notes.append(f'lean build failed at {f}:{decl}')
    logics = sorted(lg for lg in data if 'fatal' not in data[lg])
    per_logic = ctx.scale(24, 300)
    seeds = [0, 1] if not ctx.thorough else [0, 1, 2, 3]
    jobs = make_jobs(ctx, data, logics, per_logic)
    allouts = []
    for sd in seeds:
        sub = [j for i, j in enumerate(jobs) if i % len(seeds) == seeds.index(sd)]
        outs = run_jobs(sub, order_seed=sd)
        allouts += [(j, o, sd) for j, o in zip(sub, outs)]
    stats = collections.Counter()
    rules_seen = collections.Counter()
    hist_br = collections.Counter()
    hist_steps = collections.Counter()
    good = []
    for j, o, sd in allouts:
        if 'error' in o:
            stats['exception'] += 1
            ctx.fail(f'C16:run-exception:{j["logic"]}:{o["error"].split(":")[0]}', f'{j["logic"]}: the run raised {o["error"]}',
                     dict(job=j, argument=tabrun.arg_text(j), order_seed=sd, traceback=o.get('traceback')),
                     found_input=bool(o.get('repo')))
            continue
        if 'raised' in o:
            stats['exception'] += 1
            if not o['viol']:
                r = o['raised']
                ctx.fail(f'C16:run-exception:{r["error"].split(":")[0]}:{r["where"]}', f'{j["logic"]}: the run raised {r["error"][:200]}',
                         dict(job=j, argument=tabrun.arg_text(j), order_seed=sd, traceback=r.get('traceback')), found_input=bool(r.get('repo')))
            o = dict(o, nevents=0, nstructs=0, valid=None, invalid=None, nbranches=0, rules=[], request=None)
        else:
            good.append((j, o, sd))
        ctx.count((j['logic'], tuple(j['premises']), j['conclusion'], json.dumps(j['opts'], sort_keys=True), j['mode'], j['max_steps'], sd))
        stats['runs'] += 1
        stats['prefixes_checked'] += o['nsteps'] + 1
        stats['events'] += o['nevents']
        stats['structures'] += o['nstructs']
        stats['valid' if o['valid'] else 'invalid' if o['invalid'] else 'premature'] += 1
        stats['mode:' + j['mode']] += 1
        for r in o['rules']:
            rules_seen[r] += 1
        hist_br[min(o['nbranches'], 33) // 4 * 4] += 1
        hist_steps[min(o['nsteps'], 161) // 20 * 20] += 1
        for key, what, k in o['viol']:
            stats['oracle_violations'] += 1
            if any(v['key'] == key for v in ctx.violations) or ctx.match_known(key):
                ctx.fail(key, what, dict(job=j, order_seed=sd))
                continue
            small = shrink(j, key, sd)
            so = run_jobs([dict(small, id=0)], order_seed=sd)[0]
            sv = [v for v in so.get('viol', []) if v[0] == key]
            ctx.fail(key, f'{j["logic"]}: {sv[0][1] if sv else what}',
                     dict(job=small, argument=tabrun.arg_text(small), order_seed=sd, mode=small.get('mode'), max_steps=small.get('max_steps'),
                          after_step=sv[0][2] if sv else k, original=tabrun.arg_text(j)))
    # ---- correspondence with the Lean model
    corr_ok = 0
    if res.ok:
        # a final `P` tells the model that the run finished prematurely (result word of the statistics)
        answers = drive([o['request'] + (' ## P' if o['premature'] else '') for _, o, _ in good])
        for (j, o, sd), a in zip(good, answers):
            if a == 'err:unknown-request':
                raise InfraError('the driver does not know the `tree` request: Ptx/Drv/Tree.lean is not registered in Driver/Main.lean')
            exp = ('ok ' + o['obs'] + ' @@ ' + o['stat'] + ' @@ ' + (o['tree'] if o['tree'] is not None else 'none')
                   + ' @@ ' + o['stats'])
            if a == exp:
                corr_ok += 1
                continue
            stats['corr_mismatch'] += 1
            if o['viol']:
                continue        # the oracle already reported a failing clause on this very run
            part = 'replay'
            if a.startswith('ok '):
                for name, x, y in zip(('prefix-observations', 'stat-record', 'tree', 'stats'), a[3:].split(' @@ '), exp[3:].split(' @@ ')):
                    if x != y:
                        part = name
                        break
            # the oracle above looked at this very run and found no clause violated (else it is already reported)
            ctx.fail(f'C16:corr:{part}:{j["logic"]}', f'{j["logic"]}: model and implementation disagree on the {part}; '
                     f'no clause of the property fails on this run',
                     dict(job=j, argument=tabrun.arg_text(j), order_seed=sd, correspondence=f'tree/{part}', model=a[:3000], observed=exp[:3000]),
                     found_input=False)
    ctx.add_cov(runs_agreeing_with_model=corr_ok, run_stats=dict(stats), rules_fired=len(rules_seen),
                rules_histogram=dict(rules_seen.most_common(25)), logics=len(logics),
                branches_histogram={f'{k}+': v for k, v in sorted(hist_br.items())},
                steps_histogram={f'{k}+': v for k, v in sorted(hist_steps.items())},
                option_matrix='is_group_optim × is_rank_optim (4) × build/step × max_steps {1,2,3,5,8,13,30,none} × models on/off; order seeds ' + str(seeds),
                rule='seeded random arguments per logic over four fragments (propositional, modal, first-order, identity); distinct = '
                     'distinct (logic, argument, options, mode, limit, order seed); every prefix of every history is checked by the oracle; '
                     'every run is replayed through the Lean model and compared (prefix observations, stat record, tree, statistics)')
    ctx.coverage['trusted_base'] += [
        'harness/props/_c16_worker.py (observer: public API + public events only; independent recomputation of tree counts)',
        'harness/tabworker.enc_step (history entry → wire step), Ptx/Drv/Tree.lean (canonical dumps)']
    ctx.assumptions += [
        'Lean theorems are about the calculus model (any legal step of any logic data) with the event record Book; its tie to '
        'Tableau.__listen_on / Tree._build / _compute_stats is the sampled correspondence above.',
        'The tree theorems (no exception path in _build, one leaf per branch, distinct nodes) need that every rule adds at least '
        'one node on every branch it makes; this is kernel-checked for all generated logics on every run (C16_gen_addsNonempty).',
        'A few modal proofs pick different (equally ranked) rule applications in different processes even under the hash hook, so '
        'histograms may differ by a few units between runs of the same seed; the verdict does not (the theorems cover every order).',
        'EventEmitter dispatch order and re-entrant listeners are not modelled; user calls of Tableau.branch()/Branch.append outside rules are outside the property.',
        'STEP_ADDED of a node is recorded only on the branch it was appended to; tab.stat(child, inherited_node, STEP_ADDED) raises KeyError or returns '
        'the default Flag(0) (after a tick); the oracle reads node.step for inherited nodes.']
    for j, o, sd in good[:3]:
        ctx.sample(dict(argument=tabrun.arg_text(j), steps=o['nsteps'], branches=o['nbranches'], order_seed=sd, tree=(o['tree'] or '')[:300]))
    if not res.ok and not ctx.violations:
        for f, decl in res.failed_decls() or [('?', '?')]:
            ctx.fail(f'C16:lean:{decl}', f'Lean build failed at {f} ({decl}); the oracle found no failing input on the implementation',
                     dict(theorem=decl, log=res.log[-3000:]), found_input=False)


def replay(data) -> int:
    rp = data.get('replay', {})
    job = rp.get('job')
    if not job:
        print('nothing to replay')
        return 2
    out = run_jobs([dict(job, id=0)], order_seed=int(rp.get('order_seed', 0)))[0]
    if 'error' in out:
        print('run raised', out['error'])
        print(out.get('traceback', ''))
        return 1
    print(f"{job['logic']} {tabrun.arg_text(job)}: {out['nsteps']} steps, {out['nbranches']} branches")
    for v in out['viol']:
        print('VIOLATION', v)
    if not out['viol']:
        print('oracle: no clause of the property violated on this input')
    return 1 if out['viol'] else 0
