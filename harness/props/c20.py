"""
C20 — the published description of a model says what the model evaluates.

1. Lean: Ptx.Props.C20 (theorems about `LibModel.getData`, the mirror of BaseModel.get_data /
   Frame.get_data / PredicateInterpretation.having).
2. Correspondence: canonical dump of `get_data()` of real models — built directly by programs of
   set_*_value / R.add / finish calls, and read from open branches of real tableaux — against the
   driver's dump (`model … ## data`, `readbranch … ## data`), in the ORDER the export gives.
3. Implementation-side oracle (no Lean): every clause of the property on the real export — worlds and
   access pairs are exactly the model's, each listed atom / opaque has the value value_of gives, a tuple
   of model constants is in the exported extension (anti-extension) iff value_of of the predication is
   true-containing (false-containing), all lists sorted, two calls agree, value_of calls do not change it.
"""
from __future__ import annotations

import json
import os

from .. import common, wire
from ..common import Ctx, ROOT, drive, lean_phase
from . import _model as M
from . import c08 as C8

from pytableaux.logics import registry

LEVEL = 'proof'
PROP = 'C20'


def check_export(ctx: Ctx, c: dict, where: str) -> bool:
    m, lg = c['model'], c['logic']
    found = False
    for tail, what, detail in M.export_oracle(m, lg, late_access=bool(c.get('late_access')))[:8]:
        key = f'C20:{tail}:{lg}'
        ctx.fail(key, f'{lg} ({where}): {what}', dict(logic=lg, program=c.get('prog'), argument=c.get('argument'), nodes=c.get('nodes'),
                                                     ops=c.get('ops'), oracle='export vs value_of on the real model', **detail))
        # known findings are reproduced by the mirror: they do not explain a disagreement with it
        found = found or ctx.match_known(key) is None
    return found


def compare(ctx: Ctx, cases: list[dict], stream: str):
    """data dump of the real export vs the driver's"""
    todo = [c for c in cases if 'data' in c]
    if not todo:
        return
    answers = drive([c['request'] for c in todo])
    for c, ans in zip(todo, answers):
        parts = ans.split(' | ')
        lean = parts[1] if len(parts) > 1 else ans
        ok = lean == c['data'] and parts[0] == ','.join(c['outcomes'])
        found = check_export(ctx, c, stream)
        if not ok:
            if found:
                ctx.notes.append(f'{stream}: {c["logic"]}: export differs from the mirror (explained by a reported property failure)')
                continue
            save_corpus(c, stream)
            ctx.fail(f'C20:corr:{stream}:{c["logic"]}', f'{c["logic"]}: get_data() differs from the mirror: code {c["data"]!r}, model {lean!r}',
                     dict(logic=c['logic'], program=c.get('prog'), ops=c.get('ops'), nodes=c.get('nodes'), request=c['request'],
                          correspondence=stream, theorem='LibModel.getData', python=c['data'], lean=lean), found_input=False)


def save_corpus(c: dict, stream: str):
    if os.environ.get('VERIF_REPO'):
        return      # a scratch tree (mutation test): its failures do not belong into the committed corpus
    d = ROOT / 'corpus' / PROP
    try:
        d.mkdir(parents=True, exist_ok=True)
        key = abs(hash(c['request'])) % (10 ** 10)
        (d / f'{stream}-{c["logic"]}-{key}.json').write_text(json.dumps(dict(logic=c['logic'], program=c.get('prog'), ops=c.get('ops', []),
                                                                              nodes=c.get('nodes')), indent=1))
    except OSError:
        pass


def program_cases(ctx: Ctx, logics: list[str], mode: str) -> list[dict]:
    data = M.gen_data()
    out = []
    hist = {}
    for lg in logics:
        meta = data[lg]
        alpha = M.small_ops(meta)
        progs = [[a, b, ('fin',)] for a in alpha for b in alpha]
        if not ctx.thorough:
            ctx.rng.shuffle(progs)
            progs = progs[:30]
        progs += [M.rand_program(ctx.rng, meta) for _ in range(ctx.scale(25, 250))]
        for prog in progs:
            res = M.run_program(lg, prog, [], mode)
            # only the export is asked of the driver
            if 'data' in res:
                res['request'] = res['request'].split(' ## end')[0] + ' ## end ## data'
                out.append(res)
                n = res['data'].count(';') + res['data'].count(':')
                hist[min(n // 4, 6)] = hist.get(min(n // 4, 6), 0) + 1
                ctx.count(('export', lg, tuple(res['prog'])))
                if len(ctx.coverage['samples']) < 5:
                    ctx.sample(dict(logic=lg, program=res['prog'], export=res['data']))
    ctx.add_cov(export_size_histogram=hist)
    return out


def corpus_cases(ctx: Ctx, mode: str) -> list[dict]:
    d = ROOT / 'corpus' / PROP
    out = []
    if not d.exists():
        return out
    for p in sorted(d.glob('*.json')):
        try:
            j = json.loads(p.read_text())
        except Exception:  # noqa
            continue
        prog = [M.dec_op(t) for t in j.get('ops') or []]
        if not prog or any(o is None for o in prog) or j.get('logic') not in M.gen_data():
            continue
        res = M.run_program(j['logic'], prog, [], mode)
        if 'data' in res:
            res['request'] = res['request'].split(' ## end')[0] + ' ## end ## data'
            out.append(res)
            ctx.count(('corpus', p.name))
    return out


def run(ctx: Ctx):
    M.gen_data()
    res = None
    if not os.environ.get('VERIF_SKIP_LEAN'):
        res = lean_phase(ctx, ['Ptx.Props.C20'])
    else:
        common.lake_build(['ptxdrv'])
    mode = M.cpl_mode()
    logics = M.all_logics() if ctx.thorough else M.quick_spread(ctx.rng)
    ctx.add_cov(logics=logics, nlogics=len(logics), cpl_finish_mode=mode,
                rule='distinct = distinct (logic, program) / (logic, branch) exports compared')
    if res is not None and not res.ok:
        for f, name in res.failed_decls() or [('Ptx/Props/C20.lean', '?')]:
            ctx.fail(f'C20:lean:{f}:{name}', f'{f}: {name} does not build', dict(theorem=name, log=res.log[-2500:]), found_input=False)
    compare(ctx, corpus_cases(ctx, mode), 'corpus')
    compare(ctx, program_cases(ctx, logics, mode), 'programs')
    # models read from open branches of real tableaux
    te: dict = {}
    cases, _ = C8.branch_stream(ctx, logics, mode, te, prop='C20')
    for c in cases:
        if 'data' in c:
            c['request'] = c['request'].split(' ## end')[0] + ' ## end ## data'
    compare(ctx, cases, 'branches')
    ctx.assumptions += [
        'get_data() is taken right after finish / read_branch, before any value_of call (value_of creates frames and '
        'interpretations in modal models; the oracle checks separately that evaluating the model\'s own vocabulary does not change the export)',
        'the model\'s worlds are the keys of model.R, its access pairs the members of model.R',
    ]
    ctx.coverage['trusted_base'] += ['harness/props/_model.py: canonical dump of get_data(), export oracle']


def replay(data: dict) -> int:
    """re-run a recorded program against the export oracle only (no Lean, no driver)"""
    r = data.get('replay', {})
    lg = r.get('logic')
    print(json.dumps(dict(key=data.get('key'), what=data.get('what')), indent=1, ensure_ascii=False))
    ops = r.get('ops')
    if not lg or not ops:
        print('nothing to re-run for this entry (see the recorded detail: argument / nodes)')
        return 0
    prog = [M.dec_op(t) for t in ops]
    c = M.run_program(lg, prog, [], 'replay')
    for t, o in zip(c['prog'], c['outcomes']):
        print(t, '->', o)
    m = c['model']
    bad = 0
    if m.finished:
        print('export:', M.data_dump(m))
        print('model :', M.racc_dump(m))
        for tail, what, _ in M.export_oracle(m, lg, late_access=bool(c.get('late_access'))):
            print('FAILS', tail, what)
            bad = 1
    return bad
