"""
C05 — branches close exactly when their literals are unsatisfiable.

Deciding method: for every logic the closure behaviour on EVERY set of literal constraints on
one sentence at one world ({s+, s−, ¬s+, ¬s−} resp. {s, ¬s}: 16 resp. 4 subsets) and the value
the model builder reads off every open set are regenerated from the running code (real branches,
real closure rules, real `read_branch`), and the Lean kernel evaluates per logic
    closure_total, closure_exact (closes ⇔ no value of the logic satisfies all literals),
    read_total, read_exact (the value read satisfies every literal of the open set),
    sound_core ⊇ identOKB (¬a=a and ¬E!a close and are unsatisfiable in classical structures; a=a, ¬a=b, E!a do not close).
The lift to branches of arbitrary sentences in arbitrary structures is `closing_unsat`
(Ptx/Proofs/Sound.lean), restated in Ptx/Props/C05.lean.
"""
from __future__ import annotations

import json

from .. import logicobl
from ..common import Ctx

LEVEL = 'proof'
THMS = ['closure_total', 'closure_exact', 'read_total', 'read_exact', 'sound_core']


def _lits(tok: str):
    out = []
    for t in tok.strip('{}').split(','):
        if not t:
            continue
        ng = t.startswith('~')
        d = True if t.endswith('+') else False if t.endswith('-') else None
        out.append((ng, d))
    return out


def confirm_closure(lg: str, S):
    from pytableaux.logics import registry
    from ..extract import probe
    logic = registry(lg)
    ev = logicobl.SpecEval(lg)
    closed, rname, tab = probe.closure_probe(logic, S)
    sat_vals = [v for v in ev.vals if all(ev.sat(d, ev.f('Negation', v) if ng else v) for ng, d in S)]
    det = dict(logic=lg, literals=[('~s' if ng else 's') + ('' if d is None else '+' if d else '-') for ng, d in S],
               branch_closes=closed, closing_rule=rname, satisfying_values=sat_vals)
    return (closed and bool(sat_vals)) or (not closed and not sat_vals), det


def h_closure(ctx: Ctx, lg: str, toks):
    S = _lits(toks[0])
    ok, det = confirm_closure(lg, S)
    det['theorem'] = f'Ptx.Gen.Obl.{lg}.closure_exact'
    return (f'C05:closure_exact:{lg}:{toks[0]}',
            f'{lg}: literal set {toks[0]} closes={det["branch_closes"]} but satisfying values are {det["satisfying_values"]}', det, ok)


def h_read(ctx: Ctx, lg: str, toks):
    from pytableaux.logics import registry
    from ..extract import probe
    S = _lits(toks[0])
    logic = registry(lg)
    ev = logicobl.SpecEval(lg)
    closed, _, tab = probe.closure_probe(logic, S)
    val = None
    if not closed:
        tab.build()
        m = logic.Model().read_branch(tab[0])
        val = str(m.value_of(probe.A, world=0) if logic.Meta.modal else m.value_of(probe.A))
    bad = val is not None and not all(ev.sat(d, ev.f('Negation', val) if ng else val) for ng, d in S)
    return (f'C05:read_exact:{lg}:{toks[0]}', f'{lg}: the model builder reads {val} off the open literal set {toks[0]}, which does not satisfy it',
            dict(logic=lg, literals=toks[0], value_read=val, theorem=f'Ptx.Gen.Obl.{lg}.read_exact'), bad)


def h_simple(cat):
    def h(ctx, lg, toks):
        if cat == 'sound_core' and toks and toks[0] not in ('closure_sound', 'ident'):
            return None
        return (f'C05:{cat}:{lg}:{"_".join(toks)[:60]}', f'{lg}: {cat} fails: {" ".join(toks)}',
                dict(logic=lg, theorem=f'Ptx.Gen.Obl.{lg}.{cat}', row=toks), False)
    return h


def h_issue(ctx, lg, issue):
    if 'closure' in issue or 'FATAL' in issue:
        return (f'C05:extract:{lg}:{issue[:70]}', f'{lg}: {issue}', dict(logic=lg, issue=issue), True)
    return None


def ident_oracle(ctx: Ctx, data):
    """implementation side of the identity / existence clause, directly on real branches"""
    n = 0
    for lg, d in sorted(data.items()):
        if 'fatal' in d:
            continue
        idn = d['ident']
        classical = not d['marks']
        n += 5
        ctx._distinct.add(f'ident:{lg}')
        if classical:
            if not idn['selfIdNeg']:
                ctx.fail(f'C05:ident:{lg}:selfIdNeg-open', f'{lg}: a branch with ~a=a stays open', dict(logic=lg, node='~ a = a'), found_input=True)
            if not idn['nonExist']:
                ctx.fail(f'C05:ident:{lg}:nonExist-open', f'{lg}: a branch with ~E!a stays open', dict(logic=lg, node='~ E!a'), found_input=True)
        for k in ('selfIdNeg', 'nonExist'):
            if idn.get(k + '_irregular'):
                ctx.fail(f'C05:ident:{lg}:{k}-irregular', f'{lg}: the {k} closure depends on which constant is used (closes for some of a, d3, a1 only)',
                         dict(logic=lg, ident=idn), found_input=True)
        for k, txt in (('selfId', 'c = c'), ('distinctNeg', '~ c = d for distinct constants (a/b, a/a1, a1/a2, a1/b1, a/d3)'), ('exist', 'E!c')):
            if idn[k]:
                ctx.fail(f'C05:ident:{lg}:{k}-closes', f'{lg}: a branch with the satisfiable literal {txt} closes', dict(logic=lg, node=txt), found_input=True)
        if not classical and (idn['selfIdNeg'] or idn['nonExist']):
            # many-valued logics give Identity / Existence no special meaning: such a literal is satisfiable
            ctx.fail(f'C05:ident:{lg}:closes-in-many-valued', f'{lg}: identity/existence closure in a logic without classical identity',
                     dict(logic=lg, ident=idn), found_input=True)
    return n


def mapping_oracle(ctx: Ctx, data):
    """Branch.append accepts a node or a MAPPING; literal nodes that reach a branch as plain mappings must close and be
    read by the model builder exactly like the ones built by the node factories (the regenerated closure / read table)."""
    from pytableaux.logics import registry
    from pytableaux.lang import Argument
    from pytableaux.proof import Tableau
    from ..extract import probe
    n = 0
    for lg, d in sorted(data.items()):
        if 'fatal' in d:
            continue
        logic = registry(lg)
        modal = logic.Meta.modal
        reads = {json.dumps(S): v for S, v in d['reads']}
        for S, closes in d['closure']:
            if not S:
                continue
            n += 1
            tab = Tableau(logic, Argument(probe.Z2, [probe.Z1]))
            b = tab[0]
            for ng, des in S:
                m = dict(sentence=~probe.A if ng else probe.A)
                if des is not None:
                    m['designated'] = bool(des)
                if modal:
                    m['world'] = 0
                b.append(m)
            tab.step()
            key = f'{lg}:{json.dumps(S)}'
            if b.closed != closes:
                ctx.fail(f'C05:mapping-node:{lg}:closure', f'{lg}: literal nodes {S} appended as mappings close={b.closed}, the same literals built by the '
                         f'node factories close={closes}', dict(logic=lg, literals=S, via='Branch.append(mapping)'), found_input=True)
                continue
            if not b.closed and json.dumps(S) in reads:
                try:
                    tab.build()
                    mod = logic.Model().read_branch(b)
                    val = str(mod.value_of(probe.A, world=0) if modal else mod.value_of(probe.A))
                except Exception as e:  # noqa
                    val = f'{type(e).__name__}: {e}'
                if val != reads[json.dumps(S)]:
                    ctx.fail(f'C05:mapping-node:{lg}:read', f'{lg}: the model builder reads {val} off the open literal set {S} appended as mappings; '
                             f'off factory-built nodes it reads {reads[json.dumps(S)]}', dict(logic=lg, literals=S, via='Branch.append(mapping)'),
                             found_input=True)
    return n


def run(ctx: Ctx):
    data = logicobl.regenerate()
    cats = dict(closure_exact=h_closure, read_exact=h_read, closure_total=h_simple('closure_total'),
                read_total=h_simple('read_total'), sound_core=h_simple('sound_core'), __issue__=h_issue)
    logicobl.decide_rows(ctx, cats, THMS, extra_modules=['Ptx.Props.C05'])
    n = ident_oracle(ctx, data)
    n += mapping_oracle(ctx, data)
    # equal literals need not be the same objects: the closure / read tables and the identity closers extracted with the
    # lexical item cache off (every construction a new object) must be what they are with the cache on
    off = [(lg, k, det) for lg, k, det in logicobl.cache_off_diff() if k in ('closure', 'reads', 'ident', 'missing')]
    for lg, k, det in off:
        ctx.fail(f'C05:cache-off:{lg}:{k}', f'{lg}: with ITEM_CACHE_SIZE=0 (equal sentences / constants are distinct objects) the extracted {k} '
                 f'differs from the default one: {det[:400]}', dict(logic=lg, field=k, env=dict(ITEM_CACHE_SIZE='0'), detail=det,
                 how='python -m harness.extract.gen under ITEM_CACHE_SIZE=0 vs default'), found_input=True)
    ctx.add_cov(cache_off_extraction='closure / reads / ident of all logics re-extracted with ITEM_CACHE_SIZE=0 and compared', cache_off_differences=len(off))
    n += len(data)
    rows = 0
    for lg, d in data.items():
        if 'fatal' in d:
            continue
        nv = len(d['tables']['vals'])
        for S, c in d['closure']:
            rows += nv
            ctx._distinct.add(f'{lg}:{S}')
    ctx.coverage['evaluations'] = rows + n
    ctx.add_cov(exhaustive=True, rule='every (logic, subset of literal constraints on one sentence at one world) × every truth value, '
                'evaluated by the kernel on the regenerated closure / read tables; plus identity/existence literals per logic; '
                'distinct = distinct (logic, literal subset)', closure_rows=rows)
    ctx.sample(dict(logic='K3', closure=data['K3']['closure'][:6], reads=data['K3']['reads'][:3]) if 'K3' in data else {})
    ctx.assumptions += ['closure is local to one sentence at one world (each closure rule looks at one node and one partner node); '
                        'extraction validates that atom / predication behave alike and that cross-world pairs do not close',
                        'semantics = documented tables (negation table) of Spec.lean']
