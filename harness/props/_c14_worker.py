"""
Worker for the cache part of C14.  Runs in its OWN process because `ITEM_CACHE_SIZE` is read
when pytableaux.lang.lex is imported.  stdin: one JSON list per line = a sequence of calls in
the arg encoding of lean/Ptx/Drv/Lex.lean (`<Cls> <n> <arg>*n`).  stdout: one JSON object per
line: {"warm": [...], "fresh": [...], "state": "q=.. idx=.. rev=.."}

  warm   results of the calls run one after the other against ONE cache that starts empty
  fresh  results of the same calls, the cache emptied before EVERY call (a fresh build)

A result is `ok <item encoding>` | `err:<kind>`.  Items mentioned inside arguments are decoded
(which itself constructs them, through the cache) BEFORE the cache is emptied, so that the run
starts from an empty cache exactly as the model does.
"""
from __future__ import annotations

import json
import os
import sys


def main():
    repo = os.environ.get('VERIF_REPO', '/repo')
    root = os.environ['VERIF_ROOT']
    sys.path.insert(0, repo)
    sys.path.insert(0, root)
    try:
        import pytableaux.lang  # noqa: F401
    except BaseException as e:  # noqa
        print(json.dumps(dict(import_error=f'{type(e).__name__}: {e}')), flush=True)
        return
    from harness.props import lexwire as lw
    from pytableaux.lang import (Atomic, Constant, CoordsItem, LexicalAbc, Operated, Parameter,
                                 Predicate, Predicated, Quantified, Sentence, Variable)
    from pytableaux.lang import LexicalAbcMeta
    cache = LexicalAbcMeta.__call__._cache
    classes = dict(Predicate=Predicate, Constant=Constant, Variable=Variable, Atomic=Atomic,
                   Predicated=Predicated, Quantified=Quantified, Operated=Operated,
                   LexicalAbc=LexicalAbc, CoordsItem=CoordsItem, Parameter=Parameter, Sentence=Sentence)
    try:
        sys_by_spec = Predicate((-1, 0, 2)) is Predicate.Identity
    except Exception:  # noqa
        sys_by_spec = False
    print(json.dumps(dict(ready=True, maxlen=cache.queue.maxlen, sys_by_spec=sys_by_spec)), flush=True)

    def dec_arg(ts):
        k = ts.pop(0)
        if k == 'i':
            return int(ts.pop(0))
        if k.startswith('s:'):
            return k[2:].replace('_', ' ')
        if k == 't':
            n = int(ts.pop(0))
            return tuple(dec_arg(ts) for _ in range(n))
        if k == 'x':
            return lw.dec_item_toks(ts)
        raise ValueError(k)

    def dec_call(text):
        ts = text.split()
        cls = classes[ts.pop(0)]
        n = int(ts.pop(0))
        args = tuple(dec_arg(ts) for _ in range(n))
        if ts:
            raise ValueError(ts)
        return cls, args

    kinds = {TypeError: 'type', ValueError: 'value', AttributeError: 'attr', KeyError: 'key',
             IndexError: 'index'}

    def run(cls, args):
        try:
            x = cls(*args)
        except Exception as e:  # noqa
            for t, k in kinds.items():
                if type(e) is t:
                    return 'err:' + k
            return 'err:crash:' + type(e).__name__
        if type(x) in (Constant, Variable, Atomic) and x.index < 0:
            return 'err:negindex'
        try:
            return 'ok ' + lw.enc_item(x)
        except Exception as e:  # noqa
            return 'err:unencodable:' + type(e).__name__

    def clear():
        cache.queue.clear()
        cache.idx.clear()
        cache.rev.clear()

    for line in sys.stdin:
        line = line.strip()
        if not line:
            continue
        seq = json.loads(line)
        calls = [dec_call(c) for c in seq]
        clear()
        warm = [run(c, a) for c, a in calls]
        state = f'q={len(cache.queue)} idx={len(cache.idx)} rev={len(cache.rev)}'
        shape = (list(cache.rev) == list(cache.queue) and len(cache.queue) <= cache.queue.maxlen
                 and all(v in ks and all(cache.idx.get(k) is v or cache.idx.get(k) == v for k in ks)
                         for v, ks in cache.rev.items())
                 and all(v in cache.rev and k in cache.rev[v] for k, v in cache.idx.items()))
        fresh = []
        for c, a in calls:
            clear()
            fresh.append(run(c, a))
        clear()
        print(json.dumps(dict(warm=warm, fresh=fresh, state=state, shape=bool(shape))), flush=True)


if __name__ == '__main__':
    main()
