"""
C13 — parsers accept only closed well-formed sentences and fail only with ParseError.

Proof:  lean/Ptx/Props/C13.lean (model: lean/Ptx/Lang/Parse*.lean).
Tie:    symbol tables regenerated from the running code (harness/extract/symbols.py) with their
        side-conditions re-proved by `decide +kernel`; the hand-written parser models are run
        against the real `Parser` objects on the streams below.
Search: implementation-side oracles (no Lean): exception class, independent well-formedness
        walk, history independence against a fresh parser with the same store.
"""
from __future__ import annotations

import json

from ..common import ROOT, lean_phase
from . import _parse as P

LEVEL = 'proof'
PROP = 'C13'


# ---------------------------------------------------------------------------
# one case = (spec, initial store, sequence of input strings) on ONE parser
# ---------------------------------------------------------------------------

class Case:
    __slots__ = ('spec', 'store', 'texts', 'stream', 'deep')

    def __init__(self, spec, store, texts, stream, deep=False):
        self.spec, self.store, self.texts, self.stream, self.deep = spec, store, list(texts), stream, deep

    def line(self, raw=False) -> str:
        spec = P.PySpec(self.spec.notation, self.spec.auto, self.spec.drop, raw, self.spec.fuel)
        return f'pseq {spec.token()} {self.store} ' + ' ; '.join(P.cps(t) for t in self.texts)

    def replay(self) -> dict:
        return dict(notation=self.spec.notation, auto_preds=self.spec.auto, drop_parens=self.spec.drop,
                    store=self.store, texts=self.texts, stream=self.stream)


def oracle(case: Case, prop=PROP):
    """Run the case on the real parser.  → (answers, failures) where failures are
    (key, what) pairs of PROPERTY violations found without any use of the model."""
    parser = case.spec.parser(case.store)
    frozen = case.store.startswith('F:')
    answers, fails = [], []
    for text in case.texts:
        before = P.enc_store(parser.predicates)
        ans, exc, sent = P.py_parse(parser, text)
        answers.append(ans)
        if exc is not None and not ans.startswith('err:ParseError'):
            kind = ans.split(' ')[0]
            # precondition of the property: a mutable store (a `Predicates.Frozen` has no `add`)
            if not (frozen and kind == 'crash:AttributeError'):
                fails.append((P.crash_key(prop, kind, exc, text, case.spec.notation),
                              f'{case.spec.notation} parser raised {type(exc).__name__} (not ParseError) on an input of '
                              f'length {len(text)} starting {text[:30]!r}: {str(exc)[:100]}'))
        if sent is not None:
            d = P.wf_defects(sent)
            if d:
                fails.append((f'{prop}:output-not-wf:{case.spec.notation}:{d[0].split(" (")[0].split(" ")[0]}',
                              f'parser returned {P.enc_sent(sent)} for {text[:60]!r}: {"; ".join(d[:3])}'))
        # history independence: a fresh parser with the same declarations answers the same
        if len(case.texts) > 1 and not frozen:
            fresh = case.spec.parser(before)
            ans2, _, _ = P.py_parse(fresh, text)
            if ans2 != ans:
                fails.append((f'{prop}:history:{case.spec.notation}',
                              f'after {len(answers) - 1} earlier parses {text[:60]!r} gives {ans[:80]!r}, a fresh parser '
                              f'with the same predicate store {before} gives {ans2[:80]!r}'))
    return answers, fails


# ---------------------------------------------------------------------------
# streams
# ---------------------------------------------------------------------------

def configs(notation):
    S = P.PySpec
    out = [(S(notation), '-'), (S(notation, auto=False), '0.0.1,1.0.2'), (S(notation), '0.0.2,1.1.1')]
    if notation == 'standard':
        out.append((S(notation, drop=False), '-'))
    return out


def build_cases(ctx) -> list[Case]:
    rng = ctx.rng
    cases: list[Case] = []
    # corpus
    cdir = ROOT / 'corpus' / PROP
    if cdir.is_dir():
        for f in sorted(cdir.glob('*.json')):
            d = json.loads(f.read_text())
            cases.append(Case(P.PySpec(d['notation'], d.get('auto_preds', True), d.get('drop_parens', True)),
                              d.get('store', '-'), d['texts'], 'corpus'))
    for notation in ('polish', 'standard'):
        red, full = P.reduced_alphabet(notation), P.alphabet(notation) + P.FOREIGN
        cfgs = configs(notation)
        # exhaustive-short
        n_red = ctx.scale(3, 4)
        n_full = ctx.scale(2, 3)
        seen = set()
        for text in itertools_chain(P.short_strings(red, n_red), P.short_strings(full, n_full)):
            if text in seen:
                continue
            seen.add(text)
            for spec, store in (cfgs if len(text) <= 3 else cfgs[:2]):
                cases.append(Case(spec, store, [text], f'exhaustive-short/{notation}'))
        # grammar-mutated renderings
        gen = P.SentGen(rng, ctx.coverage.setdefault('sentence_histogram', {}))
        lw = P.LexWriter(notation, 'text', 'ascii')
        for i in range(ctx.scale(1500, 20000)):
            s = gen.sentence(rng.randrange(1, 7), wild=rng.random() < 0.15)
            text = lw(s)
            for _ in range(rng.randrange(0, 3)):
                text = P.mutate(rng, text, full)
            spec, store = cfgs[i % len(cfgs)]
            cases.append(Case(spec, store, [text], f'mutated/{notation}'))
        # binding stress: two variables, quantifiers placed regardless of scope (vacuous / re-bound / free / sibling re-use)
        for i in range(ctx.scale(1500, 15000)):
            s = gen.binding(rng.randrange(2, 6))
            spec, store = cfgs[i % 2]
            cases.append(Case(spec, store if i % 2 == 0 else '0.0.1,1.0.2', [lw(s)], f'binding-stress/{notation}'))
        # long runs: digit runs around the int limit, deep nesting around the recursion limit
        for text in P.long_runs(notation, ctx.thorough):
            cases.append(Case(P.PySpec(notation), '-', [text], f'long-runs/{notation}', deep=True))
        # frozen store (correspondence only: outside the property's precondition)
        for text in (['Fm', 'a', 'Imn', 'KFmGmn'] if notation == 'polish' else ['Fa', 'A', 'a=b', 'Fa & Gab']):
            cases.append(Case(P.PySpec(notation), 'F:0.0.1', [text], f'frozen/{notation}'))
            cases.append(Case(P.PySpec(notation), 'F:-', [text], f'frozen/{notation}'))
        # sequences on one parser: failing parses that leak auto-declared predicates, re-use,
        # arity conflicts with earlier declarations
        for i in range(ctx.scale(300, 4000)):
            arities = {}
            texts = []
            for _ in range(rng.randrange(2, 7)):
                if rng.random() < 0.5:
                    arities = {}                     # independent arities → conflicts with the store
                s = gen.sentence(rng.randrange(1, 4), arities=arities)
                t = lw(s)
                if rng.random() < 0.4:
                    t = P.mutate(rng, t, full)
                texts.append(t)
            spec, store = cfgs[i % len(cfgs)]
            cases.append(Case(spec, store, texts, f'sequences/{notation}'))
        leak = (['Fmn x', 'Fm', 'Fmn', 'KFmnGm)', 'Gmn', 'Gm'] if notation == 'polish'
                else ['Fab & Fa', 'Fab', 'Fa', 'Fa & Gab', 'Gab', '(Gab & Hc', 'Hc', 'Hcd'])
        cases.append(Case(P.PySpec(notation), '-', leak, f'sequences/{notation}'))
    # a sequence long enough to evict the lexical item cache (1000 entries), then re-parse
    many = [f'a{i}' for i in range(1, ctx.scale(1300, 2600))]
    cases.append(Case(P.PySpec('polish'), '-', many + ['Fm', 'a1', 'KFma1', 'Fmn'], 'sequences/cache-eviction'))
    return cases


def itertools_chain(*its):
    for it in its:
        yield from it


# ---------------------------------------------------------------------------
# run
# ---------------------------------------------------------------------------

def run(ctx):
    from ..extract import symbols
    try:
        symbols.generate()
    except Exception as e:  # the tables no longer have the shape the model knows
        ctx.fail(f'{PROP}:extract:{type(e).__name__}', f'symbol-table extraction failed: {e}',
                 dict(correspondence='harness/extract/symbols.py'), found_input=False)
    res = lean_phase(ctx, ['Ptx.Props.C13'], extra_targets=['Ptx.Gen.ObSymbols'])
    ctx.coverage['trusted_base'] += [
        'harness/extract/symbols.py (complete enumeration of ParseTable/StringTable instances)',
        'correspondence harness (generators, canonicalisation) bounds what has been seen of the hand-written parser models',
        'modelled: CPython int() digit limit (a parameter), recursion limit (fuel)']
    ctx.assumptions += [
        'store passed to the parser is mutable (Predicates, not Predicates.Frozen) or auto_preds is off',
        'one fuel unit = one nested DefaultParser._read activation; frames used by leaf calls are not modelled']
    cases = build_cases(ctx)
    dist: dict[str, int] = {}
    outcome_hist: dict[str, int] = {}
    py_answers, oracle_fails = [], {}
    # history independence across parsers: a fixed probe set answered by FRESH parsers before anything else was
    # parsed in this process must be answered the same way by fresh parsers after every case (state that leaks
    # through module / class level is invisible to the per-case comparison with a fresh parser)
    probes = [(P.PySpec('polish'), '-', t) for t in ('a', 'Kab', 'Fm', 'VxFx')] + \
             [(P.PySpec('standard'), '-', t) for t in ('A', 'A & B', 'Fa', 'LxFx')]

    def probe_answers():
        return [P.py_parse(sp.parser(st), t)[0] for sp, st, t in probes]
    ref_probe = probe_answers()
    probe_broken = False
    for i, c in enumerate(cases):
        ans, fails = oracle(c)
        py_answers.append(ans)
        if not probe_broken and (c.deep or len(c.texts) > 1 or i % 50 == 0):
            now = probe_answers()
            if now != ref_probe:
                probe_broken = True
                k = next(j for j, (x, y) in enumerate(zip(ref_probe, now)) if x != y)
                sp, st, t = probes[k]
                fails = fails + [(f'{PROP}:history:process-state:{sp.notation}',
                                  f'a fresh {sp.notation} parser answered {ref_probe[k][:60]!r} for {t!r} at the start; after parsing '
                                  f'{[x[:40] for x in c.texts][:4]} (length {[len(x) for x in c.texts][:4]}) on ANOTHER parser a fresh parser answers {now[k][:60]!r}')]
        dist[c.stream] = dist.get(c.stream, 0) + 1
        for a in ans:
            k = a.split(' ')[0]
            outcome_hist[k] = outcome_hist.get(k, 0) + 1
        for t in c.texts:
            ctx.count((c.spec.token(), c.store, t))
        if fails:
            oracle_fails[i] = fails
            for key, what in fails:
                ctx.fail(key, what, c.replay())
    ctx.add_cov(input_distribution=dist, outcome_histogram=outcome_hist,
                int_max_str_digits=P.INT_LIMIT)
    # correspondence with the model
    lean_ok = res.ok
    if not lean_ok:
        decls = res.failed_decls()
        if not oracle_fails:
            for f, d in decls or [('?', '?')]:
                ctx.fail(f'{PROP}:lean:build:{d}', f'Lean build failed at {f}:{d}; no failing input found by the '
                         f'implementation-side oracles\n{res.log[-1500:]}', dict(theorem=d, file=f), found_input=False)
        return
    lines = [c.line() for c in cases]
    model = P.drive_chunks(lines, 4000)
    ndiff = nstack = nraw = 0
    raw_idx = []
    for i, (c, ans, m) in enumerate(zip(cases, py_answers, model)):
        py = ' ; '.join(ans)
        if py == m:
            continue
        if c.deep and all(a.startswith('err:ParseError') or a == b for a, b in zip(ans, m.split(' ; '))):
            nstack += 1          # Python ran out of stack where the model (unbounded fuel) went on
            continue
        if i in oracle_fails:
            raw_idx.append(i)    # the implementation violates the property here; compare the raw model
            continue
        ndiff += 1
        ctx.fail(f'{PROP}:corr:{c.stream}', f'parser model and code disagree on {c.texts[:3]!r} '
                 f'(store {c.store}, {c.spec.token()}): code {py[:200]!r} model {m[:200]!r}',
                 dict(c.replay(), expected_model=m, observed=py, correspondence=c.stream), found_input=False)
    if raw_idx:
        raw = P.drive_chunks([cases[i].line(raw=True) for i in raw_idx], 4000)
        for i, m in zip(raw_idx, raw):
            py = ' ; '.join(py_answers[i])
            if py == m or cases[i].deep and 'RecursionError' in py:
                nraw += 1
            else:
                ctx.fail(f'{PROP}:corr-raw:{cases[i].stream}', f'unguarded parser model and code disagree on '
                         f'{cases[i].texts[:2]!r}: code {py[:200]!r} model {m[:200]!r}',
                         dict(cases[i].replay(), expected_model=m, observed=py), found_input=False)
    ctx.add_cov(correspondence_cases=len(cases), disagreements=ndiff, stack_limited=nstack,
                defect_cases_matching_unguarded_model=nraw,
                rule='distinct = distinct (parser config, store, input string) triples')
    for c, a in zip(cases[:: max(1, len(cases) // 10)], py_answers[:: max(1, len(cases) // 10)]):
        ctx.sample(dict(stream=c.stream, spec=c.spec.token(), store=c.store, text=c.texts[0][:60], answer=a[0][:100]))


def replay(data) -> int:
    d = data.get('replay', data)
    if 'texts' not in d:
        print('replay: no recorded input (proof obligation / correspondence failure)')
        return 1
    c = Case(P.PySpec(d['notation'], d.get('auto_preds', True), d.get('drop_parens', True)), d.get('store', '-'),
             d['texts'], 'replay')
    ans, fails = oracle(c)
    if not fails and 'RecursionError' in data.get('key', '') and len(c.texts) == 1 and len(set(c.texts[0])) == 1:
        # where exactly the stack runs out depends on the caller's own depth: scan the run length
        for k in range(40, 600):
            c = Case(c.spec, c.store, [c.texts[0][0] * k], 'replay')
            ans, fails = oracle(c)
            if fails:
                break
    for key, what in fails:
        print(f'{key}: {what}')
    print('answers:', [a[:120] for a in ans][:5])
    return 1 if fails else 0
