"""
Worker process of C16 (re-used by C19): runs REAL pytableaux tableaux and observes them only through
the public API (len / iteration / indexing, `open`, `history`, `stat(branch[, node], key)`,
`current_step`, `tree`, `stats`) and the public events (`tab.on(...)`).

After the trunk is built and after EVERY rule application the clauses of property C16 are checked
directly on the implementation (no Lean involved): see `Observer.boundary`.  After finishing, the tree
and the statistics are recomputed independently and compared.

One JSON job per input line, one JSON answer per line.
job: {"id", "logic", "premises":[wire], "conclusion":wire, "opts":{}, "max_steps":int|None, "mode":"step"|"build"}
"""
from __future__ import annotations

import json
import sys
import traceback

from .. import common  # noqa: F401
from .. import wire
from ..tabworker import enc_step, gen_rules

from pytableaux.lang import Argument, Operated, Operator
from pytableaux.logics import registry
from pytableaux.proof import ClosureNode, Tableau

EV = Tableau.Events
KEY = Tableau.StatKey
FLAG = Tableau.Flag


def same(xs, ys) -> bool:
    "same objects in the same order"
    return len(xs) == len(ys) and all(a is b for a, b in zip(xs, ys))


def is_prefix(xs, ys) -> bool:
    return len(xs) <= len(ys) and all(a is b for a, b in zip(xs, ys))


class Observer:
    """Listens to the public events of one tableau and keeps its own shadow of what they say."""

    def __init__(self, tab: Tableau, logic, arg: Argument, meta_rules, light=False):
        self.tab = tab
        self.logic = logic
        self.arg = arg
        self.meta_rules = meta_rules
        self.light = light          # C19 only needs the replay request, not the per-step checks
        self.viol: list[tuple[str, str, int]] = []
        self.k = 0                  # rule applications completed (my own count)
        self.trunk_built = False
        self.finished_events = 0
        self.events: list[tuple] = []       # events since the last boundary
        # shadow as of the last boundary
        self.branches: list = []
        self.nodes: dict[int, list] = {}    # id(branch) -> node objects
        self.closed: dict[int, bool] = {}
        self.ticked: dict[int, list] = {}   # id(branch) -> ticked node objects (API view), in branch order
        self.history: list = []
        self.pre_consts: dict[int, set] = {}
        # shadow accumulated from events
        self.badd: dict[int, int] = {}              # id(branch) -> step of AFTER_BRANCH_ADD
        self.nadd: dict[tuple[int, int], int] = {}  # (id(branch), id(node)) -> step of AFTER_NODE_ADD
        self.ntick: dict[tuple[int, int], int] = {}
        self.bclose: dict[int, int] = {}
        self.keep: list = []                # keep every observed object alive (ids are compared)
        self.steps: list[str] = []          # wire steps for the Lean replay
        self.obs: list[str] = []            # compact observation per boundary
        self.trunk_wire = ''
        self.nevents = 0
        tab.on({
            EV.AFTER_BRANCH_ADD: self.on_branch_add,
            EV.AFTER_BRANCH_CLOSE: self.on_close,
            EV.AFTER_NODE_ADD: self.on_node_add,
            EV.AFTER_NODE_TICK: self.on_tick,
            EV.AFTER_TRUNK_BUILD: self.on_trunk,
            EV.AFTER_RULE_APPLY: self.on_apply,
            EV.AFTER_FINISH: self.on_finish})

    # ---- my own clock: the step number events of the running application carry
    def now(self) -> int:
        return self.k + (1 if self.trunk_built else 0)

    def bad(self, key, what):
        if len(self.viol) < 12 and not any(v[0] == key for v in self.viol):
            self.viol.append((key, what, self.k))

    def bidx(self, b):
        for i, x in enumerate(self.tab):
            if x is b:
                return i
        return -1

    # ---- event listeners (record; a few things can only be seen at event time)
    def on_branch_add(self, branch):
        self.nevents += 1
        self.keep.append(branch)
        p = branch.parent
        at_fork = list(branch)
        self.events.append(('badd', branch, p, at_fork, list(p) if p is not None else None, self.now(),
                            [n for n in p if p.is_ticked(n)] if p is not None else [],
                            [n for n in branch if branch.is_ticked(n)]))
        self.badd[id(branch)] = self.now()

    def on_node_add(self, node, branch):
        self.nevents += 1
        self.keep.append(node)
        self.events.append(('nadd', branch, node, self.now()))
        if (id(branch), id(node)) in self.nadd:
            self.bad('C16:node-added-twice', f'AFTER_NODE_ADD emitted twice for one node on branch {self.bidx(branch)}')
        self.nadd[(id(branch), id(node))] = self.now()

    def on_tick(self, node, branch):
        self.nevents += 1
        self.events.append(('tick', branch, node, self.now()))
        if (id(branch), id(node)) in self.ntick:
            self.bad('C16:tick-twice', f'AFTER_NODE_TICK emitted twice for one node on branch {self.bidx(branch)}')
        self.ntick[(id(branch), id(node))] = self.now()

    def on_close(self, branch):
        self.nevents += 1
        self.events.append(('close', branch, self.now()))
        if id(branch) in self.bclose:
            self.bad('C16:closed-twice', f'AFTER_BRANCH_CLOSE emitted twice for branch {self.bidx(branch)}')
        self.bclose[id(branch)] = self.now()

    def on_trunk(self, tab):
        self.nevents += 1
        self.trunk_built = True
        self.check_trunk()
        self.boundary(None)

    def on_apply(self, target):
        self.nevents += 1
        self.k += 1
        self.boundary(target)

    def on_finish(self, tab):
        self.finished_events += 1

    # ---- clause 1: the trunk
    def expected_trunk(self):
        meta = self.logic.Meta
        w = dict(world=0) if meta.modal else {}
        out = []
        for p in self.arg.premises:
            out.append(dict(sentence=p, **(dict(designated=True) if meta.many_valued else {}), **w))
        c = self.arg.conclusion
        if meta.many_valued:
            out.append(dict(sentence=c, designated=False, **w))
        else:
            out.append(dict(sentence=Operated(Operator.Negation, (c,)), **w))
        return out

    def check_trunk(self):
        tab = self.tab
        if len(tab) != 1:
            self.bad('C16:trunk:branches', f'{len(tab)} branches after the trunk was built')
            return
        got = [dict(n) for n in tab[0]]
        exp = self.expected_trunk()
        if got != exp:
            self.bad('C16:trunk:content', f'trunk is {[wire.enc_node(n) for n in tab[0]]}, expected the premises then the '
                                          f'(negated / undesignated) conclusion in order: {exp}')
        self.trunk_nodes = list(tab[0])
        self.trunk_wire = ' ; '.join(wire.enc_node(n) for n in tab[0])

    # ---- the per-step clauses
    def boundary(self, target):
        tab = self.tab
        k = self.k
        branches = list(tab)
        now_nodes = {id(b): list(b) for b in branches}
        if self.light:
            if target is not None:
                entry = tab.history[-1]
                self.steps.append(enc_step(tab, entry, self.meta_rules, self.pre_consts.get(id(target.branch), set())))
            self.pre_consts = {id(b): set(b.constants) for b in branches}
            self.events = []
            return
        ev = self.events
        if len(tab) != len(branches):
            self.bad('C16:len', f'len(tab)={len(tab)} but iteration yields {len(branches)} branches')
        # (A,B) branches only grow: same branch objects at the same indices, old nodes a prefix of the new
        if not is_prefix(self.branches, branches):
            self.bad('C16:grow:branch-list', f'step {k}: the branches present before the step are not the first {len(self.branches)} now')
        for i, b in enumerate(self.branches):
            if i >= len(branches) or branches[i] is not b:
                continue
            old, new = self.nodes[id(b)], now_nodes[id(b)]
            if not is_prefix(old, new):
                self.bad('C16:grow:nodes', f'step {k}: branch {i} had {len(old)} nodes, now {len(new)}, and the old ones are not a prefix')
            # (C) a closed branch is never extended
            if self.closed[id(b)]:
                if not same(old, new):
                    self.bad('C16:closed-extended', f'step {k}: branch {i} was closed before the step and went from {len(old)} to {len(new)} nodes')
                if not b.closed:
                    self.bad('C16:closed-reopened', f'step {k}: branch {i} was closed and is open now')
                if not same(self.ticked[id(b)], [n for n in new if b.is_ticked(n)]):
                    self.bad('C16:closed-ticked', f'step {k}: ticks changed on closed branch {i}')
            if len(new) != len(b):
                self.bad('C16:len-branch', f'len(branch {i})={len(b)} but iteration yields {len(new)}')
        # (D) the open view lists exactly the unclosed branches, in order
        opens = list(tab.open)
        exp_open = [b for b in branches if not b.closed]
        if not same(opens, exp_open) or len(tab.open) != len(exp_open):
            self.bad('C16:open-view', f'step {k}: open view lists branches {[self.bidx(b) for b in opens]} '
                                      f'(len {len(tab.open)}), unclosed are {[self.bidx(b) for b in exp_open]}')
        for b in branches:
            if (b in tab.open) == b.closed:
                self.bad('C16:open-view:contains', f'step {k}: `branch in tab.open` is {b in tab.open} for a branch with closed={b.closed}')
                break
        # closed (public property) is what the events and the stat record say
        for i, b in enumerate(branches):
            fl = tab.stat(b, KEY.FLAGS)
            if (FLAG.CLOSED in fl) != b.closed or (id(b) in self.bclose) != b.closed:
                self.bad('C16:closed-flag', f'step {k}: branch {i}: closed={b.closed}, CLOSED flag={FLAG.CLOSED in fl}, close event seen={id(b) in self.bclose}')
            if b.closed != bool(len(b) and isinstance(b[-1], ClosureNode)):
                self.bad('C16:closed-leaf', f'step {k}: branch {i}: closed={b.closed} but last node is {b[-1] if len(b) else None}')
        # (E) every branch created by the step extends its parent's nodes
        tb = target.branch if target is not None else None
        badds = [e for e in ev if e[0] == 'badd']
        newb = branches[len(self.branches):]
        if not same([e[1] for e in badds], newb):
            self.bad('C16:branch-add-events', f'step {k}: {len(newb)} new branches, {len(badds)} AFTER_BRANCH_ADD events (or another order)')
        for e in badds:
            _, b, p, at_fork, p_at_fork, at, p_ticked, b_ticked = e
            i = self.bidx(b)
            if target is None:
                if p is not None or len(badds) != 1:
                    self.bad('C16:trunk:branch-parent', 'the trunk branch has a parent / several trunk branches')
            else:
                if p is None or p is not tb:
                    self.bad('C16:child:parent', f'step {k}: new branch {i} has parent index {self.bidx(p) if p is not None else None}, the step was applied to branch {self.bidx(tb)}')
                    continue
                if not same(at_fork, p_at_fork):
                    self.bad('C16:child:fork-copy', f'step {k}: new branch {i} had {len(at_fork)} nodes when it was added, its parent {len(p_at_fork)}; not the same nodes')
                if not is_prefix(self.nodes.get(id(p), []), now_nodes[id(b)]) or not is_prefix(at_fork, now_nodes[id(b)]):
                    self.bad('C16:child:extends-parent', f"step {k}: new branch {i} does not extend its parent's nodes")
                if not same(p_ticked, b_ticked):
                    self.bad('C16:child:fork-ticks', f'step {k}: new branch {i} did not start with the ticks of its parent')
            if tab.stat(b, KEY.PARENT) is not p or b.parent is not p:
                self.bad('C16:stat:parent', f'step {k}: stat PARENT / branch.parent of branch {i} is not the branch it was copied from')
            if tab.stat(b, KEY.INDEX) != i:
                self.bad('C16:stat:index', f'step {k}: stat INDEX of branch {i} is {tab.stat(b, KEY.INDEX)}')
            if tab.stat(b, KEY.STEP_ADDED) != at:
                self.bad('C16:stat:branch-step-added', f'step {k}: branch {i} added during step {at}, recorded {tab.stat(b, KEY.STEP_ADDED)}')
        # (F) each step is recorded once with the rule and the target that were applied
        hist = list(tab.history)
        if len(hist) != k or len(tab.history) != k:
            self.bad('C16:history:length', f'{k} rule applications so far, history has {len(hist)} entries')
        if not is_prefix(self.history, hist):
            self.bad('C16:history:rewritten', f'step {k}: earlier history entries changed')
        if target is not None and hist:
            e = hist[-1]
            if e.target is not target:
                self.bad('C16:history:target', f'step {k}: the recorded target is not the one that was applied')
            if e.rule is not target.rule or e.rule is not target.get('rule'):
                self.bad('C16:history:rule', f'step {k}: recorded rule {type(e.rule).__name__}, target says {type(target.rule).__name__}')
            if not any(r is e.rule for r in tab.rules):
                self.bad('C16:history:foreign-rule', f"step {k}: the recorded rule is not one of the tableau's rules")
            if not len(e.rule.history) or e.rule.history[-1] is not target:
                self.bad('C16:history:rule-history', f"step {k}: the rule's own history does not end with the applied target")
            if sum(1 for x in hist if x is e) != 1:
                self.bad('C16:history:twice', f'step {k}: entry recorded {sum(1 for x in hist if x is e)} times')
            if not any(tb is b for b in self.branches):
                self.bad('C16:target:branch', f'step {k}: target branch was not on the tableau before the step')
            elif self.closed[id(tb)]:
                self.bad('C16:target:closed-branch', f'step {k}: rule applied to branch {self.bidx(tb)} which was closed')
            else:
                before = self.nodes[id(tb)]
                tn = ([target['node']] if target.get('node') is not None else []) + list(target.get('nodes') or ())
                for n in tn:
                    if not any(n is x for x in before):
                        self.bad('C16:target:node', f'step {k}: a target node was not on the target branch before the step')
            # what happened in this step happened on the target branch or on its new children
            okb = [tb] + newb
            for x in ev:
                if x[0] != 'badd' and not any(x[1] is b for b in okb):
                    self.bad('C16:step:other-branch', f'step {k}: {x[0]} event on branch {self.bidx(x[1])}, target branch is {self.bidx(tb)}')
            for i, b in enumerate(self.branches):
                if b is not tb and i < len(branches) and not same(self.nodes[id(b)], now_nodes[id(b)]):
                    self.bad('C16:step:other-branch-grew', f'step {k}: branch {i} changed, target branch is {self.bidx(tb)}')
        # (G) recorded step numbers
        cur = tab.current_step
        if cur != self.now():
            self.bad('C16:current-step', f'current_step={cur} after {k} applications (trunk built: {self.trunk_built})')
        for x in ev:
            if x[0] == 'nadd':
                _, b, n, at = x
                rec = tab.stat(b, n, KEY.STEP_ADDED)
                if rec != at or getattr(n, 'step', None) != at:
                    self.bad('C16:stat:node-step-added', f'step {k}: node added on branch {self.bidx(b)} during step {at}; STEP_ADDED={rec}, node.step={getattr(n, "step", None)}')
                if not any(n is y for y in now_nodes.get(id(b), [])):
                    self.bad('C16:event:node-not-on-branch', f'step {k}: AFTER_NODE_ADD for a node that is not on its branch')
            elif x[0] == 'tick':
                _, b, n, at = x
                rec = tab.stat(b, n, KEY.STEP_TICKED)
                if rec != at or FLAG.TICKED not in tab.stat(b, n, KEY.FLAGS):
                    self.bad('C16:stat:node-step-ticked', f'step {k}: node ticked on branch {self.bidx(b)} during step {at}; STEP_TICKED={rec}, '
                                                          f'TICKED flag={FLAG.TICKED in tab.stat(b, n, KEY.FLAGS)}')
                if not any(n is y for y in now_nodes.get(id(b), [])) or not b.is_ticked(n):
                    self.bad('C16:tick:not-on-branch', f'step {k}: ticked node is not on the branch / not ticked for it')
                if getattr(n, 'step', 10 ** 9) > at:
                    self.bad('C16:tick:before-add', f'step {k}: node ticked at step {at} but added at {getattr(n, "step", None)}')
            elif x[0] == 'close':
                _, b, at = x
                rec = tab.stat(b, KEY.STEP_CLOSED)
                if rec != at:
                    self.bad('C16:stat:step-closed', f'step {k}: branch {self.bidx(b)} closed during step {at}, STEP_CLOSED={rec}')
        added_here = sum(1 for x in ev if x[0] == 'nadd')
        grown = sum(len(now_nodes[id(b)]) - len(self.nodes.get(id(b), [])) for b in self.branches if id(b) in now_nodes)
        grown += sum(len(now_nodes[id(b)]) - len(e[3]) for e in badds for b in [e[1]] if id(b) in now_nodes)
        if target is None:
            grown = sum(len(v) for v in now_nodes.values())
        if added_here != grown:
            self.bad('C16:event:node-add-count', f'step {k}: {grown} nodes appeared, {added_here} AFTER_NODE_ADD events')
        # everything recorded earlier is still what it was; nothing is in the future; non-decreasing along a branch
        for i, b in enumerate(branches):
            last = 0
            for n in now_nodes[id(b)]:
                st = getattr(n, 'step', None)
                if st is None or st > cur or st < last:
                    self.bad('C16:steps:nodes-monotone', f'step {k}: branch {i}: node.step {st} after {last}, current step {cur}')
                    break
                last = st
                key = (id(b), id(n))
                if key in self.nadd and tab.stat(b, n, KEY.STEP_ADDED) != self.nadd[key]:
                    self.bad('C16:stat:node-step-added:changed', f'step {k}: branch {i}: STEP_ADDED of a node changed after the fact')
                if key in self.ntick:
                    rec = tab.stat(b, n, KEY.STEP_TICKED)
                    if rec != self.ntick[key] or rec > cur or rec < st:
                        self.bad('C16:stat:node-step-ticked:changed', f'step {k}: branch {i}: STEP_TICKED {rec}, event said {self.ntick[key]}, added {st}, current {cur}')
                elif key in self.nadd and tab.stat(b, n, KEY.STEP_TICKED) is not None:
                    self.bad('C16:stat:ticked-without-event', f'step {k}: branch {i}: STEP_TICKED set without a tick event')
            if id(b) in self.bclose:
                rec = tab.stat(b, KEY.STEP_CLOSED)
                if rec != self.bclose[id(b)] or rec > cur or rec < last:
                    self.bad('C16:stat:step-closed:changed', f'step {k}: branch {i}: STEP_CLOSED {rec}, event said {self.bclose[id(b)]}, last node added {last}, current {cur}')
            if tab.stat(b, KEY.STEP_ADDED) != self.badd.get(id(b)) or self.badd.get(id(b), 0) > cur:
                self.bad('C16:stat:branch-step-added:changed', f'step {k}: branch {i}: STEP_ADDED {tab.stat(b, KEY.STEP_ADDED)}, event said {self.badd.get(id(b))}')
            # (H) ticks refer to nodes of the branch: the ticked set is the inherited one plus the tick events
            tk = [n for n in now_nodes[id(b)] if b.is_ticked(n)]
            exp = set(id(n) for n in self.ticked.get(id(b), []))
            for e in badds:
                if e[1] is b:
                    exp |= set(id(n) for n in e[6])      # the parent's ticks at fork time
            exp |= set(id(x[2]) for x in ev if x[0] == 'tick' and x[1] is b)
            if set(id(n) for n in tk) != exp:
                self.bad('C16:ticked-set', f'step {k}: branch {i}: ticked nodes (API) at positions {[j for j, n in enumerate(now_nodes[id(b)]) if b.is_ticked(n)]} '
                                           f'differ from inherited + tick events')
        # the trunk stays where it is
        if self.trunk_built:
            for i, b in enumerate(branches):
                if not is_prefix(self.trunk_nodes, now_nodes[id(b)]):
                    self.bad('C16:trunk:moved', f'step {k}: branch {i} does not start with the trunk nodes')
        # ---- wire step for the Lean replay + compact observation
        if target is not None and hist:
            try:
                self.steps.append(enc_step(tab, hist[-1], self.meta_rules, self.pre_consts.get(id(tb), set())))
            except Exception as ex:  # noqa
                self.steps.append(f'X {type(ex).__name__}')
        self.obs.append(f"{len(branches)} ! {' '.join(str(i) for i, b in enumerate(branches) if any(b is o for o in opens))} ! "
                        f"{' '.join(str(len(now_nodes[id(b)])) for b in branches)}")
        # ---- new shadow
        self.branches = branches
        self.nodes = now_nodes
        self.closed = {id(b): b.closed for b in branches}
        self.ticked = {id(b): [n for n in now_nodes[id(b)] if b.is_ticked(n)] for b in branches}
        self.history = hist
        self.pre_consts = {id(b): set(b.constants) for b in branches}
        self.events = []

    # ---- after finishing: the tree and the statistics, recomputed
    def check_finished(self):
        tab = self.tab
        k = self.k
        branches = list(tab)
        if self.events:
            self.bad('C16:events-outside-step', f'{len(self.events)} node/branch events after the last recorded step')
        if not same(branches, self.branches) or any(not same(list(b), self.nodes[id(b)]) for b in self.branches):
            self.bad('C16:finish:changed', 'finishing changed the branches')
        if self.finished_events != 1:
            self.bad('C16:finish:event', f'AFTER_FINISH emitted {self.finished_events} times')
        st = tab.stats
        nopen = sum(1 for b in branches if not b.closed)
        distinct = len({id(n) for b in branches for n in b})
        exp = dict(branches=len(branches), open_branches=nopen, closed_branches=len(branches) - nopen, steps=k)
        if tab.tree is not None:
            exp['distinct_nodes'] = distinct
        word = 'Unfinished'
        if tab.completed:
            word = 'Completed' if tab.argument is None else ('Invalid' if nopen else 'Valid')
        exp['result'] = word
        for kk, v in exp.items():
            if st.get(kk) != v:
                self.bad(f'C16:stats:{kk}', f'stats[{kk!r}]={st.get(kk)!r}, observable count {v!r}')
        if tab.valid not in (None, nopen == 0) or tab.invalid not in (None, nopen > 0):
            self.bad('C16:verdict-vs-open', f'valid={tab.valid} invalid={tab.invalid} with {nopen} open branches')
        from collections import Counter
        per_rule = Counter(id(e.rule) for e in tab.history)
        for r in tab.rules:
            if len(r.history) != per_rule.get(id(r), 0):
                self.bad('C16:stats:rule-history', f'rule {r.name} applied {per_rule.get(id(r), 0)} times by the tableau history, its own history has {len(r.history)}')
        if sum(len(r.history) for r in tab.rules) != k:
            self.bad('C16:stats:rules-applied', f'rules record {sum(len(r.history) for r in tab.rules)} applications, {k} steps were made')
        if tab.tree is not None:
            self.check_tree(tab.tree, branches)

    def check_tree(self, root, branches):
        tab = self.tab
        by_id = {b.id: (i, b) for i, b in enumerate(branches)}
        leaves = []
        pos = [0]
        total_nodes = [0]

        def rec(s, depth, path, is_root):
            pos[0] += 1
            left = pos[0]
            path = path + list(s.nodes)
            total_nodes[0] += len(s.nodes)
            where = f'structure left={s.left}'
            if s.left != left:
                self.bad('C16:tree:left', f'{where}: preorder left value should be {left}')
            if s.depth != depth:
                self.bad('C16:tree:depth', f'{where}: depth {s.depth}, has {depth} ancestors')
            if bool(s.root) != is_root:
                self.bad('C16:tree:root', f'{where}: root={s.root}')
            steps = [getattr(n, 'step', None) for n in s.nodes]
            if s.nodes and s.step != min(steps):
                self.bad('C16:tree:step', f'{where}: step {s.step}, earliest node step {min(steps)}')
            width = desc = 0
            has_open = has_closed = False
            if not s.children:
                if not s.leaf:
                    self.bad('C16:tree:leaf', f'{where}: no children but leaf={s.leaf}')
                ent = by_id.get(s.branch_id)
                if ent is None:
                    self.bad('C16:tree:leaf-branch', f'{where}: leaf names no branch of the tableau')
                else:
                    i, b = ent
                    leaves.append(i)
                    if not same(path, list(b)):
                        self.bad('C16:tree:leaf-path', f'{where}: root-to-leaf path has {len(path)} nodes, branch {i} has {len(b)}; they are not the same nodes in order')
                    if bool(s.closed) != b.closed or bool(s.open) == b.closed:
                        self.bad('C16:tree:leaf-closed', f'{where}: closed={s.closed} open={s.open}, branch {i} closed={b.closed}')
                    if b.closed and s.closed_step != self.bclose.get(id(b)):
                        self.bad('C16:tree:closed-step', f'{where}: closed_step {s.closed_step}, the branch closed at {self.bclose.get(id(b))}')
                    has_open, has_closed = not b.closed, b.closed
                width = 1
                if bool(s.is_only_branch) != (len(branches) == 1):
                    self.bad('C16:tree:only-branch', f'{where}: is_only_branch={s.is_only_branch} with {len(branches)} branches')
            else:
                if s.leaf or s.closed or s.open:
                    self.bad('C16:tree:inner-leaf-flags', f'{where}: has children but leaf={s.leaf} closed={s.closed} open={s.open}')
                firsts = []
                for c in s.children:
                    w, d, ho, hc = rec(c, depth + 1, path, False)
                    width += w
                    desc += d
                    has_open |= ho
                    has_closed |= hc
                    if c.nodes:
                        firsts.append(c.nodes[0])
                if len({id(n) for n in firsts}) != len(s.children):
                    self.bad('C16:tree:children-distinct', f'{where}: children do not start with distinct nodes')
            if s.width != width:
                self.bad('C16:tree:width', f'{where}: width {s.width}, leaves below {width}')
            if s.descendant_node_count != desc:
                self.bad('C16:tree:descendant-node-count', f'{where}: descendant_node_count {s.descendant_node_count}, recomputed {desc}')
            if s.structure_node_count != desc + len(s.nodes):
                self.bad('C16:tree:structure-node-count', f'{where}: structure_node_count {s.structure_node_count}, recomputed {desc + len(s.nodes)}')
            if bool(s.has_open) != has_open or bool(s.has_closed) != has_closed:
                self.bad('C16:tree:has-open-closed', f'{where}: has_open={s.has_open} has_closed={s.has_closed}, recomputed {has_open} {has_closed}')
            pos[0] += 1
            if s.right != pos[0]:
                self.bad('C16:tree:right', f'{where}: right {s.right}, preorder value {pos[0]}')
            return width, desc + len(s.nodes), has_open, has_closed

        rec(root, 0, [], True)
        if sorted(leaves) != list(range(len(branches))):
            self.bad('C16:tree:leaves', f'tree leaves name branches {leaves}; the tableau has branches 0..{len(branches) - 1} (one leaf per branch)')
        distinct = len({id(n) for b in branches for n in b})
        if getattr(root, 'distinct_nodes', None) != distinct or total_nodes[0] != distinct:
            self.bad('C16:tree:distinct-nodes', f'distinct_nodes={getattr(root, "distinct_nodes", None)}, nodes in structures {total_nodes[0]}, distinct node objects on branches {distinct}')


# ---------------------------------------------------------------------------
# canonical dumps (compared with the Lean model's)
# ---------------------------------------------------------------------------

def dump_tree(tab, s=None) -> str:
    "T{ depth left right width leaf closed open has_open has_closed step dnc snc closed_step branch | nodes | children }"
    if s is None:
        s = tab.tree
    idx = {b.id: i for i, b in enumerate(tab)}

    def o(v):
        return '_' if v is None else str(int(v))

    def rec(s):
        head = ' '.join([o(s.depth), o(s.left), o(s.right), o(s.width), o(s.leaf), o(s.closed), o(s.open), o(s.has_open),
                         o(s.has_closed), o(s.step), o(s.descendant_node_count), o(s.structure_node_count),
                         o(s.closed_step), o(idx.get(s.branch_id) if s.leaf else None)])
        nodes = ' ; '.join(wire.enc_node(n) for n in s.nodes)
        kids = ' '.join(rec(c) for c in s.children)
        return f'T{{ {head} | {nodes} | {kids} }}'
    return f'distinct={o(getattr(s, "distinct_nodes", None))} ' + rec(s)


def dump_stat(tab) -> str:
    "per branch: step added, step closed, parent index, own nodes pos:step, ticks pos:step  (own = has a recorded addition step)"
    out = []
    branches = list(tab)
    for b in branches:
        st = tab.stat(b)
        par = st[KEY.PARENT]
        pi = '_' if par is None else str(next(i for i, x in enumerate(branches) if x is par))
        closed = str(int(st[KEY.STEP_CLOSED])) if FLAG.CLOSED in st[KEY.FLAGS] else '_'
        own, ticks = [], []
        for j, n in enumerate(b):
            try:
                ns = tab.stat(b, n)
            except KeyError:
                continue
            if isinstance(ns[KEY.STEP_ADDED], int):       # the default for "no record" is Flag(0), not a number
                own.append(f'{j}:{ns[KEY.STEP_ADDED]}')
            if ns[KEY.STEP_TICKED] is not None:
                ticks.append(f'{j}:{int(ns[KEY.STEP_TICKED])}')
        out.append(f"{int(st[KEY.STEP_ADDED])} {closed} {pi} ! {' '.join(own)} ! {' '.join(ticks)}")
    return ' || '.join(out)


def dump_stats(tab) -> str:
    "branches open closed steps distinct_nodes result   (the observable counts of Tableau.stats)"
    st = tab.stats
    d = st.get('distinct_nodes')
    return f"{st['branches']} {st['open_branches']} {st['closed_branches']} {st['steps']} {'_' if d is None else d} {st['result']}"


def _drive(tab, ob, job, light):
    if job.get('mode') == 'build':
        tab.build()
    else:
        guard = 0
        while True:
            k0 = ob.k
            e = tab.step()
            if e is None:
                break
            if not light:
                if ob.k != k0 + 1:
                    ob.bad('C16:step-api:apply-events', f'step() returned an entry after {ob.k - k0} AFTER_RULE_APPLY events')
                if tab.history[-1] is not e:
                    ob.bad('C16:step-api:entry', 'the entry returned by step() is not the last history entry')
            guard += 1
            if guard > 5000:
                tab.finish()
                break


def run_observed(job, light=False):
    logic = registry(job['logic'])
    prem = [wire.dec_sent(s) for s in job['premises']]
    conc = wire.dec_sent(job['conclusion'])
    arg = Argument(conc, prem)
    opts = dict(job.get('opts') or {})
    if job.get('max_steps') is not None:
        opts['max_steps'] = job['max_steps']
    if job.get('models'):
        opts['is_build_models'] = True
    tab = Tableau(**opts)
    ob = Observer(tab, logic, arg, gen_rules(job['logic']), light=light)
    tab.logic = logic
    tab.argument = arg
    if not ob.trunk_built:
        ob.bad('C16:trunk:not-built', 'setting logic and argument did not build the trunk')
    ob.raised = None
    try:
        _drive(tab, ob, job, light)
    except Exception as ex:  # noqa  (reported with whatever the oracle saw before)
        tb = traceback.extract_tb(ex.__traceback__)
        where = next((f'{f.filename.split("/")[-1]}:{f.name}' for f in reversed(tb) if str(common.REPO) in f.filename), '?')
        ob.raised = dict(error=f'{type(ex).__name__}: {ex}', where=where, traceback=traceback.format_exc()[-3000:],
                         repo=any(str(common.REPO) in f.filename for f in tb))
    return tab, ob


def run_job(job):
    tab, ob = run_observed(job)
    if ob.raised is not None:
        return dict(id=job['id'], raised=ob.raised, viol=[list(v) for v in ob.viol], nsteps=ob.k)
    ob.check_finished()
    out = dict(id=job['id'], nsteps=ob.k, nbranches=len(tab), nevents=ob.nevents,
               viol=[list(v) for v in ob.viol],
               valid=tab.valid, invalid=tab.invalid, premature=tab.premature,
               rules=[type(e.rule).__name__ for e in tab.history],
               request=f'tree {job["logic"]} ## {ob.trunk_wire}' + ''.join(f' ## {s}' for s in ob.steps),
               obs=' ;; '.join(ob.obs), tree=dump_tree(tab) if tab.tree is not None else None,
               stat=dump_stat(tab), stats=dump_stats(tab), nstructs=(tab.tree.right // 2) if tab.tree is not None else 0)
    return out


def main():
    for line in sys.stdin:
        line = line.strip()
        if not line:
            continue
        job = json.loads(line)
        try:
            out = run_job(job)
        except Exception as ex:  # noqa
            out = dict(id=job.get('id'), error=f'{type(ex).__name__}: {ex}', traceback=traceback.format_exc()[-3000:],
                       repo=str(common.REPO) in traceback.format_exc())
        sys.stdout.write(json.dumps(out) + '\n')
        sys.stdout.flush()


if __name__ == '__main__':
    main()
