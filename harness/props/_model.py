"""
Shared machinery of C08 / C20 (the library's model builder, evaluator and export):

  * generators of model programs (set_*_value / R.add / finish in any order, incl. conflicting
    and illegal calls) and of sentences, everything derived from the rng handed in;
  * running a program on a real `logic.Model()` and canonicalising what is observable
    (exception class of every call, value_of, get_data(), R);
  * the matching request for the Lean driver (`model …` / `readbranch …` / `fold …`);
  * implementation-side oracles that use neither the Lean model nor the library's evaluator:
      (i)   an independent recursive evaluator over the regenerated tables (gen.json): operators by
            the table, quantifiers / modal operators by the SET-indexed graph;
      (ii)  the frame closure recomputed naively;
      (iii) the export compared with value_of on all tuples of model constants;
      (iv)  identity an equivalence respected by every extension, existence universal (classical family);
      (v)   order independence: permutations of a consistent program give equal finished models.
"""
from __future__ import annotations

import itertools
import json

from .. import common, wire
from ..common import LEAN

from pytableaux import errors
from pytableaux.lang import (Atomic, Constant, Operated, Operator, Predicate, Predicated,
                             Quantified, Quantifier, Variable)
from pytableaux.logics import registry

A0, A1 = Atomic(0, 0), Atomic(1, 0)
CA, CB, CC, CD = Constant(0, 0), Constant(1, 0), Constant(2, 0), Constant(3, 0)
PF, PG, PR = Predicate(0, 0, 1), Predicate(1, 0, 1), Predicate(2, 0, 2)
ID, EX = Predicate.Identity, Predicate.Existence
VX, VY = Variable(0, 0), Variable(1, 0)
NEG = Operator.Negation
BIN = [Operator.Conjunction, Operator.Disjunction, Operator.MaterialConditional, Operator.MaterialBiconditional,
       Operator.Conditional, Operator.Biconditional]
OPN = {Operator.Assertion: 'asrt', Operator.Negation: 'neg', Operator.Possibility: 'poss', Operator.Necessity: 'nec',
       Operator.Conjunction: 'conj', Operator.Disjunction: 'disj', Operator.MaterialConditional: 'mcond',
       Operator.MaterialBiconditional: 'mbicond', Operator.Conditional: 'cond', Operator.Biconditional: 'bicond'}
QN = {Quantifier.Existential: 'ex', Quantifier.Universal: 'univ'}
EXC = {errors.IllegalStateError: 'IllegalStateError', errors.ModelValueError: 'ModelValueError',
       errors.DenotationError: 'DenotationError', KeyError: 'KeyError', ValueError: 'ValueError',
       NotImplementedError: 'NotImplementedError'}

FOLD_FAMILY = dict(K3WQ='generalize', KK3WQ='generalize', TK3WQ='generalize', S4K3WQ='generalize',
                   S5K3WQ='generalize', MH='threeWay', NH='threeWay', GO='crunch', S4GO='crunch')


def exc_name(e: BaseException) -> str:
    for t, n in EXC.items():
        if type(e) is t:
            return n
    return f'crash:{type(e).__name__}'


_GEN = None


def gen_data() -> dict:
    global _GEN
    if _GEN is None:
        from .. import logicobl
        _GEN = logicobl.regenerate()
    return _GEN


def all_logics() -> list[str]:
    return sorted(n for n, d in gen_data().items() if 'fatal' not in d)


def quick_spread(rng) -> list[str]:
    """≥ 20 logics incl. every fold-program family and every frame kind"""
    must = ['CPL', 'CFOL', 'K', 'D', 'T', 'S4', 'S5', 'FDE', 'K3', 'LP', 'K3WQ', 'KK3WQ', 'S5K3WQ', 'MH', 'NH', 'GO',
            'S4GO', 'P3', 'KFDE', 'S4LP', 'TRM3']
    rest = [n for n in all_logics() if n not in must]
    rng.shuffle(rest)
    return [n for n in must if n in gen_data()] + rest[:5]


def cpl_mode() -> str:
    """which candidate fixes does the tree under test carry?  `<onepass|closure>[+s][+a]`
    closure: a=b finished makes b=a true (fix_C08_1); +s: the world added by the serial access gets
    a frame (fix_C08_2); +a: unassigned tuples are exported in the anti-extension when the
    unassigned value is false-containing (fix_C20_1)"""
    L = registry('CFOL')
    m = L.Model()
    m.set_predicated_value(ID((CA, CB)), 'T')
    m.finish()
    mode = 'closure' if str(m.value_of(ID((CB, CA)))) == 'T' else 'onepass'
    m = registry('D').Model()
    m.set_atomic_value(A0, 'T')
    m.finish()
    if 1 in m.frames:
        mode += '+s'
    m = registry('LP').Model()
    m.set_predicated_value(PF((CA,)), 'T')
    m.set_predicated_value(PG((CB,)), 'T')
    m.finish()
    if 'c.1.0' in data_dump(m).split('pr=')[1].split(' ')[0].split('-')[1]:
        mode += '+a'
    return mode


# ---------------------------------------------------------------------------
# programs
# ---------------------------------------------------------------------------

def opaque_sentences(meta) -> list:
    out = []
    if not meta['quantified']:
        out += [Quantified(Quantifier.Existential, VX, PF(VX)), Quantified(Quantifier.Universal, VX, PR(VX, CA))]
    if not meta['modal']:
        out += [Operated(Operator.Possibility, (A0,)), Operated(Operator.Necessity, (PF(CA),))]
    return out


def rand_op(rng, meta, nworlds: int, nconsts: int, wild: float = 0.12):
    """one API call as a tuple; mostly sensible, sometimes illegal (foreign value, world in a
    non-modal logic, free variable, non-literal)"""
    vals = meta['tables']['vals']
    consts = [CA, CB, CC][:max(1, nconsts)]
    w = rng.randrange(nworlds) if meta['modal'] else 0
    if rng.random() < wild / 2:
        w = rng.randrange(1, 3)
    v = rng.choice(vals)
    if rng.random() < wild / 3:
        v = rng.choice(['F', 'N', 'B', 'T'])
    r = rng.random()
    classical = vals == ['F', 'T']
    if r < 0.18:
        return ('sa', rng.choice([A0, A1]), v, w)
    if r < 0.55:
        q = rng.random()
        if q < (0.45 if classical else 0.15):
            s = ID((rng.choice(consts), rng.choice(consts)))
        elif q < (0.52 if classical else 0.2):
            s = EX((rng.choice(consts),))
        elif q < 0.8:
            s = rng.choice([PF, PG])((rng.choice(consts),))
        else:
            s = PR((rng.choice(consts), rng.choice(consts)))
        if rng.random() < wild / 4:
            s = PF((VX,))
        return ('sp', s, v, w)
    if r < 0.63:
        ops = opaque_sentences(meta) or [Operated(Operator.Conjunction, (A0, PF(CA)))]
        return ('so', rng.choice(ops), v, w)
    if r < 0.78:
        base = rng.choice([A0, A1, PF((rng.choice(consts),)), PR((rng.choice(consts), rng.choice(consts))),
                           *opaque_sentences(meta)])
        k = rng.choice([0, 1, 1, 2, 3])
        s = base
        for _ in range(k):
            s = Operated(NEG, (s,))
        if rng.random() < wild / 2:
            s = Operated(Operator.Conjunction, (A0, A1))
        return (rng.choice(['sl', 'sv']), s, v, w)
    if meta['modal'] or rng.random() < wild / 3:
        return ('ra', rng.randrange(nworlds), rng.randrange(nworlds))
    return ('sa', rng.choice([A0, A1]), v, w)


def rand_program(rng, meta, *, nops=None):
    nworlds = rng.choice([1, 2, 3, 3]) if meta['modal'] else 1
    nconsts = rng.choice([1, 2, 3])
    n = rng.randrange(0, 9) if nops is None else nops
    prog = [rand_op(rng, meta, nworlds, nconsts) for _ in range(n)]
    if meta['modal'] and rng.random() < 0.3:
        # sparse world labels, some >= 8: world sets whose iteration order is not ascending (CPython iterates a small set of
        # ints by hash slot), several successors per world — whatever is exported must not depend on that order
        labels = [0] + sorted(rng.sample([1, 2, 3, 5, 7, 8, 9, 11, 16, 17, 24], nworlds - 1)) if rng.random() < 0.7 else \
                 sorted(rng.sample([0, 1, 3, 8, 9, 16, 24], nworlds))
        rl = lambda w: labels[w] if w < len(labels) else w
        prog = [(op[0], rl(op[1]), rl(op[2])) if op[0] == 'ra' else (*op[:-1], rl(op[-1])) for op in prog]
        for _ in range(rng.randrange(0, 4)):       # extra arrows out of one world
            prog.insert(rng.randrange(len(prog) + 1), ('ra', labels[0], rng.choice(labels)))
    r = rng.random()
    if r < 0.12:
        # something after finish: illegal set, a second finish, an access pair
        prog.insert(rng.randrange(len(prog) + 1), ('fin',))
    prog.append(('fin',))
    if r < 0.2:
        prog.append(rng.choice([('fin',), ('sa', A0, meta['tables']['vals'][0], 0), ('ra', 0, 0)]))
    return prog


def small_ops(meta) -> list:
    """the op alphabet of the exhaustive-small stream"""
    vals = meta['tables']['vals']
    lo, hi = vals[0], vals[-1]
    mid = vals[1] if len(vals) > 2 else lo
    ops = [('sa', A0, hi, 0), ('sa', A0, lo, 0), ('sp', PF((CA,)), hi, 0), ('sp', PF((CB,)), mid, 0),
           ('sp', ID((CA, CB)), hi, 0), ('sp', ID((CB, CC)), hi, 0), ('sp', PF((CB,)), lo, 0),
           ('sl', Operated(NEG, (PF((CA,)),)), hi, 0)]
    if meta['modal']:
        ops += [('ra', 0, 1), ('ra', 1, 2), ('ra', 1, 0), ('sa', A0, lo, 1), ('sp', PF((CA,)), lo, 2)]
    return ops


def enc_op(op) -> str:
    k = op[0]
    if k == 'sa':
        return f'sa {op[1].index} {op[1].subscript} {op[2]} {op[3]}'
    if k in ('sp', 'so', 'sl', 'sv'):
        return f'{k} {wire.enc_sent(op[1])} {op[2]} {op[3]}'
    if k == 'ra':
        return f'ra {op[1]} {op[2]}'
    if k == 'fin':
        return 'fin'
    raise ValueError(op)


def dec_op(seg: str):
    """inverse of enc_op (None for hints / unknown segments)"""
    t = seg.split()
    if not t:
        return None
    if t[0] == 'sa' and len(t) == 5:
        return ('sa', Atomic(int(t[1]), int(t[2])), t[3], int(t[4]))
    if t[0] in ('sp', 'so', 'sl', 'sv'):
        return (t[0], wire.dec_sent(' '.join(t[1:-2])), t[-2], int(t[-1]))
    if t[0] == 'ra':
        return ('ra', int(t[1]), int(t[2]))
    if t[0] == 'fin':
        return ('fin',)
    return None


def op_text(op) -> str:
    return ' '.join(str(x) for x in op)


def apply_op(m, op) -> str:
    k = op[0]
    try:
        if k == 'sa':
            m.set_atomic_value(op[1], op[2], world=op[3])
        elif k == 'sp':
            m.set_predicated_value(op[1], op[2], world=op[3])
        elif k == 'so':
            m.set_opaque_value(op[1], op[2], world=op[3])
        elif k == 'sl':
            m.set_literal_value(op[1], op[2], world=op[3])
        elif k == 'sv':
            m.set_value(op[1], op[2], world=op[3])
        elif k == 'ra':
            m.R.add((op[1], op[2]))
        elif k == 'fin':
            m.finish()
        return 'ok'
    except Exception as e:  # noqa
        return exc_name(e)


# ---------------------------------------------------------------------------
# observing a real model
# ---------------------------------------------------------------------------

def enc_pred(p) -> str:
    return f'{p.index} {p.subscript} {p.arity}'


def hints(m) -> list[str]:
    """iteration orders cpl.Model.finish depends on (hash order of the constants set; dict order of
    frame.predicates)"""
    out = ['hc ' + ' '.join(wire.enc_param(c) for c in m.constants)]
    for w, fr in m.frames.items():
        out.append(f'hp {w} ' + ' '.join(enc_pred(p) for p in fr.predicates))
    return [h.strip() for h in out]


def tup_str(t) -> str:
    return ','.join(f'c.{c.index}.{c.subscript}' if type(c) is Constant else f'v.{c.index}.{c.subscript}' for c in t)


def frame_dump(fd: dict, many_valued: bool) -> str:
    at = ','.join(f"{e['input'].index}.{e['input'].subscript}:{e['output']}" for e in fd['Atomics']['values'])
    op = ','.join(f"({wire.enc_sent(e['input'])}):{e['output']}" for e in fd['Opaques']['values'])
    prs = []
    vals = fd['Predicates']['values']
    i = 0
    while i < len(vals):
        e = vals[i]
        p = e['values'][0]['input']
        ext = '[' + ';'.join(tup_str(t) for t in e['values'][0]['output']) + ']'
        anti = 'none'
        if many_valued:
            e2 = vals[i + 1]
            if e2['values'][0]['input'] != p or not e2['symbol'].endswith('-') or not e['symbol'].endswith('+'):
                raise AssertionError('export: extension / anti-extension entries out of step')
            anti = '[' + ';'.join(tup_str(t) for t in e2['values'][0]['output']) + ']'
            i += 1
        prs.append(f'{p.index}.{p.subscript}.{p.arity}+{ext}-{anti}')
        i += 1
    return f'at={at} op={op} pr=' + ' '.join(prs)


def data_dump(m) -> str:
    """get_data() in the driver's canonical form, in the ORDER the export gives (nothing re-sorted)"""
    d = m.get_data()
    mv = bool(m.Meta.many_valued)
    if not m.Meta.modal:
        return 'flat W= A= F0{' + frame_dump(d, mv) + '}'
    ws = d['Worlds']['values']
    out = 'modal W=' + ','.join(map(str, ws)) + ' A=' + ','.join(f'{a}-{b}' for a, b in d['Access']['values'])
    fr = d['Frames']['values']
    for w, f in zip(ws, fr):
        out += f' F{w}' + '{' + frame_dump(f['value'], mv) + '}'
    if len(fr) != len(ws):
        out += ' FRAMES-LEN-MISMATCH'
    return out


def racc_dump(m) -> str:
    keys = sorted(m.R)
    pairs = sorted((a, b) for a in m.R for b in m.R[a])
    return 'K=' + ','.join(map(str, keys)) + ' R=' + ','.join(f'{a}-{b}' for a, b in pairs)


def snapshot(m) -> dict:
    """plain data of a model (for the independent evaluator and for comparing models)"""
    return dict(
        frames={w: dict(atomics={a: str(v) for a, v in f.atomics.items()},
                        opaques={s: str(v) for s, v in f.opaques.items()},
                        preds={p: {t: str(v) for t, v in ip.items()} for p, ip in f.predicates.items()})
                for w, f in m.frames.items()},
        R={w: set(ws) for w, ws in m.R.items()},
        constants=set(m.constants))


def snap_key(snap: dict):
    """a model up to set equality (empty predicate interpretations are not a difference)"""
    fr = []
    for w in sorted(snap['frames']):
        f = snap['frames'][w]
        fr.append((w, tuple(sorted((wire.enc_sent(a), v) for a, v in f['atomics'].items())),
                   tuple(sorted((wire.enc_sent(s), v) for s, v in f['opaques'].items())),
                   tuple(sorted((enc_pred(p), tuple(sorted((tup_str(t), v) for t, v in ip.items())))
                                for p, ip in f['preds'].items() if ip))))
    return (tuple(fr), tuple(sorted((w, tuple(sorted(ws))) for w, ws in snap['R'].items())),
            tuple(sorted(tup_str((c,)) for c in snap['constants'])))


def eval_real(m, s, w) -> str:
    try:
        if m.Meta.modal or w:
            return str(m.value_of(s, world=w))
        return str(m.value_of(s))
    except Exception as e:  # noqa
        return exc_name(e)


# ---------------------------------------------------------------------------
# (i) the independent evaluator: documented recursion over the regenerated tables
# ---------------------------------------------------------------------------

class Undetermined(Exception):
    "the recursive semantics does not say (empty domain, raising instance)"


class TableEval:
    def __init__(self, meta: dict):
        self.meta = meta
        t = meta['tables']
        self.vals = t['vals']
        self.un = t['unassigned']
        self.t1 = {(r[0], r[1]): r[2] for r in t['t1']}
        self.t2 = {(r[0], r[1], r[2]): r[3] for r in t['t2']}
        self.qf = {(r[0], tuple(r[1])): r[2] for r in meta['qf']}
        self.mf = {(r[0], tuple(r[1])): r[2] for r in meta['mf']}

    def canon(self, P) -> tuple:
        return tuple(v for v in self.vals if v in P)

    def opaque(self, s) -> bool:
        if type(s) is Quantified:
            return not self.meta['quantified']
        if type(s) is Operated and s.operator in (Operator.Possibility, Operator.Necessity):
            return not self.meta['modal']
        return False

    def value(self, snap: dict, s, w: int) -> str:
        fr = snap['frames'].get(w)
        if fr is None:
            if not self.meta['modal']:
                raise Undetermined('no such world')
            fr = dict(atomics={}, opaques={}, preds={})
        if self.opaque(s):
            return fr['opaques'].get(s, self.un)
        t = type(s)
        if t is Atomic:
            return fr['atomics'].get(s, self.un)
        if t is Predicated:
            if any(p not in snap['constants'] for p in s.params):
                raise Undetermined('denotation')
            return fr['preds'].get(s.predicate, {}).get(tuple(s.params), self.un)
        if t is Quantified:
            P = {self.value(snap, c >> s, w) for c in snap['constants']}
            key = (QN[s.quantifier], self.canon(P))
            if key not in self.qf:
                raise Undetermined('empty domain')
            return self.qf[key]
        o = s.operator
        if o in (Operator.Possibility, Operator.Necessity):
            P = {self.value(snap, s.lhs, w2) for w2 in snap['R'].get(w, ())}
            key = (OPN[o], self.canon(P))
            if key not in self.mf:
                raise Undetermined('no accessible world')
            return self.mf[key]
        if o.arity == 1:
            return self.t1[(OPN[o], self.value(snap, s.lhs, w))]
        return self.t2[(OPN[o], self.value(snap, s.lhs, w), self.value(snap, s.rhs, w))]


# ---------------------------------------------------------------------------
# (ii) frame closure, naively
# ---------------------------------------------------------------------------

def naive_closure(kind: str, worlds: set, pairs: set) -> set:
    R = set(pairs)
    if kind in ('T', 'S4', 'S5'):
        R |= {(w, w) for w in worlds}
    while True:
        new = set()
        if kind in ('S4', 'S5'):
            new |= {(a, d) for (a, b) in R for (c, d) in R if b == c}
        if kind == 'S5':
            new |= {(b, a) for (a, b) in R}
        if new <= R:
            return R
        R |= new


def access_oracle(kind: str, before: dict, after: dict) -> str | None:
    """`before`: R just before enforce (keys = the model's worlds), `after`: R of the finished model"""
    w0 = set(before)
    p0 = {(a, b) for a in before for b in before[a]}
    p1 = {(a, b) for a in after for b in after[a]}
    if kind in ('none', 'K'):
        return None if (p1 == p0 and set(after) == w0) else f'access changed: {sorted(p0)} -> {sorted(p1)}'
    if kind == 'D':
        if not p0 <= p1:
            return f'serial: pairs lost {sorted(p0 - p1)}'
        dead = [w for w in after if not after[w]]
        if dead:
            return f'serial: worlds without successor {dead}'
        # and nothing but the one extra world is invented
        new = set(after) - w0
        need = {w for w in before if not before[w]}
        exp = p0 | ({(w, max(w0) + 1) for w in need} | {(max(w0) + 1, max(w0) + 1)} if need else set())
        return None if (p1 == exp and len(new) <= 1) else f'serial: expected {sorted(exp)}, got {sorted(p1)}'
    exp = naive_closure(kind, w0, p0)
    return None if (p1 == exp and set(after) == w0) else f'{kind} closure: expected {sorted(exp)}, got {sorted(p1)}'


# ---------------------------------------------------------------------------
# (iv) identity / existence in the classical family
# ---------------------------------------------------------------------------

def identity_oracle(m, framed=None, worlds=None) -> list[tuple[str, str]]:
    """[(kind, description)] — evaluated through value_of on the finished model, at every world R had
    when the model was finished (`worlds`; default: every world of R now — `R.add` on a finished model is
    not "assembling a model");
    `framed`: the worlds that had a frame when the model was finished (value_of creates frames)"""
    out = []
    cs = sorted(m.constants)
    if not cs:
        return out
    framed = set(m.frames) if framed is None else set(framed)
    for w in sorted(m.R if worlds is None else worlds):
        ev = (lambda s: eval_real(m, s, w))
        tag = 'serial-world' if w not in framed else None
        for a in cs:
            if ev(ID((a, a))) != 'T':
                out.append((tag or 'not-reflexive', f'world {w}: {a}={a} is {ev(ID((a, a)))}'))
            if ev(EX((a,))) != 'T':
                out.append((tag or 'existence-not-universal', f'world {w}: E!{a} is {ev(EX((a,)))}'))
        idt = {(a, b) for a in cs for b in cs if ev(ID((a, b))) == 'T'}
        for (a, b) in sorted(idt):
            if (b, a) not in idt:
                out.append((tag or 'not-symmetric', f'world {w}: {a}={b} is T but {b}={a} is {ev(ID((b, a)))}'))
            for c in cs:
                if (b, c) in idt and (a, c) not in idt:
                    out.append((tag or 'not-transitive', f'world {w}: {a}={b}, {b}={c} are T but {a}={c} is {ev(ID((a, c)))}'))
        fr = m.frames.get(w) if w in framed else None
        preds = [p for p in (fr.predicates if fr is not None else ()) if p not in (ID,)]
        for p in preds:
            for t in itertools.product(cs, repeat=p.arity):
                if ev(p(t)) != 'T':
                    continue
                for i, x in enumerate(t):
                    for (a, b) in idt:
                        if a == x and a != b:
                            t2 = t[:i] + (b,) + t[i + 1:]
                            if ev(p(t2)) != 'T':
                                out.append((tag or 'extension-not-closed',
                                            f'world {w}: {p(t)} is T, {a}={b} is T, but {p(t2)} is {ev(p(t2))}'))
    return out


# ---------------------------------------------------------------------------
# (iii) export vs value_of
# ---------------------------------------------------------------------------

def export_oracle(m, logic_name: str, late_access: bool = False) -> list[tuple[str, str, dict]]:
    """[(key-tail, description, detail)]: every clause of C20 on one finished model (value_of is
    called AFTER get_data: evaluation creates frames / interpretations in modal models).
    `late_access`: `model.R.add(...)` was called on the FINISHED model (the call is not guarded by the
    lifecycle); such an object is no longer "a model assembled and then finished", so the worlds /
    access clause is not judged on it (the export is still compared with the mirror)."""
    out = []
    mv = bool(m.Meta.many_valued)
    d1 = m.get_data()
    dump1 = data_dump(m)
    dump2 = data_dump(m)
    if dump1 != dump2:
        out.append(('deterministic:repeat', 'two get_data() calls differ', dict(first=dump1, second=dump2)))
    if m.Meta.modal:
        ws = d1['Worlds']['values']
        frames = {w: f['value'] for w, f in zip(ws, d1['Frames']['values'])}
        acc = [tuple(p) for p in d1['Access']['values']]
        realw = sorted(m.R) if not late_access else ws
        realp = sorted((a, b) for a in m.R for b in m.R[a]) if not late_access else acc
        if ws != realw:
            kind = 'worlds:serial-world-unlisted' if (type(m.R).__name__ == 'SerialAccess' and set(ws) < set(realw)) else 'worlds:mismatch'
            out.append((kind, f'exported worlds {ws}, the model has {realw}', dict(exported=ws, model=realw)))
        if acc != realp:
            kind = 'access:serial-world-unlisted' if (type(m.R).__name__ == 'SerialAccess' and set(acc) < set(realp)) else 'access:mismatch'
            out.append((kind, f'exported access {acc}, the model has {realp}', dict(exported=acc, model=realp)))
        if ws != sorted(set(ws)) or acc != sorted(set(acc)):
            out.append(('sorted:worlds-access', 'worlds / access pairs not sorted and duplicate-free', dict(worlds=ws, access=acc)))
    else:
        frames = {0: d1}
    cs = sorted(m.constants)
    for w, fd in frames.items():
        for sect in ('Atomics', 'Opaques'):
            ins = [e['input'] for e in fd[sect]['values']]
            if ins != sorted(set(ins)):
                out.append((f'sorted:{sect.lower()}', f'world {w}: {sect} not sorted', dict(listed=[str(x) for x in ins])))
            for e in fd[sect]['values']:
                if sect == 'Opaques' and not m.is_sentence_opaque(e['input']):
                    # set_opaque_value() was called on a sentence the logic interprets (the API does not
                    # check): exported, never consulted by value_of — outside the property (see notes)
                    continue
                got = eval_real(m, e['input'], w)
                if got != str(e['output']):
                    out.append((f'{sect.lower()}:value', f"world {w}: {e['input']} listed as {e['output']} but evaluates to {got}",
                                dict(world=w, sentence=str(e['input']))))
        pv = fd['Predicates']['values']
        plist = []
        i = 0
        while i < len(pv):
            p = pv[i]['values'][0]['input']
            ext = [tuple(t) for t in pv[i]['values'][0]['output']]
            anti = None
            if mv:
                anti = [tuple(t) for t in pv[i + 1]['values'][0]['output']]
                i += 1
            i += 1
            plist.append(p)
            if ext != sorted(set(ext)) or (anti is not None and anti != sorted(set(anti))):
                out.append(('sorted:extension', f'world {w}: extension of {p} not sorted', dict(ext=str(ext), anti=str(anti))))
            for t in itertools.product(cs, repeat=p.arity):
                v = eval_real(m, p(t), w)
                if (t in ext) != (v in ('T', 'B')):
                    out.append(('extension', f'world {w}: {p(t)} evaluates to {v} but is {"in" if t in ext else "not in"} the exported extension of {p}',
                                dict(world=w, sentence=str(p(t)), value=v, extension=[str(x) for x in ext])))
                if anti is not None and (t in anti) != (v in ('F', 'B')):
                    un = str(m.Meta.unassigned_value)
                    kind = 'anti-extension:unassigned-false' if (v == un and v in ('F', 'B') and t not in anti) else 'anti-extension'
                    out.append((kind, f'world {w}: {p(t)} evaluates to {v} but is {"in" if t in anti else "not in"} the exported anti-extension of {p}',
                                dict(world=w, sentence=str(p(t)), value=v, anti_extension=[str(x) for x in anti])))
            for t in ext + (anti or []):
                if any(c not in m.constants for c in t):
                    out.append(('extension:foreign-constant', f'world {w}: exported tuple {t} of {p} has a parameter that is no model constant', {}))
        if plist != sorted(set(plist)):
            out.append(('sorted:predicates', f'world {w}: predicates not sorted', dict(listed=[str(p) for p in plist])))
    # the export is a function of the model: evaluating model vocabulary does not change it
    dump3 = data_dump(m)
    if dump3 != dump1:
        kind = 'worlds:serial-world-unlisted' if type(m.R).__name__ == 'SerialAccess' else 'deterministic:evaluation-changes-export'
        out.append((kind, 'get_data() changed after value_of calls on the model\'s own vocabulary',
                    dict(before=dump1, after=dump3)))
    return out


# ---------------------------------------------------------------------------
# sentences
# ---------------------------------------------------------------------------

def base_sentences(consts) -> list:
    """depth ≤ 1 over the vocabulary, exhaustively"""
    cs = list(consts)[:3]
    at = [A0, A1] + [PF((c,)) for c in cs] + [PG((c,)) for c in cs[:2]] + [PR((a, b)) for a in cs[:2] for b in cs[:2]]
    at += [ID((a, b)) for a in cs for b in cs] + [EX((c,)) for c in cs[:2]]
    out = list(at)
    out += [Operated(o, (s,)) for o in (Operator.Negation, Operator.Assertion, Operator.Possibility, Operator.Necessity) for s in at[:6]]
    out += [Operated(o, (a, b)) for o in BIN for a in at[:3] for b in at[1:4]]
    out += [Quantified(q, VX, b) for q in Quantifier for b in (PF((VX,)), PR((VX, VX)), ID((VX, cs[0] if cs else VX)),
                                                               Operated(Operator.Disjunction, (PF((VX,)), A0)))]
    # a binder rebinding its own variable (substitution replaces the inner occurrences too)
    out.append(Quantified(Quantifier.Existential, VX, Operated(Operator.Conjunction, (PF((VX,)), Quantified(Quantifier.Universal, VX, PG((VX,)))))))
    out.append(Quantified(Quantifier.Universal, VX, Quantified(Quantifier.Existential, VY, PR((VX, VY)))))
    out.append(Operated(Operator.Necessity, (Quantified(Quantifier.Existential, VX, Operated(Operator.Possibility, (PF((VX,)),))),)))
    return out


def rand_sentences(rng, n: int, depth: int = 3) -> list:
    from .. import tabrun
    return [tabrun.rand_sentence(rng, rng.randint(1, depth), modal=True, quant=True, ident=True) for _ in range(n)]


def no_binders(s) -> bool:
    if type(s) is Quantified:
        return False
    if type(s) is Operated:
        if s.operator in (Operator.Possibility, Operator.Necessity):
            return False
        return all(no_binders(x) for x in s)
    return True


def closed(s) -> bool:
    """no free variables (the evaluator then never meets a variable)"""
    def fv(s, bound):
        t = type(s)
        if t is Atomic:
            return True
        if t is Predicated:
            return all(type(p) is Constant or p in bound for p in s.params)
        if t is Quantified:
            return fv(s.sentence, bound | {s.variable})
        return all(fv(x, bound) for x in s)
    return fv(s, frozenset())


# ---------------------------------------------------------------------------
# one case: a program on a real model + the driver request
# ---------------------------------------------------------------------------

def run_program(logic_name: str, prog: list, sents: list, mode: str) -> dict:
    """run on the real model; returns outcomes, the observations, and the driver request"""
    L = registry(logic_name)
    m = L.Model()
    outs = []
    before_R = None
    hint = None
    finished_ok = False
    after_R = None
    for op in prog:
        if op[0] == 'fin' and not m.finished:
            # R just before enforce = R after _complete_frames (keys for every frame)
            before_R = {w: set(ws) for w, ws in m.R.items()}
            for w in m.frames:
                before_R.setdefault(w, set())
            for a in list(before_R):
                for b in list(before_R[a]):
                    before_R.setdefault(b, set())
        r = apply_op(m, op)
        outs.append(r)
        if op[0] == 'fin' and hint is None and r in ('ok', 'ModelValueError'):
            hint = hints(m)
            finished_ok = (r == 'ok')
            after_R = {w: set(ws) for w, ws in m.R.items()}
        if op[0] == 'fin' and r == 'ModelValueError':
            # cpl.Model.finish raised half-way: the object is left partially augmented, in an order that
            # depends on the iteration order of a temporary set; the program is cut here (see notes)
            prog = prog[:len(outs)]
            break
    fin_at = next((i for i, (o, r) in enumerate(zip(prog, outs)) if o[0] == 'fin' and r == 'ok'), None)
    late = fin_at is not None and any(o[0] == 'ra' for o in prog[fin_at + 1:])
    res = dict(logic=logic_name, outcomes=outs, finished=bool(m.finished), model=m, before_R=before_R,
               prog=[op_text(o) for o in prog], ops=[enc_op(o) for o in prog], after_R=after_R, late_access=late)
    segs = [enc_op(o) for o in prog]
    if hint and mode.startswith('onepass') and L.Meta.values.__name__ == 'ValueCPL':
        segs = hint + segs
    queries = []
    if m.finished and finished_ok:
        res['data'] = data_dump(m)
        res['racc'] = racc_dump(m)
        res['snap'] = snapshot(m)
        queries += ['data', 'racc', 'flags']
        worlds = sorted(m.R) if L.Meta.modal else [0]
        evs = []
        for w in worlds:
            for s in sents:
                if not closed(s):
                    continue
                if not (set(s.constants) <= set(m.constants)) and not no_binders(s):
                    continue
                evs.append((w, s))
        res['evs'] = evs
        queries += [f'ev {w} {wire.enc_sent(s)}' for w, s in evs]
    elif not m.finished:
        # an unfinished model: value_of must refuse
        res['evs'] = [(0, A0)]
        queries += [f'ev 0 {wire.enc_sent(A0)}']
    else:
        res['evs'] = []
    res['request'] = f'model {logic_name} {mode} ## ' + ' ## '.join(segs) + ' ## end' + ''.join(f' ## {q}' for q in queries)
    res['queries'] = queries
    return res


def evaluate_real(res: dict) -> list[str]:
    m = res['model']
    return [eval_real(m, s, w) for w, s in res['evs']]
