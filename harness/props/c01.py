"""
C01 — a 'valid' verdict is sound in every logic.

Deciding method (DESIGN §6 C01):
  * generic Lean theorem `C01_valid_sound` (Ptx/Props/C01.lean): for ANY finite sequence of
    legal steps from the trunk — hence every option combination, tie-break order, build/step —
    a closed tableau has no countermodel in the logic's documented semantics; instantiated per
    logic (`Ptx.Gen.Obl.<L>.c01_valid_sound`) from kernel-evaluated side conditions on the rule /
    closure / trunk / frame data regenerated from /repo (`sound_core`, `rules_sound`).
  * correspondence: real runs (57 logics × generated arguments × option matrix × tie-break seeds) are
    replayed step by step through the model; every step must be a legal instance and the model's
    branches must equal Python's node for node. Then the theorem applies to that run.
  * search: a rejected replay, a run that used a rule outside the sound part, and — independently —
    every 'valid' verdict are checked against a brute-force countermodel search over small finite
    structures with the documented tables.
"""
from __future__ import annotations

import collections

from .. import logicobl, tabrun, semantics, wire
from ..common import Ctx, drive, InfraError

LEVEL = 'proof'
THMS = ['spec_defined', 'tables_total', 'sound_core', 'rules_sound', 'c01_valid_sound']


def fragments(meta):
    out = [dict(modal=False, quant=False, ident=False)]
    if meta['modal']:
        out.append(dict(modal=True, quant=False, ident=False))
    if meta['quantified']:
        out.append(dict(modal=meta['modal'], quant=True, ident=not meta['marks']))
    if not meta['marks']:
        out.append(dict(modal=meta['modal'], quant=False, ident=True))
    return out


def corpus_jobs(ctx: Ctx, jobs):
    import json
    from pytableaux.lang import Parser
    from ..common import ROOT
    p = Parser('polish')
    for f in sorted((ROOT / 'corpus' / 'C01').glob('*.json')):
        for c in json.loads(f.read_text()):
            for opts in tabrun.OPTS[:2]:
                jobs.append(tabrun.job_for(len(jobs), c['logic'], [p(x) for x in c['premises']], p(c['conclusion']), opts=opts,
                                           mode='build', frag='corpus', search=20000, search_seed=0, max_steps=1500))


def make_jobs(ctx: Ctx, data, per_logic):
    jobs = []
    corpus_jobs(ctx, jobs)
    rng = ctx.rng
    for lg in sorted(data):
        d = data[lg]
        if 'fatal' in d:
            continue
        fr = fragments(d)
        for k in range(per_logic):
            f = fr[k % len(fr)]
            prem, conc = tabrun.rand_argument(rng, depth=rng.choice([2, 2, 3, 3, 4] if not f['quant'] else [2, 2, 3]), **f)
            jobs.append(tabrun.job_for(len(jobs), lg, prem, conc, opts=tabrun.OPTS[rng.randrange(4)],
                                       mode=rng.choice(['build', 'step']), frag=f,
                                       search=ctx.scale(600, 12000), search_seed=ctx.seed,
                                       max_steps=ctx.scale(250, 1500)))
    return jobs


def targeted_jobs(ctx: Ctx, data, jobs):
    """Failing-input search seeded by the Lean side (DESIGN §6 C01 search (i)): for every rule row whose soundness
    side-check fails and that is not a committed known finding, build arguments around that node shape — the
    shape as premise / conclusion (so that the trunk carries exactly the keyed node), a small pool of related
    sentences on the other side — and have every 'valid' verdict refuted by the countermodel search."""
    from pytableaux.lang import Atomic, Constant, Operated, Operator, Predicate, Quantified, Quantifier, Variable
    from .c04 import _parse_keyname
    rep = logicobl.report_lines() or []
    rows = [(r[1], r[2]) for r in rep if r[0] == 'rules_exact' and any(t == 'sound=false' for t in r)]
    new = [(lg, kn) for lg, kn in rows if ctx.match_known(f'C01:unsound-rule:{lg}:{kn}') is None]
    by_rule = collections.defaultdict(list)
    for lg, kn in new:
        by_rule[kn].append(lg)
    A, B = Atomic(0, 0), Atomic(1, 0)
    m, n = Constant(0, 0), Constant(1, 0)
    x = Variable(0, 0)
    F = Predicate(0, 0, 1)
    N = Operator.Negation
    opn = {o.name: o for o in Operator}
    qn = {q.name: q for q in Quantifier}
    count = 0
    for kn, lgs in sorted(by_rule.items()):
        shape, ng, d = _parse_keyname(kn)
        for lg in sorted(lgs)[:3]:
            if shape in qn:
                inners = [Quantified(qn[shape], x, F(x)), Quantified(qn[shape], x, N(F(x)))]
                pool = [F(m), N(F(m)), F(n), N(F(n)), Quantified(Quantifier.Existential, x, F(x)), Quantified(Quantifier.Universal, x, F(x)),
                        N(Quantified(Quantifier.Existential, x, N(F(x)))), N(Quantified(Quantifier.Universal, x, N(F(x))))]
            elif opn[shape].arity == 1:
                inners = [Operated(opn[shape], (A,)), Operated(opn[shape], (N(A),))]
                pool = [A, N(A), Operated(Operator.Possibility, (A,)), Operated(Operator.Necessity, (A,)),
                        N(Operated(Operator.Possibility, (N(A),))), B] if data[lg]['modal'] else [A, N(A), N(N(A)), B]
            else:
                inners = [Operated(opn[shape], (A, B)), Operated(opn[shape], (A, N(B))), Operated(opn[shape], (A, A))]
                pool = [A, B, N(A), N(B), Operated(Operator.Conjunction, (A, B)), Operated(Operator.Disjunction, (A, B)),
                        Operated(Operator.Disjunction, (N(A), B)), Operated(Operator.Conjunction, (N(A), N(B))),
                        # value-forcing premises: designated ~(B v ~B) pins B to a gap value, designated B & ~B to a glut value
                        N(Operated(Operator.Disjunction, (B, N(B)))), Operated(Operator.Conjunction, (B, N(B))),
                        N(Operated(Operator.Disjunction, (A, N(A)))), Operated(Operator.Conjunction, (A, N(A)))]
            args = []
            for inner in inners:
                S = N(inner) if ng else inner
                if d is False or (d is None and ng):
                    # the keyed node sits on the trunk as the (undesignated / negated) conclusion
                    concl = S if d is False else inner
                    args += [([], concl)] + [([p1], concl) for p1 in pool] + [([p1, p2], concl) for p1 in pool[:4] for p2 in pool[4:]]
                if d is not False:
                    args += [([S], c) for c in pool] + [([S, p1], c) for p1 in pool[:4] for c in pool]
            for prem, conc in args:
                jobs.append(tabrun.job_for(len(jobs), lg, prem, conc, opts=tabrun.OPTS[0], mode='build', frag='targeted:' + kn,
                                           search=20000, search_seed=ctx.seed, max_steps=400))
                count += 1
    # side conditions that are not rule rows: identity / closure / trunk
    core = collections.defaultdict(list)
    for r in rep:
        if r[0] == 'sound_core':
            for part in r[2:]:
                core[part].append(r[1])
    I = Predicate.Identity
    E = Predicate.Existence
    for part, lgs in sorted(core.items()):
        if part == 'ident':
            args = [([F(m)], I(m, n)), ([N(I(m, n))], I(m, n)), ([F(m), N(I(m, n))], F(n)), ([I(m, n)], I(n, m)), ([], I(m, m)),
                    ([N(I(m, n))], B), ([I(m, m)], B), ([E(m)], B), ([N(E(m))], B), ([F(m)], N(I(m, n))), ([], N(I(m, n)))]
        elif part == 'closure_sound':
            lits = [A, N(A), N(N(A)), F(m), N(F(m))]
            args = [([p1, p2], B) for p1 in lits for p2 in lits] + [([p1], c) for p1 in lits for c in lits + [B]]
        elif part == 'trunk':
            args = [([A], A), ([A], B), ([], A), ([], N(A)), ([A, B], Operated(Operator.Conjunction, (A, B))), ([N(A)], A), ([A], N(A))]
        else:
            continue
        for lg in sorted(lgs)[:4]:
            for prem, conc in args:
                jobs.append(tabrun.job_for(len(jobs), lg, prem, conc, opts=tabrun.OPTS[0], mode='build', frag='targeted:' + part,
                                           search=20000, search_seed=ctx.seed, max_steps=400))
                count += 1
    ctx.add_cov(targeted_search_jobs=count, targeted_rules=sorted(by_rule), targeted_core_parts=sorted(core))


def unsound_rule_names(ctx, data, lg):
    rep = logicobl.report_lines() or []
    return {row[2] for row in rep if row[0] == 'rules_exact' and row[1] == lg and any(t == 'sound=false' for t in row)}


def run(ctx: Ctx):
    data = logicobl.regenerate()
    logicobl.spec_tables()      # make sure the cache file for the workers exists
    cats = dict(sound_core=lambda c, lg, t: (f'C01:sound_core:{lg}:{"_".join(t)}', f'{lg}: soundness side condition fails: {" ".join(t)}',
                                            dict(logic=lg, theorem=f'Ptx.Gen.Obl.{lg}.sound_core', row=t), False),
                spec_defined=lambda c, lg, t: (f'C01:spec_defined:{lg}', f'{lg}: no documented tables', dict(logic=lg, theorem='spec_defined'), False),
                tables_total=lambda c, lg, t: (f'C01:tables_total:{lg}', f'{lg}: tables not total', dict(logic=lg, theorem='tables_total'), False),
                __issue__=lambda c, lg, i: ((f'C01:extract:{lg}:{i[:60]}', f'{lg}: {i}', dict(logic=lg, issue=i), False) if 'FATAL' in i else None))
    res = logicobl.decide_rows(ctx, cats, THMS, extra_modules=['Ptx.Props.C01'])
    per_logic = ctx.scale(24, 200)
    seeds = [0, 1] if not ctx.thorough else [0, 1, 2, 3]
    jobs = make_jobs(ctx, data, per_logic)
    targeted_jobs(ctx, data, jobs)
    stats = collections.Counter()
    rules_seen = collections.Counter()
    allouts = []
    for sd in seeds:
        sub = [j for i, j in enumerate(jobs) if i % len(seeds) == seeds.index(sd)]
        outs = tabrun.run_jobs(sub, order_seed=sd)
        allouts += [(j, o, sd) for j, o in zip(sub, outs)]
    good = [(j, o, sd) for j, o, sd in allouts if 'error' not in o]
    for j, o, sd in allouts:
        if 'error' in o:
            stats['exception'] += 1
            ctx.fail(f'C01:run-exception:{j["logic"]}:{o["error"].split(":")[0]}', f'{j["logic"]}: the prover raised {o["error"]}',
                     dict(argument=tabrun.arg_text(j), order_seed=sd, traceback=o.get('traceback'), correspondence='whole-proof replay'),
                     found_input=bool(o.get('repo')))
    try:
        answers = drive([o['request'] for _, o, _ in good])
    except InfraError:
        if res.ok:
            raise
        answers = ['reject 0 driver-unavailable :: '] * len(good)
    unsound_cache = {}
    for (j, o, sd), a in zip(good, answers):
        lg = j['logic']
        meta = data[lg]
        ctx.count((lg, tuple(j['premises']), j['conclusion']))
        stats['runs'] += 1
        stats['steps'] += o['nsteps']
        for r in o['rules']:
            rules_seen[r] += 1
        head = a.split(' :: ')[0]
        accepted = a.startswith('ok') and a.split(' :: ', 1)[1] == o['final']
        hd = dict(t.split('=') for t in head.split()[1:] if '=' in t) if a.startswith('ok') else {}
        if o['valid']:
            stats['valid'] += 1
        need_search = False
        unsound_used = False
        why = ''
        if not accepted:
            stats['replay-rejected'] += 1
            need_search, why = True, ('step not legal: ' + head) if not a.startswith('ok') else 'final branches differ'
        elif o['valid'] and int(hd.get('unsound', 0)) > 0:
            stats['used-unsound-rule'] += 1
            unsound_used = True
        elif o['valid']:
            stats['theorem-applies'] += 1
            if int(hd.get('quant', 0)) > 0:
                stats['theorem-applies-with-quantifier-steps'] += 1
        prem = [wire.dec_sent(s) for s in j['premises']]
        conc = wire.dec_sent(j['conclusion'])
        # independent oracle on every valid verdict, run in the worker (bounded search; only ever used to find a replay)
        cm = o.get('countermodel')
        if o.get('searched'):
            stats['countermodel-searches'] += 1
        if cm is not None:
            stats['countermodels-found'] += 1
            if lg not in unsound_cache:
                unsound_cache[lg] = unsound_rule_names(ctx, data, lg)
            used = sorted(set(o['rules']) & unsound_cache[lg])
            key = f'C01:unsound-rule:{lg}:{"+".join(used)}' if used else f'C01:valid-but-countermodel:{lg}:{" ".join(j["premises"])}|-{j["conclusion"]}'
            ctx.fail(key, f'{lg} reports the argument valid but a countermodel exists' + (f' (rules used: {used})' if used else ''),
                     dict(argument=tabrun.arg_text(j), order_seed=sd, mode=j.get('mode'), countermodel=cm, replay_status=head), found_input=True)
        elif need_search and not o['valid']:
            # a broken tie on a run that did not claim validity: nothing to refute for C01, but the correspondence is broken
            ctx.fail(f'C01:replay:{lg}:{why[:50]}', f'{lg}: real run is not reproduced by the model ({why})',
                     dict(argument=tabrun.arg_text(j), order_seed=sd, correspondence='whole-proof replay', driver=head,
                          request=o['request'][:1500]), found_input=False)
        elif need_search:
            ctx.fail(f'C01:replay:{lg}:{why[:50]}', f'{lg}: real run is not reproduced by the model ({why}); no countermodel found for its valid verdict',
                     dict(argument=tabrun.arg_text(j), order_seed=sd, correspondence='whole-proof replay', driver=head,
                          request=o['request'][:1500]), found_input=False)
    ctx.add_cov(traces_validated_against_impl=stats['runs'] - stats['replay-rejected'], run_stats=dict(stats),
                rules_fired=len(rules_seen), rules_histogram=dict(rules_seen.most_common(25)),
                option_matrix='is_group_optim × is_rank_optim (4), build/step, order seeds ' + str(seeds),
                rule='seeded random arguments per logic over four fragments (propositional, modal, first-order, identity), depth 2–4; '
                     'distinct = distinct (logic, argument); every history replayed through the Lean calculus model and its final '
                     'branches compared node for node')
    for j, o, sd in good[:3]:
        ctx.sample(dict(argument=tabrun.arg_text(j), valid=o['valid'], steps=o['nsteps'], order_seed=sd))
    ctx.assumptions += ['the theorem covers operator, quantifier, modal, closure, frame, identity and quit-flag steps; a quantifier step is legal in the model '
                        'only on a compound whose body does not re-bind its variable and has nothing uninterpreted inside (true of every parsed sentence)',
                        'documented semantics (Spec.lean); structures: arbitrary worlds/domains, classical identity = real identity',
                        'the bounded countermodel search is used only to find replays, never as evidence that the property holds']
