"""
C02 — an 'invalid' verdict comes with a genuine countermodel.

Deciding method (DESIGN §6 C02):
  * Lean (Ptx/Props/C02.lean): saturation is a DECIDABLE predicate on branches of the calculus model
    (Ptx/Tab/Saturated.lean); the Hintikka theorem says that a saturated open branch of a logic passing the
    kernel-evaluated side conditions (rule exactness backward half, closure exactness, read table) is satisfied
    node by node by the canonical structure read off its literals.
  * correspondence / oracle on real runs (all logics × option matrix × tie-break seeds, models built): for every
    completed 'invalid' tableau and every open branch without a limit flag
      (a) implementation side: the library's own model (branch.model) must give every sentence node on the branch a
          value that satisfies it (designated / undesignated, at its world) and `is_countermodel_to(argument)` must
          agree;
      (b) the driver evaluates `saturated` on Python's final branch: 'completed' must mean saturated; a failing
          clause names the missing rule instance — the branch itself is the concrete failing input.
"""
from __future__ import annotations

import collections
import re

from .. import logicobl, tabrun
from ..common import Ctx, drive, lean_phase

LEVEL = 'proof'
FDE_FAMILY = ('FDE', 'KFDE', 'TFDE', 'S4FDE', 'S5FDE')


def fragments(meta):
    out = [dict(modal=False, quant=False, ident=False)]
    if meta['modal']:
        out += [dict(modal=True, quant=False, ident=False)] * 3
    if meta['quantified']:
        out.append(dict(modal=meta['modal'], quant=True, ident=not meta['marks']))
    if not meta['marks']:
        out.append(dict(modal=meta['modal'], quant=False, ident=True))
    return out


def clause_of(answer: str) -> tuple[str, str]:
    "first failing clause of a driver answer `unsat <clause> <rule?> … | …` → (clause, rule)"
    first = answer[len('unsat '):].split(' | ')[0].split()
    clause = first[0] if first else '?'
    rule = first[1] if len(first) > 1 and not first[1][0].isdigit() and '=' not in first[1] else ''
    return clause, rule


def run(ctx: Ctx):
    data = logicobl.regenerate()
    res = lean_phase(ctx, ['Ptx.Props.C02'])
    if not res.ok:
        for f, decl in res.failed_decls() or [('?', '?')]:
            ctx.notes.append(f'lean build failed at {f}:{decl}')
    names = sorted(n for n, d in data.items() if 'fatal' not in d)
    rng = ctx.rng
    per = ctx.scale(14, 160)
    seeds = [0, 1] if not ctx.thorough else [0, 1, 2, 3]
    jobs = []
    import json
    from pytableaux.lang import Parser
    pol = Parser('polish')
    cdir = (__import__('pathlib').Path(__file__).resolve().parents[2] / 'corpus' / 'C02')
    if cdir.exists():
        for f in sorted(cdir.glob('*.json')):
            for c in json.loads(f.read_text()):
                jobs.append(tabrun.job_for(len(jobs), c['logic'], [pol(x) for x in c['premises']], pol(c['conclusion']),
                                           opts=c.get('opts') or {}, mode='build', models=True, max_steps=600))
    for lg in names:
        fr = fragments(data[lg])
        for k in range(per):
            f = fr[k % len(fr)]
            prem, conc = tabrun.rand_argument(rng, depth=rng.choice([2, 3, 3]) if not f['quant'] else 2, **f)
            jobs.append(tabrun.job_for(len(jobs), lg, prem, conc, opts=tabrun.OPTS[rng.randrange(4)], mode=rng.choice(['build', 'step']),
                                       models=True, max_steps=ctx.scale(400, 1500)))
    outs = []
    for sd in seeds:
        sub = [j for i, j in enumerate(jobs) if i % len(seeds) == seeds.index(sd)]
        outs += [(j, o, sd) for j, o in zip(sub, tabrun.run_jobs(sub, order_seed=sd))]
    stats = collections.Counter()
    reqs, where = [], []
    for j, o, sd in outs:
        if 'error' in o:
            stats['exception'] += 1
            ctx.fail(f'C02:run-exception:{j["logic"]}:{o["error"].split(":")[0]}', f'{j["logic"]}: the prover raised {o["error"][:200]}',
                     dict(argument=tabrun.arg_text(j), order_seed=sd, traceback=o.get('traceback')), found_input=bool(o.get('repo')))
            continue
        stats['runs'] += 1
        if not o.get('invalid'):
            stats['valid' if o.get('valid') else 'premature'] += 1
            continue
        stats['invalid'] += 1
        for mi, m in enumerate(o.get('models') or []):
            if m is None:
                stats['open-branch-without-model'] += 1
                ctx.fail(f'C02:no-model:{j["logic"]}', f'{j["logic"]}: an open branch of an invalid tableau has no model',
                         dict(argument=tabrun.arg_text(j), order_seed=sd, mode=j['mode']), found_input=True)
                continue
            if m['quit']:
                stats['limit-flag-branches'] += 1
                continue
            stats['limit-free-open-branches'] += 1
            reqs.append(f'saturated {j["logic"]} ## {m["branch"]}')
            where.append((j, o, sd, m))
    answers = drive(reqs) if (res.ok and reqs) else [None] * len(reqs)
    clause_hist = collections.Counter()
    for (j, o, sd, m), a in zip(where, answers):
        lg = j['logic']
        ctx.count((lg, tuple(j['premises']), j['conclusion'], m['index'], sd))
        sat = (a == 'ok')
        clause, rule = ('', '')
        if a is not None and a.startswith('unsat'):
            clause, rule = clause_of(a)
            clause_hist[clause] += 1
        bad = bool(m['bad']) or m['countermodel'] is not True
        rep = dict(argument=tabrun.arg_text(j), order_seed=sd, mode=j['mode'], branch_index=m['index'],
                   branch=m['branch'][:3000], unsatisfied_nodes=m['bad'][:4], is_countermodel=m['countermodel'], saturation=a)
        if bad:
            stats['bogus-models'] += 1
            tag = 'saturated' if sat else f'unsaturated:{clause}' + (':world-limit-without-flag' if m.get('world_limit') else '')
            ctx.fail(f'C02:node-unsatisfied:{lg}:{tag}',
                     f'{lg}: the library model of a limit-free open branch does not satisfy the branch '
                     f'({len(m["bad"])} node(s), is_countermodel_to={m["countermodel"]}); saturation check: {(a or "n/a")[:120]}', rep, found_input=True)
        elif a is not None and not sat and a != 'quit':
            stats['unsaturated-but-model-ok'] += 1
            tag = clause + (f':{rule}' if rule else '') + (':world-limit-without-flag' if m.get('world_limit') else '')
            ctx.fail(f'C02:unsaturated:{lg}:{tag}',
                     f'{lg}: the tableau is completed and invalid but an open branch without limit flag is not saturated: {a[:200]}', rep, found_input=True)
        elif sat:
            stats['saturated-and-satisfied'] += 1
    if not res.ok and not ctx.violations:
        for f, d in res.failed_decls() or [('?', '?')]:
            ctx.fail(f'C02:lean:build:{d}', f'Lean build failed at {f}:{d}; the oracle found no failing input', dict(theorem=d, file=f, log=res.log[-2000:]),
                     found_input=False)
    ctx.add_cov(run_stats=dict(stats), unsaturated_clause_histogram=dict(clause_hist), logics=len(names),
                traces_validated_against_impl=stats['saturated-and-satisfied'],
                option_matrix='is_group_optim × is_rank_optim (4) × build/step; tie-break seeds ' + str(seeds),
                rule='per logic: seeded random arguments (propositional, modal ×3, first-order, identity), models built; distinct = distinct '
                     '(logic, argument, open limit-free branch, seed); for each: library model vs every node of the branch, is_countermodel_to, and the '
                     'Lean saturation predicate on the real final branch')
    ctx.coverage['trusted_base'] += ['harness/tabworker.py (dumps real branches; asks the real model for the value of every node)',
                                     'Ptx/Tab/Saturated.lean is the definition of "saturated" the theorem and the runtime check share']
    ctx.assumptions += [
        'a rule instance counts as applied when all nodes of one of its groups are on the branch, however they got there',
        'branches carrying a quit flag are outside the property (cut short by a world / constant limit)',
        'in serial logics an each-world node at a world without successor needs one (the model builder adds a single extra world that carries nothing)']
    for (j, o, sd, m), a in list(zip(where, answers))[:3]:
        ctx.sample(dict(argument=tabrun.arg_text(j), branch_nodes=m['branch'].count(';') + 1, saturation=a, model_ok=not m['bad']))


def replay(data) -> int:
    rp = data.get('replay', {})
    a = rp.get('argument')
    if not a:
        print('nothing to replay')
        return 2
    import os, subprocess, json, sys
    from ..common import PY, ROOT
    job = dict(id=0, logic=a['logic'], premises=None, conclusion=None)
    code = ("import sys,json;sys.path.insert(0,%r);from harness import common, wire;from pytableaux.lang import Parser;p=Parser('polish');"
            "a=json.loads(sys.argv[1]);from harness import tabworker;"
            "j=dict(id=0,logic=a['logic'],premises=[wire.enc_sent(p(x)) for x in a['premises']],conclusion=wire.enc_sent(p(a['conclusion'])),"
            "opts=a.get('opts') or {},models=True,max_steps=1500,mode=sys.argv[2]);print(json.dumps(tabworker.run_job(j)))" % str(ROOT))
    p = subprocess.run([PY, '-c', code, json.dumps(a), rp.get('mode', 'build')], capture_output=True, text=True, cwd=str(ROOT),
                       env=dict(os.environ, PYTABLEAUX_VERIF='1', PYTABLEAUX_VERIF_ORDER=str(rp.get('order_seed', 0)), PYTHONHASHSEED='0'))
    try:
        o = json.loads(p.stdout.strip().splitlines()[-1])
    except Exception:  # noqa
        print(p.stderr[-1500:])
        return 2
    bad = 0
    reqs, ms = [], []
    for m in o.get('models') or []:
        if m and not m['quit']:
            reqs.append(f'saturated {a["logic"]} ## {m["branch"]}')
            ms.append(m)
    ans = drive(reqs) if reqs else []
    for m, x in zip(ms, ans):
        print('branch', m['index'], 'unsatisfied nodes:', m['bad'][:3], 'countermodel:', m['countermodel'], 'saturation:', x[:160])
        if m['bad'] or m['countermodel'] is not True or x != 'ok':
            bad = 1
    return bad
