"""
C02 — an 'invalid' verdict comes with a genuine countermodel.

Deciding method (DESIGN §6 C02):
  * Lean (Ptx/Props/C02.lean): saturation is a DECIDABLE predicate on branches of the calculus model
    (Ptx/Tab/Saturated.lean); the Hintikka theorem says that a saturated open branch of a logic passing the
    kernel-evaluated side conditions (rule exactness backward half, closure exactness, read table) is satisfied
    node by node by the canonical structure read off its literals.
  * correspondence / oracle on real runs (all logics × option matrix × tie-break seeds, models built): for every
    completed 'invalid' tableau and every open branch without a limit flag
      (a) implementation side: the library's own model (branch.model) must give every sentence node on the branch a
          value that satisfies it (designated / undesignated, at its world) and `is_countermodel_to(argument)` must
          agree;
      (b) the driver evaluates `saturated` on Python's final branch: 'completed' must mean saturated; a failing
          clause names the missing rule instance — the branch itself is the concrete failing input.
"""
from __future__ import annotations

import collections
import re

from .. import logicobl, searchcorr, tabrun
from ..common import Ctx, drive, lean_phase

LEVEL = 'proof'
FDE_FAMILY = ('FDE', 'KFDE', 'TFDE', 'S4FDE', 'S5FDE')


def fragments(meta):
    out = [dict(modal=False, quant=False, ident=False)]
    if meta['modal']:
        out += [dict(modal=True, quant=False, ident=False)] * 3
    if meta['quantified']:
        out.append(dict(modal=meta['modal'], quant=True, ident=not meta['marks']))
    if not meta['marks']:
        out.append(dict(modal=meta['modal'], quant=False, ident=True))
    return out


def clause_of(answer: str) -> tuple[str, str]:
    "first failing clause of a driver answer `unsat <clause> <rule?> … | …` → (clause, rule)"
    first = answer[len('unsat '):].split(' | ')[0].split()
    clause = first[0] if first else '?'
    rule = first[1] if len(first) > 1 and not first[1][0].isdigit() and '=' not in first[1] else ''
    return clause, rule


def write_obligations(names) -> list[str]:
    """Ptx/Gen/ObH_<L>.lean (one module per logic, built in parallel) + Ptx/Gen/ObHintikka.lean importing them all: per logic
    the kernel-evaluated side conditions of the Hintikka lemma and the instantiated theorems (countermodel of a saturated
    branch, C03 completeness / termination, C09 exclusivity) for the logics whose rule rows have weights (Ptx/Gen/ObMeasure.lean).
    Returns the logics with an instantiated (propositional + modal) theorem; `.covered_fo` those with the first-order one;
    `.modules` the generated module names."""
    from .. import common
    from ..extract import weights
    weights.generate()
    ob = (common.LEAN / 'Ptx' / 'Gen' / 'ObMeasure.lean').read_text()
    gen = common.LEAN / 'Ptx' / 'Gen'
    covered, covered_fo, modules = [], [], []
    # search layer: which logics pass the decidable side conditions of Ptx/Search/Side.lean (asked of the compiled driver when it
    # knows the request; otherwise the theorem is emitted and the kernel decides)
    side_bad = {}
    # emitted only when the Lean project written into already defines what the obligations use (an older project keeps building)
    def _has(rel, *words):
        try:
            txt = (common.LEAN / rel).read_text()
        except OSError:
            return False
        return all(w in txt for w in words)
    search_ready = (_has('Ptx/Props/Search.lean', 'theorem completed_is_saturated ', 'theorem completed_is_saturated_run ')
                    and _has('Ptx/Search/Side.lean', 'def searchSideB') and _has('Ptx/Proofs/Search.lean', 'def noTargetsB', 'def inScopeB'))
    if search_ready:
        try:
            for n, a in zip(names, common.drive([f'searchside {n}' for n in names])):
                if a.startswith('bad'):
                    side_bad[n] = a[4:]
        except Exception:  # noqa - driver not built yet
            pass
    write_obligations.search_side_bad = side_bad
    write_obligations.search_ready = search_ready
    search_reach = search_ready and _has('Ptx/Props/Search.lean', 'theorem search_run_deriv ', 'theorem inv_reachable ')
    search_fo = (search_reach and _has('Ptx/Props/Search.lean', 'theorem search_completed_saturated_fo ', 'theorem invq_reachable ')
                 and _has('Ptx/Search/Side.lean', 'def quantTicksB'))
    search_sound = search_reach and _has('Ptx/Props/SearchSound.lean', 'theorem search_closed_valid ')
    known_unsound = set()
    try:
        ktxt = (common.LEAN / 'Ptx' / 'Gen' / 'Known.lean').read_text()
        blk = ktxt[ktxt.index('def unsoundRules'):]
        blk = blk[:blk.index('\ndef ', 5)] if '\ndef ' in blk[5:] else blk
        known_unsound = set(re.findall(r'\| "([A-Za-z0-9]+)" =>', blk))
    except (OSError, ValueError):
        search_sound = False
    for n in names:
        S, W = f'Gen.{n}.sem', f'Gen.W_{n}'
        lines = [f'/- GENERATED by harness/props/c02.py for logic {n} from the data regenerated from /repo. Do not edit.',
                 '   Side conditions of the Hintikka lemma with the DOCUMENTED tables (decide +kernel) and the instantiated theorems. -/',
                 f'import Ptx.Gen.Obl_{n}', 'import Ptx.Gen.ObMeasure', 'import Ptx.Props.C02', 'import Ptx.Props.C09', *(['import Ptx.Props.Search'] if search_ready else []), *(['import Ptx.Props.SearchSound'] if search_sound else []),
                 'namespace Ptx.Gen.ObHintikka', 'open Ptx', '',
                 f'theorem {n}_measure_sem (p : RuleKey → Bool) : {S}.measureOKOnB p {W} = Gen.{n}.measureOKOnB p {W} := by',
                 '  unfold LogicData.sem; split <;> rfl',
                 f'theorem {n}_hintikka_core : {S}.hintikkaCoreB = true := by decide +kernel',
                 f'theorem {n}_trunk_back : {S}.trunkBackB = true := by decide +kernel',
                 f'theorem {n}_has_T : {S}.T.vals.contains .T = true := by decide +kernel',
                 f'theorem {n}_has_F : {S}.T.vals.contains .F = true := by decide +kernel']
        if re.search(rf'^theorem {n}_measure_noquant ', ob, flags=re.M):
            covered.append(n)
            hw = f'(({n}_measure_sem RuleKey.notQuant).trans ObMeasure.{n}_measure_noquant)'
            lines += [
                f'theorem {n}_c02_countermodel (arg : Argument) (t : Tableau) (hd : Deriv {S} (trunk {S} arg) t)',
                f'    (b : Branch) (hb : b ∈ t) (hsat : {S}.saturatedB b = true) (hg : b.groundB {S} = true) :',
                f'    (Canon.struct {S} b).Interp {S} ∧ Countermodel {S} (Canon.struct {S} b) Canon.env (0 : Nat) arg :=',
                f'  Props.C02.C02_countermodel_partial {S} {W} {n}_hintikka_core {hw} {n}_has_T {n}_has_F',
                f'    {n}_trunk_back arg t hd b hb hsat hg',
                f'/-- C03 completeness half for {n}: a truth-table-valid propositional argument has no saturated ground open branch -/',
                f'theorem {n}_c03_complete (arg : Argument) (hp : arg.isProp = true) (hv : ttValid {S}.T arg = true)',
                f'    (t : Tableau) (hd : Deriv {S} (trunk {S} arg) t) (b : Branch) (hb : b ∈ t)',
                f'    (hsat : {S}.saturatedB b = true) (hg : b.groundB {S} = true) : False :=',
                f'  Props.C03.C03_ttValid_implies_closed_partial {S} {W} {n}_hintikka_core {hw} {n}_has_T {n}_has_F',
                f'    {n}_trunk_back arg hp hv t hd b hb hsat hg',
                f'/-- C09 for {n}: a closed derivation and a saturated ground open branch (any premise order / multiplicity) exclude each other -/',
                f"theorem {n}_c09_exclusive (arg arg' : Argument) (hsame : Props.C09.SameArgument arg arg')",
                f'    (t : Tableau) (hd : Deriv {S}.soundPart (trunk {S} arg) t) (hclosed : t.allClosed = true)',
                f"    (t' : Tableau) (hd' : Deriv {S} (trunk {S} arg') t') (b : Branch) (hb : b ∈ t')",
                f'    (hsat : {S}.saturatedB b = true) (hg : b.groundB {S} = true) : False :=',
                f'  Props.C09.C09_outcomes_exclusive_partial {S} {W} Obl.{n}.sound_core {n}_hintikka_core {hw} {n}_has_T {n}_has_F',
                f"    {n}_trunk_back arg arg' hsame t hd hclosed t' hd' b hb hsat hg"]
            if re.search(rf'^theorem {n}_measure ', ob, flags=re.M):
                covered_fo.append(n)
                hwa = f'(({n}_measure_sem (fun _ => true)).trans ObMeasure.{n}_measure)'
                lines += [
                    f'/-- first-order branches for {n} (weights for every rule row) -/',
                    f'theorem {n}_c02_countermodel_fo (arg : Argument) (t : Tableau) (hd : Deriv {S} (trunk {S} arg) t)',
                    f'    (b : Branch) (hb : b ∈ t) (hsat : {S}.saturatedB b = true) (hg : b.foB {S} = true) :',
                    f'    (Canon.struct {S} b).Interp {S} ∧ Countermodel {S} (Canon.struct {S} b) Canon.env (0 : Nat) arg :=',
                    f'  Props.C02.C02_countermodel_fo_partial {S} {W} {n}_hintikka_core {hwa} {n}_has_T {n}_has_F',
                    f'    {n}_trunk_back arg t hd b hb hsat hg',
                    f"theorem {n}_c09_exclusive_fo (arg arg' : Argument) (hsame : Props.C09.SameArgument arg arg')",
                    f'    (t : Tableau) (hd : Deriv {S}.soundPart (trunk {S} arg) t) (hclosed : t.allClosed = true)',
                    f"    (t' : Tableau) (hd' : Deriv {S} (trunk {S} arg') t') (b : Branch) (hb : b ∈ t')",
                    f'    (hsat : {S}.saturatedB b = true) (hg : b.foB {S} = true) : False :=',
                    f'  Props.C09.C09_outcomes_exclusive_fo_partial {S} {W} Obl.{n}.sound_core {n}_hintikka_core {hwa} {n}_has_T {n}_has_F',
                    f"    {n}_trunk_back arg arg' hsame t hd hclosed t' hd' b hb hsat hg"]
        else:
            lines.append(f'-- {n}: no linear weights for all non-quantifier rows (see Ptx/Gen/ObMeasure.lean); no instantiated theorem')
        if not search_ready:
            pass
        elif n in side_bad:
            lines.append(f'-- {n}: search-layer side conditions fail ({side_bad[n]}); no instantiated completed_is_saturated')
        else:
            lines += [
                f'/-- search layer: side conditions of Ptx/Search/Side.lean for {n} -/',
                f'theorem {n}_search_side : Search.searchSideB {S} = true := by decide +kernel',
                f'/-- completed ⇒ saturated for {n}: in every search state satisfying the invariant, an open branch without any target, quit flag or',
                f'    world-limit excess (propositional + modal scope) is saturated — the hypothesis `hsat` of the theorems above -/',
                f'theorem {n}_completed_is_saturated (s : Search.SState) (hinv : Search.Inv {S} s) (bi : Nat) (b : Branch)',
                f'    (hb : s.tab[bi]? = some b) (hopen : b.closed = false) (hnone : ∀ r : Search.RuleId, Search.targets {S} s r bi = [])',
                f'    (hq : b.hasQuit = false) (hlim : Search.exceeded s.maxWorlds b = false) (hscope : Search.InScope {S} b) :',
                f'    {S}.saturatedB b = true :=',
                f'  Props.Search.completed_is_saturated {S} {n}_search_side s hinv bi b hb hopen hnone hq hlim hscope',
                f'/-- the same for a state on which the run-time check `invBad` (evaluated by the driver on every state of every real run) reports nothing -/',
                f'theorem {n}_completed_is_saturated_run (s : Search.SState) (hchk : Search.invBad {S} s = []) (bi : Nat) (b : Branch)',
                f'    (hb : s.tab[bi]? = some b) (hopen : b.closed = false) (hnone : Search.noTargetsB {S} s bi = true)',
                f'    (hq : b.hasQuit = false) (hlim : Search.exceeded s.maxWorlds b = false) (hscope : Search.inScopeB {S} b = true) :',
                f'    {S}.saturatedB b = true :=',
                f'  Props.Search.completed_is_saturated_run {S} {n}_search_side s hchk bi b hb hopen hnone hq hlim hscope']
            if n in covered:
                lines += [
                    f'/-- … and therefore carries a genuine countermodel when the search state sits on a tableau derived from the trunk -/',
                    f'theorem {n}_completed_countermodel (arg : Argument) (s : Search.SState) (hd : Deriv {S} (trunk {S} arg) s.tab)',
                    f'    (hinv : Search.Inv {S} s) (bi : Nat) (b : Branch) (hb : s.tab[bi]? = some b) (hopen : b.closed = false)',
                    f'    (hnone : ∀ r : Search.RuleId, Search.targets {S} s r bi = []) (hq : b.hasQuit = false)',
                    f'    (hlim : Search.exceeded s.maxWorlds b = false) (hscope : Search.InScope {S} b) (hg : b.groundB {S} = true) :',
                    f'    (Canon.struct {S} b).Interp {S} ∧ Countermodel {S} (Canon.struct {S} b) Canon.env (0 : Nat) arg :=',
                    f'  {n}_c02_countermodel arg s.tab hd b (List.mem_of_getElem? hb)',
                    f'    ({n}_completed_is_saturated s hinv bi b hb hopen hnone hq hlim hscope) hg']
                if search_reach:
                    lines += [
                        f'/-- {n}: in EVERY state the search model reaches from the trunk of `arg` (any options, scores, tie-breaks, search order), an open branch',
                        f'    on which no rule has a target — no quit flag, within the world limit, propositional + modal scope, ground — yields a genuine countermodel -/',
                        f'theorem {n}_search_completed_countermodel (arg : Argument) (s : Search.SState) (hr : Search.Reach {S} arg s)',
                        f'    (bi : Nat) (b : Branch) (hb : s.tab[bi]? = some b) (hopen : b.closed = false)',
                        f'    (hnone : ∀ r : Search.RuleId, Search.targets {S} s r bi = []) (hq : b.hasQuit = false)',
                        f'    (hlim : Search.exceeded s.maxWorlds b = false) (hscope : Search.InScope {S} b) (hg : b.groundB {S} = true) :',
                        f'    (Canon.struct {S} b).Interp {S} ∧ Countermodel {S} (Canon.struct {S} b) Canon.env (0 : Nat) arg :=',
                        f'  {n}_completed_countermodel arg s (Props.Search.search_run_deriv {S} arg s hr) (Props.Search.inv_reachable {S} arg s hr)',
                        f'    bi b hb hopen hnone hq hlim hscope hg']
        if search_fo and n not in side_bad:
            hyps = ['    (bi : Nat) (b : Branch) (hb : s.tab[bi]? = some b) (hopen : b.closed = false) (htq : Search.TickedQ ' + S + ' b)',
                    f'    (hnone : ∀ r : Search.RuleId, Search.targets {S} s r bi = []) (hq : b.hasQuit = false)',
                    f'    (hlim : Search.exceeded s.maxWorlds b = false) (hclim : ∀ w, Search.constExceeded s.maxConsts b w = false)',
                    f'    (hcl : b.constList ≠ [] ∨ ∀ sn d w r whole l0, Node.sent sn d w ∈ b.nodes → {S}.ruleFor sn d = some (r, whole, l0) →',
                    f'      r.witness ≠ .newConst ∧ r.witness ≠ .eachConst)',
                    f'    (hident : {S}.identMissing b = [])']
            lines += [
                f'/-- search layer, first-order: new-constant rules tick, each-constant rules do not ({n}) -/',
                f'theorem {n}_search_side_fo : Search.quantTicksB {S} = true := by decide +kernel',
                f'/-- completed ⇒ saturated for {n}, branches with quantifier nodes included (`NodeConsts` / `MaxConsts` inside the model) -/',
                f'theorem {n}_completed_is_saturated_fo (s : Search.SState) (hinv : Search.Inv {S} s) (hinvq : Search.InvQ {S} s)',
                *hyps, f'    : {S}.saturatedB b = true :=',
                f'  Props.Search.completed_is_saturated_fo {S} {n}_search_side {n}_search_side_fo s hinv hinvq bi b hb hopen htq hnone hq hlim hclim hcl hident']
            if _has('Ptx/Props/Search.lean', 'theorem completed_is_saturated_all '):
                lines += [
                    f'/-- completed ⇒ saturated for {n} with NO scope hypothesis (identity substitution inside the model: IdentityIndiscernability / PredNodes) -/',
                    f'theorem {n}_completed_is_saturated_all (s : Search.SState) (hinv : Search.Inv {S} s) (hinvq : Search.InvQ {S} s)',
                    *hyps[:-1], f'    : {S}.saturatedB b = true :=',
                    f'  Props.Search.completed_is_saturated_all {S} {n}_search_side {n}_search_side_fo s hinv hinvq bi b hb hopen htq hnone hq hlim hclim hcl']
            if n in covered_fo:
                lines += [
                    f'/-- {n}, first order: in EVERY state the search model reaches from the trunk, an open branch on which no rule has a target — no quit',
                    f'    flag, within the world and constant limits, identity substitution idle, first-order (`foB`) — yields a genuine countermodel -/',
                    f'theorem {n}_search_completed_countermodel_fo (arg : Argument) (s : Search.SState) (hr : Search.Reach {S} arg s)',
                    *hyps, f'    (hg : b.foB {S} = true) :',
                    f'    (Canon.struct {S} b).Interp {S} ∧ Countermodel {S} (Canon.struct {S} b) Canon.env (0 : Nat) arg :=',
                    f'  {n}_c02_countermodel_fo arg s.tab (Props.Search.search_run_deriv {S} arg s hr) b (List.mem_of_getElem? hb)',
                    f'    ({n}_completed_is_saturated_fo s (Props.Search.inv_reachable {S} arg s hr) (Props.Search.invq_reachable {S} arg s hr)',
                    f'      bi b hb hopen htq hnone hq hlim hclim hcl hident) hg']
        if search_reach and n not in side_bad and _has('Ptx/Proofs/SearchLegalT.lean', 'def templatesQOKB') and _has('Ptx/Props/Search.lean', 'theorem search_terminates_prop_nonframe '):
            lines += [
                f'/-- side conditions of the progress theorems (target_legal_closure / _table / _quant, search_progress) for {n}: the regenerated',
                f'    closure table is monotone and every regenerated rule template instantiates -/',
                f'theorem {n}_search_progress_side : Search.closureMonoB {S} = true ∧ Search.templatesOKB {S} = true ∧ Search.templatesQOKB {S} = true := by',
                f'  decide +kernel',
                f'/-- termination of the search model for {n} on propositional arguments (applications other than access-rule steps) -/',
                f'theorem {n}_search_terminates (arg : Argument) (hp : arg.isProp = true) (nT nF : Nat) (s : Search.SState)',
                f'    (h : Search.ReachTF Gen.{n} arg nT nF s) : nT ≤ termBound Gen.{n} {W} arg ∧ s.tab.allProp ∧ s.tab.noQuit :=',
                f'  Props.Search.search_terminates_prop_nonframe Gen.{n} {W} ObMeasure.{n}_measure_tf ObMeasure.{n}_tfrows arg hp nT nF s h']
        if search_sound and n not in known_unsound:
            lines += [
                f'/-- the VALID verdict of the search model for {n}: in a reachable state with every branch closed no interpretation is a countermodel -/',
                f'theorem {n}_search_closed_valid (arg : Argument) (s : Search.SState) (hr : Search.Reach {S} arg s) (hclosed : s.tab.allClosed = true)',
                f'    (M : Struct) (hM : M.Interp {S}) (e : Env M.D) (w0 : M.W) : ¬ Countermodel {S} M e w0 arg :=',
                f'  Props.Search.search_closed_valid {S} Obl.{n}.sound_core (by decide +kernel) arg s hr hclosed M hM e w0']
        elif search_sound:
            lines.append(f'-- {n}: has rule rows listed as unsound known findings; search_closed_valid is not instantiated (C01 covers derivations that avoid them)')
        lines += [f'/-- C03 termination for {n} (tick-respecting derivations, propositional fragment) -/',
                  f'theorem {n}_c03_terminates (arg : Argument) (hp : arg.isProp = true) (t : Tableau) (steps : List Step)',
                  f'    (h : replayFresh Gen.{n} (trunk Gen.{n} arg) steps = some t) : steps.length ≤ termBound Gen.{n} {W} arg ∧ t.noQuit :=',
                  f'  Props.C03.C03_terminates_partial Gen.{n} {W} ObMeasure.{n}_measure_tf ObMeasure.{n}_tfrows arg hp t steps h',
                  '', 'end Ptx.Gen.ObHintikka', '']
        common.write_if_changed(gen / f'ObH_{n}.lean', '\n'.join(lines))
        modules.append(f'Ptx.Gen.ObH_{n}')
    for f in gen.glob('ObH_*.lean'):
        if f.stem[4:] not in names:
            f.unlink()
    common.write_if_changed(gen / 'ObHintikka.lean', '/- GENERATED: all per-logic Hintikka instantiations -/\n' +
                            ''.join(f'import Ptx.Gen.ObH_{n}\n' for n in names))
    write_obligations.covered_fo = covered_fo
    write_obligations.modules = modules
    return covered


def run(ctx: Ctx):
    data = logicobl.regenerate()
    names0 = sorted(n for n, d in data.items() if 'fatal' not in d)
    covered = write_obligations(names0)
    res = lean_phase(ctx, ['Ptx.Props.C02', 'Ptx.Props.Search', 'Ptx.Props.SearchSound', 'Ptx.Gen.ObMeasure'] + write_obligations.modules + ['Ptx.Props.Witness', 'Ptx.Props.WitnessAll'], extra_targets=['Ptx.Gen.ObHintikka'])
    for lg, why in sorted(getattr(write_obligations, 'search_side_bad', {}).items()):
        ctx.fail(f'C02:search-side:{lg}:{why.split()[0]}', f'{lg}: the side conditions of the search-layer theorem completed_is_saturated no longer hold '
                 f'for the regenerated data ({why}); the theorem is not instantiated for this logic', dict(logic=lg, failing=why), found_input=False)
    ctx.add_cov(logics_with_completed_is_saturated=(len(names0) - len(getattr(write_obligations, 'search_side_bad', {}))) if getattr(write_obligations, 'search_ready', False) else 0)
    ctx.add_cov(logics_with_instantiated_hintikka_theorem=len(covered), logics_without=sorted(set(names0) - set(covered)),
                logics_with_first_order_hintikka_theorem=len(getattr(write_obligations, 'covered_fo', [])))
    if not res.ok:
        for f, decl in res.failed_decls() or [('?', '?')]:
            ctx.notes.append(f'lean build failed at {f}:{decl}')
    # search layer: the rule helpers / caches and `_get_targets` against the Lean search model, at every step of real runs
    try:
        searchcorr.run_part(ctx, data)
    except Exception as e:  # noqa
        ctx.fail('C02:search-corr:harness:exception', f'search-layer correspondence could not run: {type(e).__name__}: {e}'[:300],
                 dict(stream='search-corr'), found_input=False)
    names = sorted(n for n, d in data.items() if 'fatal' not in d)
    rng = ctx.rng
    per = ctx.scale(14, 160)
    seeds = [0, 1] if not ctx.thorough else [0, 1, 2, 3]
    jobs = []
    import json
    from pytableaux.lang import Parser
    pol = Parser('polish')
    cdir = (__import__('pathlib').Path(__file__).resolve().parents[2] / 'corpus' / 'C02')
    if cdir.exists():
        for f in sorted(cdir.glob('*.json')):
            for c in json.loads(f.read_text()):
                jobs.append(tabrun.job_for(len(jobs), c['logic'], [pol(x) for x in c['premises']], pol(c['conclusion']),
                                           opts=c.get('opts') or {}, mode='build', models=True, max_steps=600))
    for lg in names:
        fr = fragments(data[lg])
        for k in range(per):
            f = fr[k % len(fr)]
            prem, conc = (tabrun.schema_argument(rng, depth=2, **f) if k % 3 == 2 else
                          tabrun.rand_argument(rng, depth=rng.choice([2, 3, 3]) if not f['quant'] else 2, **f))
            jobs.append(tabrun.job_for(len(jobs), lg, prem, conc, opts=tabrun.OPTS[rng.randrange(4)], mode=rng.choice(['build', 'step']),
                                       models=True, max_steps=ctx.scale(400, 1500)))
    # targeted: every rule row that no longer passes its kernel-evaluated exactness check (and is not a known finding of C04)
    from .. import targeted
    rep_rows = [(r[1], r[2]) for r in (logicobl.report_lines() or []) if r[0] == 'rules_exact']
    known4 = [e for e in __import__('harness.common', fromlist=['x']).load_known() if e['property'] == 'C04']
    import fnmatch as _fn
    ntarget = 0
    seen_rules = collections.Counter()
    for lg, kn in rep_rows:
        if any(_fn.fnmatchcase(f'C04:rules_exact:{lg}:{kn}:', e['key'].rsplit(':', 1)[0] + ':') or _fn.fnmatchcase(f'C04:rules_exact:{lg}:{kn}:x', e['key'].rsplit(':', 1)[0] + ':*') for e in known4):
            continue
        if seen_rules[kn] >= 3:
            continue
        seen_rules[kn] += 1
        for prem, conc in targeted.arguments_around(kn, data[lg]['modal']):
            jobs.append(tabrun.job_for(len(jobs), lg, prem, conc, opts=tabrun.OPTS[0], mode='build', models=True, max_steps=400))
            ntarget += 1
    ctx.add_cov(targeted_jobs=ntarget, targeted_rules=sorted(seen_rules))
    outs = []
    for sd in seeds:
        sub = [j for i, j in enumerate(jobs) if i % len(seeds) == seeds.index(sd)]
        outs += [(j, o, sd) for j, o in zip(sub, tabrun.run_jobs(sub, order_seed=sd))]
    stats = collections.Counter()
    reqs, where = [], []
    for j, o, sd in outs:
        if 'error' in o:
            stats['exception'] += 1
            ctx.fail(f'C02:run-exception:{j["logic"]}:{o["error"].split(":")[0]}', f'{j["logic"]}: the prover raised {o["error"][:200]}',
                     dict(argument=tabrun.arg_text(j), order_seed=sd, traceback=o.get('traceback')), found_input=bool(o.get('repo')))
            continue
        stats['runs'] += 1
        if not o.get('invalid'):
            stats['valid' if o.get('valid') else 'premature'] += 1
            continue
        stats['invalid'] += 1
        for mi, m in enumerate(o.get('models') or []):
            if m is None:
                stats['open-branch-without-model'] += 1
                ctx.fail(f'C02:no-model:{j["logic"]}', f'{j["logic"]}: an open branch of an invalid tableau has no model',
                         dict(argument=tabrun.arg_text(j), order_seed=sd, mode=j['mode']), found_input=True)
                continue
            if m['quit']:
                stats['limit-flag-branches'] += 1
                continue
            stats['limit-free-open-branches'] += 1
            reqs.append(f'saturated {j["logic"]} ## {m["branch"]}')
            where.append((j, o, sd, m))
    answers = [None] * len(reqs)
    if reqs:
        try:
            answers = drive(reqs)          # the driver depends on the regenerated logics only, not on the obligations
        except Exception as e:  # noqa
            ctx.notes.append(f'driver unavailable: {e}'[:300])
    clause_hist = collections.Counter()
    for (j, o, sd, m), a in zip(where, answers):
        lg = j['logic']
        ctx.count((lg, tuple(j['premises']), j['conclusion'], m['index'], sd))
        sat = a is not None and a.startswith('ok')
        if a == 'ok ground':
            stats['theorem-applies(saturated+ground)'] += 1
        elif a == 'ok fo':
            stats['theorem-applies(saturated+first-order)'] += 1
        clause, rule = ('', '')
        if a is not None and a.startswith('unsat'):
            clause, rule = clause_of(a)
            clause_hist[clause] += 1
        bad = bool(m['bad']) or m['countermodel'] is not True
        rep = dict(argument=tabrun.arg_text(j), order_seed=sd, mode=j['mode'], branch_index=m['index'],
                   branch=m['branch'][:3000], unsatisfied_nodes=m['bad'][:4], is_countermodel=m['countermodel'], saturation=a)
        if bad:
            stats['bogus-models'] += 1
            tag = ('saturation-unknown' if a is None else 'saturated' if sat else
                   f'unsaturated:{clause}' + (':world-limit-without-flag' if m.get('world_limit') else ''))
            ctx.fail(f'C02:node-unsatisfied:{lg}:{tag}',
                     f'{lg}: the library model of a limit-free open branch does not satisfy the branch '
                     f'({len(m["bad"])} node(s), is_countermodel_to={m["countermodel"]}); saturation check: {(a or "n/a")[:120]}', rep, found_input=True)
        elif a is not None and not sat and a != 'quit':
            stats['unsaturated-but-model-ok'] += 1
            tag = clause + (f':{rule}' if rule else '') + (':world-limit-without-flag' if m.get('world_limit') else '')
            ctx.fail(f'C02:unsaturated:{lg}:{tag}',
                     f'{lg}: the tableau is completed and invalid but an open branch without limit flag is not saturated: {a[:200]}', rep, found_input=True)
        elif sat:
            stats['saturated-and-satisfied'] += 1
    if not res.ok and not ctx.violations:
        for f, d in res.failed_decls() or [('?', '?')]:
            ctx.fail(f'C02:lean:build:{d}', f'Lean build failed at {f}:{d}; the oracle found no failing input', dict(theorem=d, file=f, log=res.log[-2000:]),
                     found_input=False)
    ctx.add_cov(run_stats=dict(stats), unsaturated_clause_histogram=dict(clause_hist), logics=len(names),
                traces_validated_against_impl=stats['saturated-and-satisfied'],
                option_matrix='is_group_optim × is_rank_optim (4) × build/step; tie-break seeds ' + str(seeds),
                rule='per logic: seeded random arguments (propositional, modal ×3, first-order, identity), models built; distinct = distinct '
                     '(logic, argument, open limit-free branch, seed); for each: library model vs every node of the branch, is_countermodel_to, and the '
                     'Lean saturation predicate on the real final branch')
    ctx.coverage['trusted_base'] += ['harness/tabworker.py (dumps real branches; asks the real model for the value of every node)',
                                     'Ptx/Tab/Saturated.lean is the definition of "saturated" the theorem and the runtime check share']
    ctx.assumptions += [
        'a rule instance counts as applied when all nodes of one of its groups are on the branch, however they got there',
        'branches carrying a quit flag are outside the property (cut short by a world / constant limit)',
        'in serial logics an each-world node at a world without successor needs one (the model builder adds a single extra world that carries nothing)']
    for (j, o, sd, m), a in list(zip(where, answers))[:3]:
        ctx.sample(dict(argument=tabrun.arg_text(j), branch_nodes=m['branch'].count(';') + 1, saturation=a, model_ok=not m['bad']))


def replay(data) -> int:
    rp = data.get('replay', {})
    if rp.get('stream') == 'search-corr':
        return searchcorr.replay(rp)
    a = rp.get('argument')
    if not a:
        print('nothing to replay')
        return 2
    import os, subprocess, json, sys
    from ..common import PY, ROOT
    job = dict(id=0, logic=a['logic'], premises=None, conclusion=None)
    code = ("import sys,json;sys.path.insert(0,%r);from harness import common, wire;from pytableaux.lang import Parser;p=Parser('polish');"
            "a=json.loads(sys.argv[1]);from harness import tabworker;"
            "j=dict(id=0,logic=a['logic'],premises=[wire.enc_sent(p(x)) for x in a['premises']],conclusion=wire.enc_sent(p(a['conclusion'])),"
            "opts=a.get('opts') or {},models=True,max_steps=1500,mode=sys.argv[2]);print(json.dumps(tabworker.run_job(j)))" % str(ROOT))
    p = subprocess.run([PY, '-c', code, json.dumps(a), rp.get('mode', 'build')], capture_output=True, text=True, cwd=str(ROOT),
                       env=dict(os.environ, PYTABLEAUX_VERIF='1', PYTABLEAUX_VERIF_ORDER=str(rp.get('order_seed', 0)), PYTHONHASHSEED='0'))
    try:
        o = json.loads(p.stdout.strip().splitlines()[-1])
    except Exception:  # noqa
        print(p.stderr[-1500:])
        return 2
    bad = 0
    reqs, ms = [], []
    for m in o.get('models') or []:
        if m and not m['quit']:
            reqs.append(f'saturated {a["logic"]} ## {m["branch"]}')
            ms.append(m)
    ans = drive(reqs) if reqs else []
    for m, x in zip(ms, ans):
        print('branch', m['index'], 'unsatisfied nodes:', m['bad'][:3], 'countermodel:', m['countermodel'], 'saturation:', x[:160])
        if m['bad'] or m['countermodel'] is not True or not x.startswith('ok'):
            bad = 1
    return bad
