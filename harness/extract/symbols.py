"""
Layer B translator for the symbol tables (C12/C13): reads every `ParseTable` and `StringTable`
instance off the running code and writes lean/Ptx/Gen/Symbols.lean (data) and
lean/Ptx/Gen/ObSymbols.lean (the table side-conditions the C12/C13 theorems need, each
discharged by `decide +kernel`).  Deterministic: sorted, no timestamps; a harmless refactor of
/repo leaves both files byte-identical.

Extraction is complete enumeration: every key of every table instance is visited; keys the
sentence writers/parsers never use (tableau / meta markings) are skipped by name.

run:  python -m harness.extract.symbols
"""
from __future__ import annotations

from .. import common
from ..common import LEAN, write_if_changed

GEN = LEAN / 'Ptx' / 'Gen'

OP1 = ['Assertion', 'Negation', 'Possibility', 'Necessity']
OP1L = dict(Assertion='asrt', Negation='neg', Possibility='poss', Necessity='nec')
OP2 = ['Conjunction', 'Disjunction', 'MaterialConditional', 'MaterialBiconditional', 'Conditional',
       'Biconditional']
OP2L = dict(Conjunction='conj', Disjunction='disj', MaterialConditional='mcond',
            MaterialBiconditional='mbicond', Conditional='cond', Biconditional='bicond')
QL = dict(Existential='ex', Universal='univ')


class ExtractError(Exception):
    pass


def _chars(s) -> str:
    return '[' + ', '.join(str(ord(c)) for c in s) + ']'


def _opt(s) -> str:
    return 'none' if s is NotImplemented or s is None else f'(some {_chars(s)})'


def _ident(*parts) -> str:
    out = '_'.join(str(p) for p in parts)
    return ''.join(ch if ch.isalnum() or ch == '_' else '_' for ch in out)


def read_tables() -> dict:
    """Plain-data mirror of the tables (also used by the Python side of the checks)."""
    from pytableaux.lang import (Atomic, Constant, LexType, Marking, Notation, Operator, Predicate,
                                 Quantifier, Variable)
    from pytableaux.lang.parsing import ParseTable
    from pytableaux.lang.writing import StringTable

    maxi = dict(atom=LexType.Atomic.maxi, var=LexType.Variable.maxi, const=LexType.Constant.maxi,
                pred=LexType.Predicate.maxi)
    ops = {o.name: o for o in Operator}
    if sorted(ops) != sorted(OP1 + OP2) or any(ops[n].arity != 1 for n in OP1) or any(ops[n].arity != 2 for n in OP2):
        raise ExtractError(f'operator set/arity changed: {[(o.name, o.arity) for o in Operator]}')
    if sorted(q.name for q in Quantifier) != sorted(QL):
        raise ExtractError('quantifier set changed')
    sysp = {p.name: tuple(p.spec) for p in Predicate.System}
    if sysp != dict(Existence=(-2, 0, 1), Identity=(-1, 0, 2)):
        raise ExtractError(f'system predicates changed: {sysp}')

    def tok(typ, val):
        if typ is Operator:
            return f'.op1 .{OP1L[val.name]}' if val.arity == 1 else f'.op2 .{OP2L[val.name]}'
        if typ is Quantifier:
            return f'.quant .{QL[val.name]}'
        if typ is Predicate.System:
            return f'.sysPred .{val.name.lower()}'
        if typ is Variable:
            return f'.var {int(val)}'
        if typ is Constant:
            return f'.const {int(val)}'
        if typ is Predicate:
            return f'.pred {int(val)}'
        if typ is Atomic:
            return f'.atom {int(val)}'
        if typ is Marking.paren_open:
            return '.parenOpen'
        if typ is Marking.paren_close:
            return '.parenClose'
        if typ is Marking.whitespace:
            return '.ws'
        if typ is Marking.digit:
            return f'.digit {int(val)}'
        raise ExtractError(f'unknown parse-table item type {typ!r}')

    ptabs = []
    for (notn, dialect), t in ParseTable._instances.items():
        entries = []
        for ch, item in t.items():
            if not isinstance(ch, str) or len(ch) != 1:
                raise ExtractError(f'parse table {notn.name}/{dialect}: key {ch!r} is not one character')
            typ, val = item
            entries.append((ord(ch), tok(typ, val)))
        ptabs.append(dict(notation=notn.name, dialect=dialect, entries=entries,
                          name=_ident('parse', notn.name, dialect)))
    ptabs.sort(key=lambda d: d['name'])

    stabs = []
    for (fmt, notn, dialect), t in StringTable._instances.items():
        def g(key):
            try:
                return t[key]
            except KeyError:
                raise ExtractError(f'string table {fmt}/{notn.name}/{dialect}: no entry for {key!r}')

        def strs(cls, n):
            out = []
            for i in range(n + 1):
                v = g((cls, i))
                if not isinstance(v, str):
                    raise ExtractError(f'string table {fmt}/{notn.name}/{dialect}: {(cls, i)!r} ↦ {v!r}')
                out.append(v)
            return out
        d = dict(
            format=fmt, notation=notn.name, dialect=dialect,
            name=_ident('str', fmt, notn.name, dialect),
            op1={n: g(ops[n]) for n in OP1}, op2={n: g(ops[n]) for n in OP2},
            quant={q.name: g(q) for q in Quantifier},
            identity=g(Predicate.Identity), existence=g(Predicate.Existence),
            negIdentity=g((Operator.Negation, Predicate.Identity)),
            atom=strs(Atomic, maxi['atom']), var=strs(Variable, maxi['var']),
            const=strs(Constant, maxi['const']), pred=strs(Predicate, maxi['pred']),
            parenOpen=g(Marking.paren_open), parenClose=g(Marking.paren_close),
            ws=g(Marking.whitespace), subOpen=g(Marking.subscript_open),
            subClose=g(Marking.subscript_close))
        # the writers look system predicates up by the object first, then by (Predicate, index)
        for nm, idx in (('identity', Predicate.Identity.index), ('existence', Predicate.Existence.index)):
            if g((Predicate, idx)) != d[nm]:
                raise ExtractError(f'string table {d["name"]}: (Predicate,{idx}) differs from {nm}')
        for k in ('identity', 'existence', 'ws', 'subOpen', 'subClose'):
            if not isinstance(d[k], str):
                raise ExtractError(f'string table {d["name"]}: {k} ↦ {d[k]!r}')
        stabs.append(d)
    stabs.sort(key=lambda d: d['name'])
    from pytableaux.lang.collect import Argument
    lw = Argument._argstr_lw
    argstr = dict(writer=_ident('str', lw.format, lw.notation.name, lw.dialect),
                  parser=_ident('parse', Argument._argstr_pclass.notation.name, 'default'),
                  opts=dict(lw.opts))
    from pytableaux.lang.parsing import Parser
    from pytableaux.lang.writing import StandardLexWriter
    defaults = dict(
        parser={n.name: dict(n.Parser.defaults) for n in Notation},
        std_writer=dict(StandardLexWriter.defaults))
    return dict(maxi=maxi, parse=ptabs, strings=stabs, argstr=argstr, defaults=defaults)


def lean_symbols(data: dict) -> str:
    m = data['maxi']
    out = ['/- GENERATED by harness/extract/symbols.py from the running pytableaux — do not edit. -/',
           'import Ptx.Lang.Symbols', 'namespace Ptx.Gen.Symbols', 'open Ptx Ptx.Sym', '',
           f'def maxi : MaxIdx := ⟨{m["atom"]}, {m["var"]}, {m["const"]}, {m["pred"]}⟩', '']
    for t in data['parse']:
        out.append(f'def {t["name"]} : ParseTable where')
        out.append(f'  notn := "{t["notation"]}"')
        out.append(f'  dialect := "{t["dialect"]}"')
        out.append('  entries := [' + ',\n    '.join(f'({c}, {k})' for c, k in t['entries']) + ']')
        out.append('')
    for t in data['strings']:
        out.append(f'def {t["name"]} : StringTable where')
        out.append(f'  format := "{t["format"]}"')
        out.append(f'  notn := "{t["notation"]}"')
        out.append(f'  dialect := "{t["dialect"]}"')
        out.append('  op1 := fun\n' + '\n'.join(f'    | .{OP1L[n]} => {_chars(t["op1"][n])}' for n in OP1))
        out.append('  op2 := fun\n' + '\n'.join(f'    | .{OP2L[n]} => {_chars(t["op2"][n])}' for n in OP2))
        out.append('  quant := fun\n' + '\n'.join(f'    | .{QL[n]} => {_chars(t["quant"][n])}' for n in sorted(QL)))
        out.append(f'  identity := {_chars(t["identity"])}')
        out.append(f'  existence := {_chars(t["existence"])}')
        out.append(f'  negIdentity := {_opt(t["negIdentity"])}')
        for k in ('atom', 'var', 'const', 'pred'):
            out.append(f'  {k} := [' + ', '.join(_chars(s) for s in t[k]) + ']')
        out.append(f'  parenOpen := {_opt(t["parenOpen"])}')
        out.append(f'  parenClose := {_opt(t["parenClose"])}')
        for k in ('ws', 'subOpen', 'subClose'):
            out.append(f'  {k} := {_chars(t[k])}')
        out.append('')
    out.append('def parseTables : List ParseTable := [' + ', '.join(t['name'] for t in data['parse']) + ']')
    out.append('def stringTables : List StringTable := [' + ', '.join(t['name'] for t in data['strings']) + ']')
    out.append('')
    a = data['argstr']
    out.append('/-- `Argument._argstr_lw` / `Argument._argstr_pclass` -/')
    out.append(f'def argstrWriter : StringTable := {a["writer"]}')
    out.append(f'def argstrParser : ParseTable := {a["parser"]}')
    d = data['defaults']
    pol = d['parser'].get('polish', {})
    std = d['parser'].get('standard', {})
    out.append('/-- parser / writer option defaults (`Parser.defaults`, `StandardLexWriter.defaults`) -/')
    out.append(f'def polishAutoPreds : Bool := {str(bool(pol.get("auto_preds", True))).lower()}')
    out.append(f'def standardAutoPreds : Bool := {str(bool(std.get("auto_preds", True))).lower()}')
    out.append(f'def standardDropParens : Bool := {str(bool(std.get("drop_parens", True))).lower()}')
    w = d['std_writer']
    out.append(f'def writerDropParens : Bool := {str(bool(w.get("drop_parens", True))).lower()}')
    out.append(f'def writerIdentityInfix : Bool := {str(bool(w.get("identity_infix", True))).lower()}')
    out.append(f'def writerMaxInfix : Nat := {int(w.get("max_infix", 0))}')
    out.append('')
    out.append('end Ptx.Gen.Symbols')
    return '\n'.join(out) + '\n'


def lean_obligations(data: dict) -> str:
    """One theorem per table per side-condition so that a failure names its culprit."""
    out = ['/- GENERATED by harness/extract/symbols.py — instance obligations for the symbol tables,',
           '   re-proved by kernel evaluation on every run. Do not edit. -/',
           'import Ptx.Gen.Symbols', 'import Ptx.Lang.Write', 'import Ptx.Lang.ParseCtx',
           'namespace Ptx.Gen.ObSymbols', 'open Ptx Ptx.Sym Ptx.Gen.Symbols', '']
    for t in data['parse']:
        out.append(f'theorem {t["name"]}_ok : {t["name"]}.OK maxi = true := by decide +kernel')
    for t in data['strings']:
        out.append(f'theorem {t["name"]}_complete : {t["name"]}.Complete maxi = true := by decide +kernel')
    out.append('')
    # writer table ↔ parser table compatibility (what the round-trip theorems need)
    parse_by_notn = {t['notation']: t['name'] for t in data['parse'] if t['dialect'] == 'default'}
    for t in data['strings']:
        p = parse_by_notn.get(t['notation'])
        if p and t["dialect"] == "ascii":
            cname = "Compat" if t["notation"] == "polish" else "CompatStd"
            out.append(f'theorem {t["name"]}_compat : Ptx.Write.{cname} {p} {t["name"]} = true := by decide +kernel')
    a = data['argstr']
    out.append(f'theorem argstr_compat : Ptx.Write.Compat argstrParser argstrWriter = true := by decide +kernel')
    out.append(f'theorem argstr_sep_unknown : argstrParser.lookup 58 = none := by decide +kernel')
    out.append(f'theorem argstr_writer_complete : argstrWriter.Complete maxi = true := by decide +kernel')
    out.append(f'theorem argstr_polish : argstrParser.notn = "polish" ∧ argstrWriter.notn = "polish" := by decide +kernel')
    for t in data['parse']:
        if t['notation'] == 'standard':
            out.append(f'theorem {t["name"]}_parens : ({t["name"]}.charOf? .parenOpen).isSome = true ∧ '
                       f'({t["name"]}.charOf? .parenClose).isSome = true := by decide +kernel')
    out.append('')
    # rendered-string decodability per string table
    for t in data['strings']:
        out.append(f'theorem {t["name"]}_symbols_distinct : Ptx.Write.SymbolsDistinct {t["name"]} = true := by decide +kernel')
    out.append('')
    out.append('end Ptx.Gen.ObSymbols')
    return '\n'.join(out) + '\n'


def generate() -> dict:
    """Regenerate both files; returns the plain-data mirror."""
    data = read_tables()
    write_if_changed(GEN / 'Symbols.lean', lean_symbols(data))
    write_if_changed(GEN / 'ObSymbols.lean', lean_obligations(data))
    return data


if __name__ == '__main__':
    d = generate()
    print(f'parse tables: {[t["name"] for t in d["parse"]]}')
    print(f'string tables: {[t["name"] for t in d["strings"]]}')
