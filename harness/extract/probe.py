"""
Layer B translator, part 1: interrogate the running pytableaux objects and return plain
Python data (dicts/lists of strings) describing every registered logic:

  meta, truth tables (complete graphs), quantifier/modal folds (graph over value SETS),
  rule templates (by running a real Tableau on probe arguments and abstracting what was added),
  closure table, read table, trunk shape.

Nothing here knows what the "right" answer is; it only records what the code does.
"""
from __future__ import annotations

import itertools

from .. import common  # noqa: F401

from pytableaux.lang import (Argument, Atomic, Constant, Operated, Operator, Predicate,
                             Predicated, Quantified, Quantifier, Variable)
from pytableaux.logics import registry
from pytableaux.proof import Tableau, rules as prules, sdwnode, anode
from pytableaux.proof import AccessNode, FlagNode, SentenceNode
from pytableaux import models as pmodels

VNAMES = 'FNBT'
OP1 = [('asrt', Operator.Assertion), ('neg', Operator.Negation),
       ('poss', Operator.Possibility), ('nec', Operator.Necessity)]
OP2 = [('conj', Operator.Conjunction), ('disj', Operator.Disjunction),
       ('mcond', Operator.MaterialConditional), ('mbicond', Operator.MaterialBiconditional),
       ('cond', Operator.Conditional), ('bicond', Operator.Biconditional)]
QUANTS = [('ex', Quantifier.Existential), ('univ', Quantifier.Universal)]
OPNAME = {o: n for n, o in OP1 + OP2}
QNAME = {q: n for n, q in QUANTS}

A, B = Atomic(0, 0), Atomic(1, 0)
Z1, Z2, Z3 = Atomic(2, 7), Atomic(3, 7), Atomic(4, 7)     # dummies that occur nowhere else
X = Variable(0, 0)
F1 = Predicate(0, 0, 1)
G1 = Predicate(1, 0, 1)
CA, CB, CC = Constant(0, 0), Constant(1, 0), Constant(2, 0)


class ExtractIssue(Exception):
    pass


def all_logics():
    registry.import_all()
    names = sorted(registry(m).Meta.name for m in registry.modules)
    return names


def vals_of(logic):
    return [str(v) for v in logic.Meta.values]      # in the model's own (ascending) order


def frame_kind(logic) -> str:
    if not logic.Meta.modal:
        return 'none'
    acc = logic.Model.Access
    if issubclass(acc, pmodels.GlobalAccess):
        return 'S5'
    if issubclass(acc, pmodels.ReflexiveTransitiveAccesss):
        return 'S4'
    if issubclass(acc, pmodels.ReflexiveAccess):
        return 'T'
    if issubclass(acc, pmodels.SerialAccess):
        return 'D'
    return 'K'


# ---------------------------------------------------------------------------
# tables
# ---------------------------------------------------------------------------

def tables(logic):
    vs = vals_of(logic)
    tf = logic.Model.truth_function
    V = logic.Meta.values
    t1, t2 = [], []
    for n, o in OP1[:2]:
        for a in vs:
            t1.append((n, a, str(tf(o, V[a]))))
    for n, o in OP2:
        for a in vs:
            for b in vs:
                t2.append((n, a, b, str(tf(o, V[a], V[b]))))
    return dict(vals=vs, des=[v for v in vs if v in logic.Meta.designated_values],
                unassigned=str(logic.Meta.unassigned_value), t1=t1, t2=t2)


def sublists(xs):
    out = [[]]
    for x in reversed(xs):
        out = out + [[x] + r for r in out]
    # order does not matter; make it deterministic
    return sorted(out, key=lambda r: (len(r), r))


def qfold_value(logic, q, seq):
    "value of Qx.Fx in a model whose constants c0..ck give Fx the values of `seq` (a list, in that order)"
    m = logic.Model()
    for i, v in enumerate(seq):
        m.set_predicated_value(F1(Constant(i % 4, i // 4)), v)
    m.finish()
    return str(m.value_of(Quantified(q, X, F1(X))))


def mfold_value(logic, o, seq, frame):
    """value at world 0 of oA in a model where the worlds accessible from 0 give A the
    values of `seq` (after the frame conditions are enforced)."""
    m = logic.Model()
    reflexive = frame in ('T', 'S4', 'S5')
    if reflexive:
        if not seq:
            return None
        m.set_atomic_value(A, seq[0], world=0)
        rest = seq[1:]
    else:
        m.set_atomic_value(A, logic.Meta.unassigned_value, world=0)
        rest = seq
        if frame == 'D' and not seq:
            return None
    for i, v in enumerate(rest, 1):
        m.set_atomic_value(A, v, world=i)
        m.R.add((0, i))
        if frame == 'D':
            m.R.add((i, i))
    m.finish()
    seen = sorted(str(m.value_of(A, world=w)) for w in m.R[0])
    if sorted(set(seen)) != sorted(set(map(str, seq))):
        raise ExtractIssue(f'{logic.Meta.name}: modal fold probe: accessible values {seen} != requested {seq}')
    return str(m.value_of(Operated(o, (A,)), world=0))


def folds(logic, issues):
    vs = vals_of(logic)
    frame = frame_kind(logic)
    qf, mf = [], []
    if logic.Meta.quantified:
        for n, q in QUANTS:
            for P in sublists(vs):
                if not P:
                    continue
                base = qfold_value(logic, q, P)
                qf.append((n, P, base))
                # set-likeness: permutations and multiplicities give the same value
                for seq in set(itertools.permutations(P)) | {tuple(P) + (P[0],), (P[-1],) + tuple(P) + tuple(P)}:
                    if qfold_value(logic, q, list(seq)) != base:
                        issues.append(f'{logic.Meta.name}: quantifier {n} is not a function of the value set: {list(seq)} vs {P}')
    if logic.Meta.modal:
        for n, o in OP1[2:]:
            for P in sublists(vs):
                base = mfold_value(logic, o, P, frame)
                if base is None:
                    continue
                mf.append((n, P, base))
                if P:
                    for seq in set(itertools.permutations(P)) | {tuple(P) + (P[0],), (P[-1],) + tuple(P) + tuple(P)}:
                        if mfold_value(logic, o, list(seq), frame) != base:
                            issues.append(f'{logic.Meta.name}: modal {n} is not a function of the value set: {list(seq)} vs {P}')
    return qf, mf


# ---------------------------------------------------------------------------
# rule templates
# ---------------------------------------------------------------------------

def tm_abstract(s, env, raw_env=None):
    """Abstract sentence `s` to a template string (Lean syntax) over `env`
    (list of (sentence, leaf)); returns None when it cannot be expressed."""
    for sent, leaf in env:
        if sent is not None and s == sent:
            return leaf
    t = type(s)
    if t is Operated:
        o = s.operator
        parts = [tm_abstract(x, env, raw_env) for x in s]
        if any(p is None for p in parts):
            return None
        return f'(.op{len(parts)} .{OPNAME[o]} ' + ' '.join(parts) + ')'
    if t is Quantified and raw_env is not None and s.variable == raw_env['var']:
        inner = tm_abstract(s.sentence, [(raw_env['raw'], '.raw')], None)
        if inner is None:
            return None
        return f'(.bind .{QNAME[s.quantifier]} {inner})'
    return None


def tm_uses(t: str, leaf: str) -> bool:
    return leaf in t.replace('(', ' ').replace(')', ' ').split()


def node_world(n):
    return n.get('world')


def des_str(d):
    return 'none' if d is None else f'(some {str(bool(d)).lower()})'


def markers(logic):
    "designation markers of this logic's sentence nodes, read off a real trunk"
    t = Tableau(logic, Argument(Z2, [Z1]))
    ds = {n.get('designated') for n in t[0]}
    return sorted(ds, key=lambda d: (d is None, d is False))


def probe_context(logic, kind):
    """extra premises giving the branch constants (quantifier probes) or an accessible
    world (modal probes)"""
    if kind == 'quant':
        return [G1(CA), G1(CB)]
    if kind == 'modal':
        return [Operator.Possibility(Z3)]
    return []


def make_probe(logic, inner, negated, d, kind, context=None):
    """A real tableau whose trunk carries the probe node; returns (tab, node)."""
    s = ~inner if negated else inner
    ctx = probe_context(logic, kind) if context is None else context
    marks = markers(logic) != [None]
    if marks and d is False:
        arg = Argument(s, ctx)
        idx = -1
    else:
        arg = Argument(Z2, [s] + ctx)
        idx = 0
    tab = Tableau(logic, arg)
    node = tab[0][idx]
    assert node['sentence'] == s and node.get('designated') == d, (dict(node), s, d)
    return tab, node


def run_probe(tab, node, max_steps=60):
    "build, and collect the history entries whose target is the probe node"
    hits = []
    steps = 0
    while steps < max_steps:
        e = tab.step()
        if e is None:
            break
        steps += 1
        tg = e.target
        if isinstance(e.rule, prules.BaseAccessRule):
            continue
        if tg.get('node') is node and not tg.get('flag'):
            # snapshot what matters now (branches mutate later)
            hits.append(dict(rule=type(e.rule).__name__, adds=tg['adds'],
                             constant=tg.get('constant'), world=tg.get('world'),
                             branch_consts=None, entry=e))
    return hits


def probe_rule(logic, shape, negated, d, issues):
    """returns rule dict or None (no rule fired on that shape)"""
    name = logic.Meta.name
    kind_s, sym = shape
    if kind_s == 'op1':
        o = dict(OP1)[sym]
        inner = Operated(o, (A,))
        kind = 'modal' if sym in ('poss', 'nec') else 'op'
    elif kind_s == 'op2':
        inner = Operated(dict(OP2)[sym], (A, B))
        kind = 'op'
    else:
        inner = Quantified(dict(QUANTS)[sym], X, F1(X))
        kind = 'quant'
    tab, node = make_probe(logic, inner, negated, d, kind)
    trunk_consts = set(tab[0].constants)
    trunk_worlds = set(tab[0].worlds)
    w0 = node.get('world')
    hits = run_probe(tab, node)
    if not hits:
        return None
    first = hits[0]
    rname = first['rule']
    ticked = any(b.is_ticked(node) for b in tab)
    # ---- decide witness
    witness = 'none'
    wit_const = None
    wit_world = None
    if kind == 'quant':
        # which constant instantiates the body?
        for h in hits:
            h['c'] = None
            sents = [n['sentence'] for g in h['adds'] for n in g if isinstance(n, SentenceNode)]
            cands = set()
            for s_ in sents:
                cands |= set(s_.constants)
            for c in sorted(cands):
                inst = c >> inner
                if any(inst == s_ or inst in _subsentences(s_) for s_ in sents):
                    h['c'] = c
                    break
        cs = [h['c'] for h in hits]
        if all(c is None for c in cs):
            witness = 'none'
        elif not ticked and len(hits) >= 2 and set(cs) >= trunk_consts:
            witness = 'eachConst'
        elif ticked and len(hits) == 1 and cs[0] is not None:
            witness = 'newConst'
            if cs[0] in trunk_consts:
                issues.append(f'{name}:{rname}: witness constant {cs[0]} already on the branch (not fresh)')
        else:
            issues.append(f'{name}:{rname}: irregular quantifier rule (ticked={ticked}, applications={len(hits)}, constants={cs})')
            witness = 'none'
        wit_const = first['c']
    elif kind == 'modal':
        for h in hits:
            ws = {node_world(n) for g in h['adds'] for n in g if isinstance(n, SentenceNode)} - {w0}
            for g in h['adds']:
                for n in g:
                    if isinstance(n, AccessNode):
                        ws.add(n['world2'])
            h['w'] = min(ws) if ws else None
            if h['w'] is None and h['world'] is not None:
                h['w'] = h['world']       # each-world application at the node's own (reflexive) world
            h['has_access'] = any(isinstance(n, AccessNode) for g in h['adds'] for n in g)
        # prefer an application whose witness world differs from the node's world
        hits.sort(key=lambda h: (h['w'] is None or h['w'] == w0))
        first = hits[0]
        rname = first['rule']
        ws = [h['w'] for h in hits]
        if all(w is None for w in ws):
            witness = 'none'
        elif any(h['has_access'] for h in hits):
            witness = 'newWorld'
            if len(hits) != 1 or not ticked:
                issues.append(f'{name}:{rname}: irregular new-world rule (ticked={ticked}, applications={len(hits)})')
        elif not ticked:
            witness = 'eachWorld'
        else:
            issues.append(f'{name}:{rname}: irregular modal rule (ticked={ticked}, worlds={ws})')
        wit_world = first.get('w')
    # ---- abstract the first application
    if kind == 'quant':
        env = [(inner, '.whole')]
        if wit_const is not None:
            env.append((wit_const >> inner, '.lhs'))
        raw_env = dict(var=X, raw=F1(X))
    else:
        env = [(inner, '.whole'), (A, '.lhs')]
        if kind_s == 'op2':
            env.append((B, '.rhs'))
        raw_env = None
    branches = []
    for g in first['adds']:
        br = []
        for n in g:
            if isinstance(n, AccessNode):
                if not (n['world1'] == w0 and n['world2'] == wit_world):
                    issues.append(f'{name}:{rname}: access node {dict(n)} is not (node world -> witness world)')
                br.append('.access')
            elif isinstance(n, SentenceNode):
                tm = tm_abstract(n['sentence'], env, raw_env)
                if tm is None:
                    issues.append(f'{name}:{rname}: cannot abstract added sentence {n["sentence"]!r}')
                    tm = '.raw'
                wn = node_world(n)
                if kind == 'modal' and wn == wit_world and (wn != w0 or witness == 'eachWorld'):
                    other = 'true'
                elif wn == w0:
                    other = 'false'
                else:
                    issues.append(f'{name}:{rname}: added node at unexpected world {wn}')
                    other = 'true'
                br.append(f'.node ⟨{tm}, {des_str(n.get("designated"))}, {other}⟩')
            elif isinstance(n, FlagNode):
                issues.append(f'{name}:{rname}: flag node added by probe')
            else:
                issues.append(f'{name}:{rname}: unknown node kind {dict(n)}')
        branches.append(br)
    # the other applications of an each-rule must be the same template at their own witness
    return dict(name=rname, ticks=ticked, witness=witness, branches=branches)


def _subsentences(s):
    out = []
    todo = [s]
    while todo:
        x = todo.pop()
        out.append(x)
        if type(x) is Operated:
            todo.extend(x.operands)
        elif type(x) is Quantified:
            todo.append(x.sentence)
    return out


def rule_keys(logic):
    mk = markers(logic)
    shapes = [('op1', 'asrt'), ('op1', 'neg')]
    if logic.Meta.modal:
        shapes += [('op1', 'poss'), ('op1', 'nec')]
    shapes += [('op2', n) for n, _ in OP2]
    if logic.Meta.quantified:
        shapes += [('quant', n) for n, _ in QUANTS]
    keys = []
    for sh in shapes:
        for ng in (False, True):
            if sh == ('op1', 'neg') and not ng:
                continue
            for d in mk:
                keys.append((sh, ng, d))
    return keys


def rules_of(logic, issues):
    out = []
    for (sh, ng, d) in rule_keys(logic):
        try:
            r = probe_rule(logic, sh, ng, d, issues)
        except ExtractIssue as e:
            issues.append(str(e))
            r = None
        if r is not None:
            out.append(((sh, ng, d), r))
    return out


# ---------------------------------------------------------------------------
# closure / read table / trunk
# ---------------------------------------------------------------------------

def all_lits(logic):
    return [(ng, d) for ng in (False, True) for d in markers(logic)]


def lit_node(s, lit, w):
    ng, d = lit
    return sdwnode(~s if ng else s, d, w)


def closure_probe(logic, S, s=A, worlds=None):
    "does a branch carrying the literal nodes S (on sentence s) close at the first step?"
    tab = Tableau(logic, Argument(Z2, [Z1]))
    b = tab[0]
    w = 0 if logic.Meta.modal else None
    for i, lit in enumerate(S):
        wi = w if worlds is None else worlds[i]
        b.append(lit_node(s, lit, wi))
    e = tab.step()
    closed = b.closed
    return closed, (type(e.rule).__name__ if (e is not None and closed) else None), tab


def closure_table(logic, issues):
    rows = []
    reads = []
    lits = all_lits(logic)
    for S in sublists(lits):
        closed, rname, tab = closure_probe(logic, S)
        # uniform in the sentence: a compound (non-literal) sentence must behave the same
        closed2, _, _ = closure_probe(logic, S, s=F1(CA))
        if closed2 != closed:
            issues.append(f'{logic.Meta.name}: closure differs between atom and predication on {S}')
        rows.append((S, closed))
        if not closed and S:
            tab.build()
            b = tab[0]
            if not b.closed:
                m = logic.Model().read_branch(b)
                reads.append((S, str(m.value_of(A, world=0) if logic.Meta.modal else m.value_of(A))))
        if logic.Meta.modal and len(S) == 2 and closed:
            c3, _, _ = closure_probe(logic, S, worlds=[0, 1])
            if c3:
                issues.append(f'{logic.Meta.name}: closure across different worlds on {S}')
    return rows, reads


def identity_closure(logic):
    """does ¬c=c close?  does ¬E!c close?  (for several constants c; ALL must agree) — and the positive / distinct
    forms must not close: distinct constants that share a letter (a, a1), a subscript (a1, b1) or neither are tried."""
    I, E = Predicate.Identity, Predicate.Existence
    mk = markers(logic)
    w = 0 if logic.Meta.modal else None
    A1, A2, B1, D3 = Constant(0, 1), Constant(0, 2), Constant(1, 1), Constant(3, 3)
    res = {}
    # the two sides of a self-identity are built by SEPARATE constructor calls: equal, and (when the item cache is off or
    # has evicted the entry) not the same object
    forms = [('selfIdNeg', [~I(Constant(0, 0), Constant(0, 0)), ~I(Constant(3, 3), Constant(3, 3)), ~I(Constant(0, 1), Constant(0, 1))], all),
             ('nonExist', [~E(CA), ~E(D3)], all),
             ('selfId', [I(CA, CA), I(D3, D3)], any),
             ('distinctNeg', [~I(CA, CB), ~I(CB, CA), ~I(CA, A1), ~I(A1, CA), ~I(A1, A2), ~I(A1, B1), ~I(CA, D3)], any),
             ('exist', [E(CA), E(A1), E(D3)], any)]
    for key, sents, quant in forms:
        outs = []
        for s in sents:
            for d in mk:
                if d is False:
                    continue
                tab = Tableau(logic, Argument(Z2, [Z1]))
                tab[0].append(sdwnode(s, d, w))
                tab.step()
                outs.append(tab[0].closed)
        res[key] = quant(outs) if outs else False
        if key in ('selfIdNeg', 'nonExist') and outs and any(outs) and not all(outs):
            res[key + '_irregular'] = True
    return res


def trunk_shape(logic, issues):
    P1, P2, C = Atomic(0, 1), Atomic(1, 1), Atomic(2, 1)
    t = Tableau(logic, Argument(C, [P1, P2]))
    nodes = [n for n in t[0]]
    w = 0 if logic.Meta.modal else None
    ok = len(t) == 1 and len(nodes) == 3 and all(isinstance(n, SentenceNode) for n in nodes)
    if ok:
        ok = nodes[0]['sentence'] == P1 and nodes[1]['sentence'] == P2 and all(n.get('world') == w for n in nodes)
    if not ok:
        issues.append(f'{logic.Meta.name}: unexpected trunk {[dict(n) for n in nodes]}')
        return dict(prem='none', concNeg=False, conc='none')
    c = nodes[2]
    if c['sentence'] == C:
        neg = False
    elif c['sentence'] == ~C:
        neg = True
    else:
        issues.append(f'{logic.Meta.name}: unexpected trunk conclusion {dict(c)}')
        neg = False
    if nodes[0].get('designated') != nodes[1].get('designated'):
        issues.append(f'{logic.Meta.name}: premises carry different markers')
    return dict(prem=des_str(nodes[0].get('designated')), concNeg=neg, conc=des_str(c.get('designated')))


def frame_rules(logic):
    names = []
    for g in Tableau(logic).rules.groups:
        for r in g:
            for cls in type(r).__mro__:
                if cls in (prules.access.Reflexive, prules.access.Transitive,
                           prules.access.Symmetric, prules.access.Serial):
                    names.append(cls.__name__)
    return sorted(set(names))


def extract_logic(name):
    logic = registry(name)
    issues: list[str] = []
    tb = tables(logic)
    qf, mf = folds(logic, issues)
    rl = rules_of(logic, issues)
    clo, reads = closure_table(logic, issues)
    ident = identity_closure(logic)
    ext = logic.Meta.extension_of
    if isinstance(ext, str):
        ext = (ext,)
    return dict(
        name=logic.Meta.name, tables=tb, qf=qf, mf=mf,
        marks=markers(logic) != [None], modal=bool(logic.Meta.modal), quantified=bool(logic.Meta.quantified),
        frame=frame_kind(logic), frame_rules=frame_rules(logic), rules=rl, closure=clo, reads=reads,
        ident=ident, trunk=trunk_shape(logic, issues), extends=sorted(ext), issues=issues)
