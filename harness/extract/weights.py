"""
Layer B translator, part 3: per-logic node WEIGHTS (the well-founded measure of C02's Hintikka
induction and of C03's termination bound).

A node weighs  ω(s) + δ(d)  with
    ω(atom) = ω(predication) = 1
    ω(o A)   = a1[o]·ω A + b1[o]            ω(A o B) = a2[o]·(ω A + ω B) + b2[o]
    ω(Qx φ)  = aq[Q]·ω φ + bq[Q]            δ : designation marker (+, −, none) → Nat
(Ptx/Tab/Measure.lean `Weights`).  The coefficients are *found* here, from the rule templates the
translator regenerated from /repo (gen.json), by simple relaxation, and merely *checked* in Lean
(`LogicData.measureOKOnB`, kernel-evaluated in Ptx/Gen/ObMeasure.lean): nothing in this file is
trusted.

Every template is abstracted to a polynomial  cx·x + cy·y + c0  in x = ω(first operand /
instantiated body), y = ω(second operand); a rule row (key k, rule r) is fine when for every
added sentence node n of every branch
    cx(n) ≤ cx(k),  cy(n) ≤ cy(k),  cx(n)+cy(n)+c0(n)+δ(n.des) < cx(k)+cy(k)+c0(k)+δ(k.des)
which is exactly "weight(n) < weight(node of key k) for all x, y ≥ 1"; in addition a rule with a
constant witness must be a quantifier rule (`Weights.witnessOKB`; otherwise `lhs` would stand for
the compound itself), and every operator must have a + b > 0 (`Weights.posB`).

Relaxation: start from a = b = 1, δ = 0; for a violated inequality raise the first of
(coefficient: a_shape, a¬ | constant: b_shape, δ(k.des), b¬, a_shape, a¬) that reduces the
deficit, by as much as needed; sweep until a whole sweep is clean.  Some quantifier / modal rows
admit NO linear weights at all (K3WQ's  ¬∀xφ ↦ ∀x(φ∨¬φ), …  would need a¬ ≥ a∨·(a¬+1)): a row for
which no candidate reduces the deficit is set aside (`X_<L>`) and the relaxation restarted on the
rest.  Each logic gets ONE set of weights and the theorems that hold for it:
    <L>_measure          every row                       (only if nothing was set aside)
    <L>_measure_noquant  all rows but quantifier rows    (only if no such row was set aside)
    <L>_measure_tf       truth-functional rows only      (likewise)
    <L>_measure_except   all rows but X_<L>              (only if something was set aside)

Output (deterministic, written only if changed, under the build lock):
    Ptx/Gen/Weights.lean     def Gen.W_<L> : Weights
    Ptx/Gen/ObMeasure.lean   the obligations

run:  python -m harness.extract.weights [--no-regen]
"""
from __future__ import annotations

import json
import re
import sys

from .. import common
from ..common import LEAN, ROOT, write_if_changed

GEN = LEAN / 'Ptx' / 'Gen'

OP1 = ['asrt', 'neg', 'poss', 'nec']
OP2 = ['conj', 'disj', 'mcond', 'mbicond', 'cond', 'bicond']
QUANT = ['ex', 'univ']
MODAL = {'poss', 'nec'}
LEVELS = ['all', 'noquant', 'tf']
LEVEL_THM = {'all': '_measure', 'noquant': '_measure_noquant', 'tf': '_measure_tf'}
LEVEL_PRED = {'all': None, 'noquant': 'RuleKey.notQuant', 'tf': 'RuleKey.isTF'}
MAX_SWEEPS = 200
MAX_VALUE = 10 ** 6

# ---------------------------------------------------------------------------
# template parsing (the Lean terms gen.py emits)
# ---------------------------------------------------------------------------

_TOK = re.compile(r'\(|\)|⟨|⟩|,|[^\s()⟨⟩,]+')


def _parse_tm(toks, i):
    """Tm ::= .lhs | .rhs | .whole | .raw | ( .op1 .o Tm ) | ( .op2 .o Tm Tm ) | ( .bind .q Tm )"""
    t = toks[i]
    if t == '(':
        head = toks[i + 1]
        sym = toks[i + 2].lstrip('.')
        if head == '.op1' or head == '.bind':
            a, j = _parse_tm(toks, i + 3)
            assert toks[j] == ')', toks
            return (head.lstrip('.'), sym, a), j + 1
        if head == '.op2':
            a, j = _parse_tm(toks, i + 3)
            b, j = _parse_tm(toks, j)
            assert toks[j] == ')', toks
            return ('op2', sym, a, b), j + 1
        raise ValueError(f'bad template head {head}')
    if t in ('.lhs', '.rhs', '.whole', '.raw'):
        return (t.lstrip('.'),), i + 1
    raise ValueError(f'bad template token {t}')


def parse_add(s: str):
    """'.access' -> None ;  '.node ⟨tm, des, other⟩' -> (tm, des) with des in '+','-','_'"""
    s = s.strip()
    if s == '.access':
        return None
    toks = _TOK.findall(s)
    assert toks[0] == '.node' and toks[1] == '⟨', s
    tm, j = _parse_tm(toks, 2)
    assert toks[j] == ',', s
    j += 1
    if toks[j] == 'none':
        des, j = '_', j + 1
    else:
        assert toks[j] == '(' and toks[j + 1] == 'some', s
        des = '+' if toks[j + 2] == 'true' else '-'
        assert toks[j + 3] == ')', s
        j += 4
    assert toks[j] == ',', s
    return tm, des


def des_of(d):
    return '_' if d is None else ('+' if d else '-')


def rows_of(logic: dict):
    """[(name, (kind, sym), negated, des, [(tm, des)], witness)]"""
    out = []
    for k, r in logic['rules']:
        (kind, sym), ng, d = k
        nodes = []
        for br in r['branches']:
            for a in br:
                p = parse_add(a)
                if p is not None:
                    nodes.append(p)
        out.append((r['name'], (kind, sym), bool(ng), des_of(d), nodes, r['witness']))
    return out


def in_level(level: str, shape) -> bool:
    kind, sym = shape
    if level == 'all':
        return True
    if level == 'noquant':
        return kind != 'quant'
    return kind == 'op2' or (kind == 'op1' and sym not in MODAL)

# ---------------------------------------------------------------------------
# the abstraction (mirror of Ptx/Tab/Measure.lean; the Lean side is what counts)
# ---------------------------------------------------------------------------


def new_weights():
    return dict(a1={o: 1 for o in OP1}, b1={o: 1 for o in OP1},
                a2={o: 1 for o in OP2}, b2={o: 1 for o in OP2},
                aq={q: 1 for q in QUANT}, bq={q: 1 for q in QUANT},
                dl={'+': 0, '-': 0, '_': 0})


def scale(a, b, p):
    return (a * p[0], a * p[1], a * p[2] + b)


def shape_lin(W, shape):
    kind, sym = shape
    if kind == 'op1':
        return (W['a1'][sym], 0, W['b1'][sym])
    if kind == 'op2':
        return (W['a2'][sym], W['a2'][sym], W['b2'][sym])
    return (W['aq'][sym], 0, W['bq'][sym])


def key_lin(W, shape, ng):
    p = shape_lin(W, shape)
    return scale(W['a1']['neg'], W['b1']['neg'], p) if ng else p


def tm_lin(W, wl, tm):
    h = tm[0]
    if h in ('lhs', 'raw'):
        return (1, 0, 0)
    if h == 'rhs':
        return (0, 1, 0)
    if h == 'whole':
        return wl
    if h == 'op1':
        return scale(W['a1'][tm[1]], W['b1'][tm[1]], tm_lin(W, wl, tm[2]))
    if h == 'bind':
        return scale(W['aq'][tm[1]], W['bq'][tm[1]], tm_lin(W, wl, tm[2]))
    p, q = tm_lin(W, wl, tm[2]), tm_lin(W, wl, tm[3])
    return scale(W['a2'][tm[1]], W['b2'][tm[1]], (p[0] + q[0], p[1] + q[1], p[2] + q[2]))


def tm_size(tm) -> int:
    return 1 + sum(tm_size(x) for x in tm[1:] if isinstance(x, tuple))


def deficits(W, shape, ng, kd, tm, nd):
    """(coefficient deficit, constant deficit); both 0 when the inequality holds"""
    L = tm_lin(W, shape_lin(W, shape), tm)
    R = key_lin(W, shape, ng)
    coef = max(0, L[0] - R[0]) + max(0, L[1] - R[1])
    const = max(0, (sum(L) + W['dl'][nd]) - (sum(R) + W['dl'][kd]) + 1)
    return coef, const


def positive(W) -> bool:
    return all(W['a1'][o] + W['b1'][o] > 0 for o in OP1) and all(W['a2'][o] + W['b2'][o] > 0 for o in OP2) \
        and all(W['aq'][q] + W['bq'][q] > 0 for q in QUANT)


def witness_ok(shape, witness) -> bool:
    return witness not in ('newConst', 'eachConst') or shape[0] == 'quant'


def check(W, rows, level) -> list[str]:
    """names of the rows (within the level) that violate the condition"""
    bad = []
    for name, shape, ng, kd, nodes, wit in rows:
        if in_level(level, shape) and (not witness_ok(shape, wit) or
                                       any(deficits(W, shape, ng, kd, tm, nd) != (0, 0) for tm, nd in nodes)):
            bad.append(name)
    return bad

# ---------------------------------------------------------------------------
# relaxation
# ---------------------------------------------------------------------------


def _shape_vars(shape):
    kind, sym = shape
    return {'op1': ('a1', 'b1'), 'op2': ('a2', 'b2'), 'quant': ('aq', 'bq')}[kind], sym


def _raise(W, var, which, shape, ng, kd, tm, nd):
    """raise W[var[0]][var[1]] until deficit component `which` vanishes; False if one unit does not reduce it"""
    tab, key = var
    before = deficits(W, shape, ng, kd, tm, nd)[which]
    W[tab][key] += 1
    after = deficits(W, shape, ng, kd, tm, nd)[which]
    if after >= before:
        W[tab][key] -= 1
        return False
    if after > 0:
        gain = before - after
        W[tab][key] += -(-after // gain)
        # linear in a single unknown unless it also occurs on the template side: top up if needed
        guard = 0
        while deficits(W, shape, ng, kd, tm, nd)[which] > 0 and guard < 64:
            W[tab][key] += 1
            guard += 1
    return deficits(W, shape, ng, kd, tm, nd)[which] == 0


def relax(rows):
    """(weights, sweeps, None) or (None, reason, index of the row that cannot be satisfied | None)"""
    W = new_weights()
    for i, (name, shape, _, _, _, wit) in enumerate(rows):
        if not witness_ok(shape, wit):
            return None, 'constant witness on a compound that is not quantified', i
    def culprit(dirty_rows):
        # rows that keep undoing each other: set aside the one with the largest templates
        return max(dirty_rows, key=lambda i: (sum(tm_size(tm) for tm, _ in rows[i][4]), -i))

    for sweep in range(1, MAX_SWEEPS + 1):
        dirty = []
        for i, (name, shape, ng, kd, nodes, _) in enumerate(rows):
            (ta, tb), sym = _shape_vars(shape)
            for tm, nd in nodes:
                coef, const = deficits(W, shape, ng, kd, tm, nd)
                if coef or const:
                    dirty.append(i)
                if coef:
                    cands = [(ta, sym)] + ([('a1', 'neg')] if ng else [])
                    if not any(_raise(W, c, 0, shape, ng, kd, tm, nd) for c in cands):
                        return None, 'a coefficient of an added node cannot be dominated', i
                    coef, const = deficits(W, shape, ng, kd, tm, nd)
                if const:
                    cands = [(tb, sym), ('dl', kd)] + ([('b1', 'neg')] if ng else []) + [(ta, sym)] + \
                            ([('a1', 'neg')] if ng else [])
                    if not any(_raise(W, c, 1, shape, ng, kd, tm, nd) for c in cands):
                        return None, 'the constant term of an added node cannot be dominated', i
        if max(max(t.values()) for t in W.values()) > MAX_VALUE:
            return None, 'the relaxation diverges (rows undo each other)', culprit(dirty)
        if not dirty:
            assert positive(W) and not check(W, rows, 'all')
            return W, sweep, None
    return None, f'no fixpoint in {MAX_SWEEPS} sweeps (rows undo each other)', culprit(dirty)


def find(logic: dict) -> dict:
    """weights for as many rows as possible (greedy: a row that cannot be satisfied is set aside and
    the relaxation restarted; if the relaxation fails without naming a row, whole levels are dropped).
      W         the weights, or None
      sweeps    sweeps of the final relaxation
      excluded  [(rule name, key, reason)] rows NOT covered by W
      levels    the levels all of whose rows are covered"""
    rows = rows_of(logic)
    excluded = []
    W, sweeps = None, 0
    cur = list(rows)
    coarse = iter(['noquant', 'tf'])
    for _ in range(len(rows) + 3):
        W, info, bad = relax(cur)
        if W is not None:
            sweeps = info
            break
        if bad is not None:
            excluded.append((cur[bad], info))
            cur = cur[:bad] + cur[bad + 1:]
            continue
        lv = next(coarse, None)
        if lv is None:
            break
        for r in [r for r in cur if not in_level(lv, r[1])]:
            excluded.append((r, f'{info} (level {lv} fallback)'))
        cur = [r for r in cur if in_level(lv, r[1])]
    if W is None:
        return dict(W=None, sweeps=0, excluded=[(r[0], (r[1], r[2], r[3]), why) for r, why in excluded], levels=[])
    levels = [lv for lv in LEVELS if not any(in_level(lv, r[1]) for r, _ in excluded)]
    return dict(W=W, sweeps=sweeps, levels=levels,
                excluded=[(r[0], (r[1], r[2], r[3]), why) for r, why in excluded])

# ---------------------------------------------------------------------------
# Lean output
# ---------------------------------------------------------------------------


def _fun(tab, names):
    return 'fun ' + ' '.join(f'| .{n} => {tab[n]}' for n in names)


def lean_weights(n, W) -> str:
    dl = W['dl']
    return (f'def W_{n} : Weights := {{\n'
            f'  a1 := {_fun(W["a1"], OP1)},\n  b1 := {_fun(W["b1"], OP1)},\n'
            f'  a2 := {_fun(W["a2"], OP2)},\n  b2 := {_fun(W["b2"], OP2)},\n'
            f'  aq := {_fun(W["aq"], QUANT)},\n  bq := {_fun(W["bq"], QUANT)},\n'
            f'  dl := fun | some true => {dl["+"]} | some false => {dl["-"]} | none => {dl["_"]} }}\n')


def lean_key(key) -> str:
    (kind, sym), ng, d = key
    des = {'_': 'none', '+': '(some true)', '-': '(some false)'}[d]
    return f'⟨(.{kind} .{sym}), {"true" if ng else "false"}, {des}⟩'


def emit(results: dict) -> tuple[str, str]:
    names = sorted(results)
    w = ['/- GENERATED by harness/extract/weights.py from the rule templates of the running code (gen.json).',
         '   Found by relaxation, merely CHECKED in Ptx/Gen/ObMeasure.lean.  Do not edit. -/',
         'import Ptx.Tab.Measure', 'namespace Ptx.Gen', '']
    o = ['/- GENERATED by harness/extract/weights.py: the weight obligations, discharged by kernel evaluation.',
         '   <L>_measure          every rule row strictly decreases the node weight (LogicData.measureOKB)',
         '   <L>_measure_noquant  … every row but the quantifier rows   (measureOKOnB RuleKey.notQuant)',
         '   <L>_measure_tf       … every truth-functional row          (measureOKOnB RuleKey.isTF)',
         '   <L>_measure_except   … every row but the listed ones `X_<L>` (only when some row admits no weights)',
         '   <L>_tfrows           the truth-functional rows tick, need no witness and stay propositional (C03 termination)',
         '   All theorems of a logic are about the same weights `Gen.W_<L>`; a theorem that does not hold is',
         '   omitted, with a comment. -/',
         'import Ptx.Gen.All', 'import Ptx.Gen.Weights', 'namespace Ptx.Gen.ObMeasure', 'open Ptx', '']
    for n in names:
        res = results[n]
        W = res['W']
        if W is None:
            w += [f'-- {n}: NO weights found', '']
            o += [f'-- {n}: NO weights found; no theorem', '']
            continue
        what = 'all rows' if not res['excluded'] else f'all rows but {len(res["excluded"])}'
        w.append(f'/-- covers {what}; fixpoint after {res["sweeps"]} sweep(s) -/')
        w.append(lean_weights(n, W))
        if res['excluded']:
            for name, key, why in res['excluded']:
                o.append(f'-- {n}: no linear weights for row {name}: {why}')
            o.append(f'def X_{n} : List RuleKey := [' + ', '.join(lean_key(k) for _, k, _ in res['excluded']) + ']')
            o.append(f'theorem {n}_measure_except : Gen.{n}.measureOKOnB (fun k => !(X_{n}.contains k)) Gen.W_{n} = true := by decide +kernel')
        o.append(f'theorem {n}_tfrows : Gen.{n}.tfRowsOKB = true := by decide +kernel')
        for lv in LEVELS:
            if lv not in res['levels']:
                o.append(f'-- {n}: theorem {n}{LEVEL_THM[lv]} omitted')
                continue
            pred = LEVEL_PRED[lv]
            stmt = f'Gen.{n}.measureOKB Gen.W_{n}' if pred is None else f'Gen.{n}.measureOKOnB {pred} Gen.W_{n}'
            o.append(f'theorem {n}{LEVEL_THM[lv]} : {stmt} = true := by decide +kernel')
        o.append('')
    w.append('end Ptx.Gen')
    o.append('end Ptx.Gen.ObMeasure')
    return '\n'.join(w) + '\n', '\n'.join(o) + '\n'


def load_data(regen=True) -> dict:
    if regen:
        from .. import logicobl
        data = logicobl.regenerate()
        # normalise through JSON so that both sources look the same (tuples -> lists)
        return json.loads(json.dumps(data, sort_keys=True, default=str))
    return json.loads((GEN / 'gen.json').read_text())


def solve_all(data: dict) -> dict:
    return {n: find(d) for n, d in sorted(data.items()) if 'fatal' not in d}


def generate(regen=True) -> list[str]:
    """write Weights.lean / ObMeasure.lean; returns the logics WITHOUT weights for every rule row
    (those whose `<L>_measure` theorem is omitted)"""
    results = solve_all(load_data(regen))
    wtxt, otxt = emit(results)
    with common.build_lock():
        write_if_changed(GEN / 'Weights.lean', wtxt)
        write_if_changed(GEN / 'ObMeasure.lean', otxt)
    return [n for n in sorted(results) if 'all' not in results[n]['levels']]


def table(results: dict) -> str:
    """markdown coefficient table (for the notes)"""
    hdr = ['logic', 'levels', 'sweeps', '¬'] + OP2 + ['asrt', 'poss', 'nec', 'ex', 'univ', 'δ+', 'δ−', 'δ∅']
    lines = ['| ' + ' | '.join(hdr) + ' |', '|' + '---|' * len(hdr)]
    for n in sorted(results):
        res = results[n]
        W = res['W']
        if W is None:
            lines.append(f'| {n} | none |' + ' |' * (len(hdr) - 2))
            continue
        cells = [n, '+'.join(res['levels']) or '-', str(res['sweeps']), f'{W["a1"]["neg"]},{W["b1"]["neg"]}']
        cells += [f'{W["a2"][o]},{W["b2"][o]}' for o in OP2]
        cells += [f'{W["a1"][o]},{W["b1"][o]}' for o in ('asrt', 'poss', 'nec')]
        cells += [f'{W["aq"][q]},{W["bq"][q]}' for q in QUANT]
        cells += [str(W['dl'][k]) for k in '+-_']
        lines.append('| ' + ' | '.join(cells) + ' |')
    lines.append('')
    for n in sorted(results):
        for name, key, why in results[n]['excluded']:
            lines.append(f'* {n}: {name} — {why}')
    return '\n'.join(lines)


def main():
    regen = '--no-regen' not in sys.argv
    if '--table' in sys.argv:
        print(table(solve_all(load_data(regen))))
        return
    partial = generate(regen)
    print(f'weights written; logics without weights for every row: {partial}')


if __name__ == '__main__':
    main()
