"""
Worker process: runs real pytableaux tableaux and reports, per job, the replay request for the
Lean driver, the final state of the real tableau in the driver's canonical form, and what the
implementation says about the run.  One JSON job per input line, one JSON answer per line.
The tie-break order seed (PYTABLEAUX_VERIF_ORDER) is fixed per process by the environment.

job:   {"id":…, "logic":"K3W", "premises":[wire…], "conclusion":wire, "opts":{…}, "mode":"build"|"step",
        "models":bool, "max_steps":int|null}
"""
from __future__ import annotations

import json
import sys
import traceback

from . import common  # noqa: F401
from . import wire

from pytableaux.lang import Argument, Constant, Operated, Quantified
from pytableaux.logics import registry
from pytableaux.proof import (AccessNode, ClosingRule, FlagNode, SentenceNode, Tableau,
                              rules as prules)

_GEN = None


def gen_rules(logic_name):
    global _GEN
    if _GEN is None:
        _GEN = json.loads((common.LEAN / 'Ptx' / 'Gen' / 'gen.json').read_text())
    d = _GEN.get(logic_name, {})
    return {r['name']: r for _, r in d.get('rules', [])}


def branch_index(tab, b):
    for i, x in enumerate(tab):
        if x is b:
            return i
    raise ValueError('branch not on tableau')


def node_index(b, n):
    for i, x in enumerate(b):
        if x is n:
            return i
    raise ValueError('node not on branch')


def enc_step(tab, e, rules_meta, pre_consts):
    rule, tg = e.rule, e.target
    b = tg.branch
    bi = branch_index(tab, b)
    name = type(rule).__name__
    if isinstance(rule, ClosingRule):
        if 'nodes' in tg:
            n0 = tuple(tg['nodes'])[0]
            w = n0.get('world')
            return f'C {bi} {"_" if w is None else w} {wire.enc_sent(n0["sentence"])}'
        return f'I {bi} {node_index(b, tg["node"])}'
    if tg.get('flag'):
        tk = '-'
        if getattr(rule, 'ticking', False) and tg.get('node') is not None:
            tk = str(node_index(b, tg['node']))
        return f'Q {bi} {tg["flag"]} {tk}'
    if isinstance(rule, prules.access.Serial):
        nd = tg['adds'][0][0]
        return f'F {bi} Serial {nd["world1"]} {nd["world2"]} 0'
    if isinstance(rule, prules.access.Reflexive):
        w = tg['world']
        return f'F {bi} Reflexive {w} {w} {w}'
    if isinstance(rule, prules.access.Transitive):
        n1, n2 = tuple(tg['nodes'])
        return f'F {bi} Transitive {n1["world1"]} {n1["world2"]} {n2["world2"]}'
    if isinstance(rule, prules.access.Symmetric):
        nd = tg['node']
        return f'F {bi} Symmetric {nd["world1"]} {nd["world2"]} 0'
    if name == 'IdentityIndiscernability':
        n1, n2 = tuple(tg['nodes'])
        return f'D {bi} {node_index(b, n1)} {node_index(b, n2)}'
    node = tg['node']
    meta = rules_meta.get(name, {})
    wit = meta.get('witness', 'none')
    c, w = '-', '-'
    if wit in ('newConst', 'eachConst'):
        cc = tg.get('constant')
        if cc is None:
            s = node['sentence']
            have = set(s.constants)
            cands = set()
            for g in tg['adds']:
                for nd in g:
                    if isinstance(nd, SentenceNode):
                        cands |= set(nd['sentence'].constants) - have
            fresh = [x for x in sorted(cands) if x not in pre_consts]
            cc = fresh[0] if fresh else (sorted(cands)[0] if cands else Constant(3, 9999))
        c = f'{cc.index}.{cc.subscript}'
    elif wit == 'newWorld':
        for g in tg['adds']:
            for nd in g:
                if isinstance(nd, AccessNode):
                    w = str(nd['world2'])
        if w == '-':
            w0 = node.get('world')
            ws = {nd.get('world') for g in tg['adds'] for nd in g if isinstance(nd, SentenceNode)} - {w0}
            w = str(min(ws)) if ws else '9999'
    elif wit == 'eachWorld':
        w = str(tg.get('world'))
    return f'R {bi} {node_index(b, node)} {c} {w}'


def world_limit_exceeded(tab, b) -> bool:
    "does the library's own MaxWorlds helper say this branch is over its world limit (asked of the real rules)"
    from pytableaux.proof.helpers import MaxWorlds
    for r in tab.rules:
        try:
            h = r[MaxWorlds]
        except Exception:  # noqa - rule without that helper
            continue
        try:
            return bool(h.is_exceeded(b))
        except Exception:  # noqa
            continue
    return False


def dump_branch(b):
    nodes = ' ; '.join(wire.enc_node(n) for n in b)
    ticked = ' '.join(str(i) for i, n in enumerate(b) if b.is_ticked(n))
    return f'{nodes} ! {ticked} ! {"closed" if b.closed else "open"}'


def dump_tab(tab):
    return ' || '.join(dump_branch(b) for b in tab)


# ---------------------------------------------------------------------------
# search-layer probe (job flag `probe`): after every real step, the real target set of every rule on every open
# branch, obtained from the rule's own target enumeration on the live objects WITHOUT its side effects
# (`FilterNodeCache.release` goes to a scratch set, `gc()` is not run: the nodes already queued for release are skipped,
# which is what the next real `gc()` will do), and the log of the real `rule.target(branch)` calls between steps
# (they decide which cached nodes are released).  See harness/searchcorr.py and lean/Ptx/Search.
# ---------------------------------------------------------------------------

_SEARCH_LOG = None


def install_search_log():
    "wrap the (final) method Rule.target once per process: every call is logged as (rule, branch)"
    global _SEARCH_LOG
    if _SEARCH_LOG is None:
        from pytableaux.proof.tableaux import Rule
        _SEARCH_LOG = []
        orig = Rule.target

        def target(self, branch, /):
            _SEARCH_LOG.append((self, branch))
            return orig(self, branch)
        Rule.target = target
    return _SEARCH_LOG


def rule_family(rule, meta):
    """(model rule name, family) of a live rule object, from its class hierarchy / Helpers / the regenerated rule rows:
    closure | frame | none | newWorld | eachWorld | unmodelled:<why>"""
    from pytableaux.proof.helpers import NodesWorlds, PredNodes
    name = type(rule).__name__
    if isinstance(rule, ClosingRule):
        return 'closure', 'closure'
    for cls, nm in ((prules.access.Serial, 'Serial'), (prules.access.Reflexive, 'Reflexive'),
                    (prules.access.Transitive, 'Transitive'), (prules.access.Symmetric, 'Symmetric')):
        if isinstance(rule, cls):
            return nm, 'frame'
    row = meta.get(name)
    if isinstance(rule, prules.ModalOperatorRule):
        fam = 'eachWorld' if NodesWorlds in rule.helpers else 'newWorld'
        if row is None or row.get('witness') != fam:
            return name, f'unmodelled:family-mismatch:{fam}:{row and row.get("witness")}'
        return name, fam
    if isinstance(rule, prules.OperatorNodeRule):
        if row is None or row.get('witness') != 'none':
            return name, f'unmodelled:family-mismatch:none:{row and row.get("witness")}'
        return name, 'none'
    if isinstance(rule, prules.NarrowQuantifierRule):
        # QuantifierFatRule (ExtendedQuantifierRule: NodeConsts, one target per unapplied constant) / QuantifierSkinnyRule
        fam = 'eachConst' if isinstance(rule, prules.ExtendedQuantifierRule) else 'newConst'
        if row is None or row.get('witness') != fam:
            return name, f'unmodelled:family-mismatch:{fam}:{row and row.get("witness")}'
        return name, fam
    if isinstance(rule, prules.QuantifiedSentenceRule):
        if row is None or row.get('witness') != 'none':
            return name, f'unmodelled:family-mismatch:none:{row and row.get("witness")}'
        return name, 'none'
    if name == 'IdentityIndiscernability' and PredNodes in rule.helpers:
        return name, 'ident'
    return name, 'unmodelled:other'


class _Entry:
    __slots__ = ('rule', 'target')

    def __init__(self, rule, target):
        self.rule, self.target = rule, target


def probe_targets(rule, branch):
    "the targets `rule._get_targets(branch)` would yield at the next real search, without releasing / collecting anything"
    from pytableaux.proof.helpers import FilterHelper
    from pytableaux.proof.common import Target
    fn = type(rule)._get_targets
    inner = getattr(fn, '__wrapped__', None)
    if inner is None or FilterHelper not in rule.helpers:
        return list(rule._get_targets(branch))
    helper = rule[FilterHelper]
    saved = helper._garbage
    helper._garbage = set()
    out = []
    try:
        try:
            nodes = list(helper[branch])
        except KeyError:
            nodes = []
        for node in nodes:
            if (branch, node) in saved:
                continue
            for target in inner(rule, node, branch):
                if isinstance(target, Target):
                    target.update(rule=rule, branch=branch, node=node)
                else:
                    target = Target(target, rule=rule, branch=branch, node=node)
                out.append(target)
    finally:
        helper._garbage = saved
    return out


def fix_new_const(step, c):
    "a new-constant step names `branch.new_constant()` (read before the step), also when the instance does not mention it"
    ts = step.split()
    ts[3] = f'{c.index}.{c.subscript}'
    return ' '.join(ts)


def probe_state(tab, meta, fams):
    "[[branch index, model rule name, sorted steps]] for every open branch and modelled rule with a non-empty target set"
    out = []
    for b in tab.open:
        bi = branch_index(tab, b)
        acc = {}
        for rule in tab.rules:
            name, fam = fams[id(rule)]
            if fam.startswith('unmodelled'):
                continue
            tgs = probe_targets(rule, b)
            if not tgs:
                continue
            if fam == 'closure':
                acc.setdefault(name, set()).add('X')
                continue
            for tg in tgs:
                st = enc_step(tab, _Entry(rule, tg), meta, set(b.constants))
                if fam == 'newConst' and st.startswith('R '):
                    st = fix_new_const(st, b.new_constant())
                acc.setdefault(name, set()).add(st)
        for name in sorted(acc):
            out.append([bi, name, sorted(acc[name])])
    return out


def run_job(job):
    import time as _t
    _t0 = _t.time()
    logic = registry(job['logic'])
    prem = [wire.dec_sent(s) for s in job['premises']]
    conc = wire.dec_sent(job['conclusion'])
    arg = Argument(conc, prem)
    opts = dict(job.get('opts') or {})
    opts['is_build_models'] = bool(job.get('models'))
    if job.get('max_steps') is not None:
        opts['max_steps'] = job['max_steps']
    tab = Tableau(logic, arg, **opts)
    meta = gen_rules(job['logic'])
    trunk = ' ; '.join(wire.enc_node(n) for n in tab[0])
    steps = []
    observations = []
    probing = bool(job.get('probe'))
    if probing:
        from pytableaux.proof.helpers import MaxWorlds as _MW, MaxConsts as _MC
        slog = install_search_log()
        fams = {id(r): rule_family(r, meta) for r in tab.rules}
        events = []
        probes = [probe_state(tab, meta, fams)]
    while True:
        pre = {id(b): set(b.constants) for b in tab}
        if probing:
            slog.clear()
            pre_nc = {id(b): b.new_constant() for b in tab}
        e = tab.step()
        if e is None:
            break
        steps.append(enc_step(tab, e, meta, pre.get(id(e.target.branch), set())))
        if probing:
            # the search that returned the applied target belongs to the application itself (model: `stepEv (.apply …)`)
            last = max((i for i, (r, b) in enumerate(slog) if r is e.rule and b is e.target.branch), default=-1)
            for i, (r, b) in enumerate(slog):
                if i != last and (_MW in r.helpers or _MC in r.helpers) and not fams[id(r)][1].startswith('unmodelled'):
                    events.append(f'S {fams[id(r)][0]} {branch_index(tab, b)}')
            ast = steps[-1]
            if fams[id(e.rule)][1] == 'newConst' and ast.startswith('R '):
                ast = fix_new_const(ast, pre_nc[id(e.target.branch)])
            events.append(f'A {fams[id(e.rule)][0]} {ast}')
            probes.append(probe_state(tab, meta, fams))
        if job.get('observe'):
            observations.append(dict(n=len(tab.history), nbranches=len(tab), nopen=len(tab.open)))
        if len(steps) > 4000:
            break
    quitflags = [any(isinstance(n, FlagNode) and n.get('flag') == 'quit' for n in b) for b in tab]
    out = dict(id=job['id'], request=f'replay {job["logic"]} ## {trunk}' + ''.join(f' ## {s}' for s in steps),
               final=dump_tab(tab), valid=tab.valid, invalid=tab.invalid, premature=tab.premature,
               completed=tab.completed, nsteps=len(tab.history), quitflags=quitflags,
               wlimits=[(not b.closed) and world_limit_exceeded(tab, b) for b in tab],
               rules=[type(e.rule).__name__ for e in tab.history])
    if probing:
        out['search_request'] = f'search {job["logic"]} ## {trunk}' + ''.join(f' ## {x}' for x in events)
        out['probes'] = probes
        out['families'] = sorted({(type(r).__name__,) + fams[id(r)] for r in tab.rules})
        out['applied_unmodelled'] = sorted({type(e.rule).__name__ for e in tab.history if fams[id(e.rule)][1].startswith('unmodelled')})
        out['open_final'] = [[branch_index(tab, b), ' ; '.join(wire.enc_node(n) for n in b),
                              any(isinstance(n, FlagNode) and n.get('flag') == 'quit' for n in b), world_limit_exceeded(tab, b)]
                             for b in tab.open]
    if job.get('models') and tab.invalid:
        ms = []
        for b in tab.open:
            m = b.model
            if m is None:
                ms.append(None)
                continue
            bad = []
            for n in b:
                if isinstance(n, SentenceNode):
                    try:
                        v = m.value_of(n['sentence'], world=n.get('world') or 0) if logic.Meta.modal else m.value_of(n['sentence'])
                    except Exception as ex:  # noqa
                        bad.append(dict(node=wire.enc_node(n), error=f'{type(ex).__name__}: {ex}'))
                        continue
                    d = n.get('designated')
                    des = v in logic.Meta.designated_values
                    if (d is False and des) or (d is not False and not des):
                        bad.append(dict(node=wire.enc_node(n), value=str(v)))
            try:
                cm = bool(m.is_countermodel_to(arg))
            except Exception as ex:  # noqa
                cm = f'{type(ex).__name__}: {ex}'
            ms.append(dict(bad=bad, countermodel=cm, world_limit=world_limit_exceeded(tab, b), quit=any(isinstance(n, FlagNode) and n.get('flag') == 'quit' for n in b),
                           branch=' ; '.join(wire.enc_node(n) for n in b), index=branch_index(tab, b)))
        out['models'] = ms
    out['t_run'] = round(_t.time() - _t0, 3)
    if observations:
        out['observations'] = observations
    if job.get('search') and tab.valid:
        import random
        from . import semantics
        gen = json.loads((common.LEAN / 'Ptx' / 'Gen' / 'gen.json').read_text()) if _GEN is None else _GEN
        meta_l = gen[job['logic']]
        rng = random.Random(f"{job.get('search_seed', 0)}:{job['id']}")
        out['countermodel'] = semantics.find_countermodel(job['logic'], meta_l, prem, conc, rng, budget=int(job['search']))
        out['searched'] = True
        out['t_total'] = round(_t.time() - _t0, 3)
    return out


def main():
    for line in sys.stdin:
        line = line.strip()
        if not line:
            continue
        job = json.loads(line)
        try:
            out = run_job(job)
        except Exception as ex:  # noqa
            out = dict(id=job.get('id'), error=f'{type(ex).__name__}: {ex}', traceback=traceback.format_exc()[-3000:],
                       repo=str(common.REPO) in traceback.format_exc())
        sys.stdout.write(json.dumps(out) + '\n')
        sys.stdout.flush()


if __name__ == '__main__':
    main()
