"""
Finite-structure semantics over the DOCUMENTED tables (Ptx/Sem/Spec.lean, dumped by
logicobl.spec_tables): an implementation-side-independent oracle used ONLY to search for
concrete failing inputs (countermodels to arguments reported valid, etc.) — never to claim that
a property holds.
"""
from __future__ import annotations

import itertools

from . import logicobl

from pytableaux.lang import Atomic, Operated, Operator, Predicate, Predicated, Quantified, Constant

TF = {'Assertion', 'Negation', 'Conjunction', 'Disjunction', 'MaterialConditional', 'MaterialBiconditional',
      'Conditional', 'Biconditional'}


class FiniteModel:
    """worlds 0..n-1, R set of pairs, domain 0..k-1, const: Constant->int,
    atom[(w, Atomic)] -> v, pred[(w, Predicate, tuple)] -> v, opaque[(w, sentence)] -> v"""

    def __init__(self, ev, nworlds, R, dom, const, atom, pred, modal, quantified, default):
        self.ev, self.n, self.R, self.dom, self.const = ev, nworlds, R, dom, const
        self.atom, self.pred, self.modal, self.quantified, self.default = atom, pred, modal, quantified, default
        self.opaque = {}

    def value(self, s, w=0, g=None):
        ev = self.ev
        t = type(s)
        if t is Atomic:
            return self.atom.get((w, s), self.default)
        if t is Predicated:
            ds = tuple(self.const[p] if type(p) is Constant else g[p] for p in s.params)
            if s.predicate == Predicate.Identity and not self.ev_many:
                return 'T' if ds[0] == ds[1] else 'F'
            if s.predicate == Predicate.Existence and not self.ev_many:
                return 'T'
            return self.pred.get((w, s.predicate, ds), self.default)
        if t is Quantified:
            if not self.quantified:
                return self.opaque.setdefault((w, s), self.default)
            g = dict(g or {})
            vals = set()
            for d in range(self.dom):
                g[s.variable] = d
                vals.add(self.value(s.sentence, w, g))
            return ev.qfold(s.quantifier.name, vals)
        if t is Operated:
            o = s.operator
            if o.name in TF:
                return ev.f(o.name, *(self.value(x, w, g) for x in s))
            if not self.modal:
                return self.opaque.setdefault((w, s), self.default)
            vals = {self.value(s.lhs, w2, g) for (w1, w2) in self.R if w1 == w}
            return ev.mfold(o.name, vals)
        raise TypeError(s)

    @property
    def ev_many(self):
        return len(self.ev.vals) > 2


def frame_ok(frame, n, R):
    W = range(n)
    if frame in ('T', 'S4', 'S5') and any((w, w) not in R for w in W):
        return False
    if frame == 'D' and any(not any((w, v) in R for v in W) for w in W):
        return False
    if frame in ('S4', 'S5') and any((a, c) not in R for (a, b) in R for (b2, c) in R if b == b2):
        return False
    if frame == 'S5' and any((b, a) not in R for (a, b) in R):
        return False
    return True


def symbols(sents, classical=True):
    atoms, preds, consts = set(), set(), set()
    for s in sents:
        atoms |= set(s.atomics)
        preds |= set(s.predicates)
        consts |= set(s.constants)
    if classical:
        preds -= {Predicate.Identity, Predicate.Existence}
    return sorted(atoms), sorted(preds), sorted(consts)


def is_countermodel(M: FiniteModel, prem, conc) -> bool:
    ev = M.ev
    return all(M.value(p) in ev.des for p in prem) and M.value(conc) not in ev.des


def find_countermodel(logic_name: str, meta: dict, prem, conc, rng, budget=4000):
    """Search small finite structures of the logic for a countermodel. `meta`: the logic's gen
    data (modal, quantified, frame, marks). Returns a description dict or None."""
    ev = logicobl.SpecEval(logic_name)
    modal, quant, frame = meta['modal'], meta['quantified'], meta['frame']
    classical = not meta['marks']
    sents = list(prem) + [conc]
    atoms, preds, consts = symbols(sents, classical)
    has_modal = modal and any(o in (Operator.Possibility, Operator.Necessity) for s in sents for o in s.operators)
    has_quant = quant and any(s.quantifiers for s in sents)
    # opaque subsentences act as extra atoms: handled lazily with the default value; to explore them,
    # randomise the default over the logic's values
    vals = ev.vals
    worlds_opts = [1] if not has_modal else [1, 2, 3]
    dom_opts = [1] if not (preds or consts) else ([1, 2] if (has_quant or len(consts) > 1) else [1])
    tried = 0

    def build(n, R, dom, const, atom, pred, default):
        M = FiniteModel(ev, n, R, dom, const, atom, pred, modal, quant, default)
        return M

    def describe(M):
        return dict(worlds=M.n, access=sorted(M.R), domain=M.dom, constants={str(c): d for c, d in M.const.items()},
                    atomics={f'{str(a)}@{w}': v for (w, a), v in sorted(M.atom.items(), key=str)},
                    predicates={f'{str(p)}{d}@{w}': v for (w, p, d), v in sorted(M.pred.items(), key=str)},
                    default_for_uninterpreted=M.default,
                    premises_values=[M.value(p) for p in prem], conclusion_value=M.value(conc))

    for n in worlds_opts:
        pairs = [(a, b) for a in range(n) for b in range(n)]
        Rs = [frozenset(S) for k in range(len(pairs) + 1) for S in itertools.combinations(pairs, k)] if n <= 2 else None
        for dom in dom_opts:
            # slots to assign
            aslots = [(w, a) for w in range(n) for a in atoms]
            pslots = [(w, p, ds) for w in range(n) for p in preds for ds in itertools.product(range(dom), repeat=p.arity)]
            cassigns = list(itertools.product(range(dom), repeat=len(consts))) or [()]
            nslots = len(aslots) + len(pslots)
            space = (len(vals) ** nslots) * len(cassigns) * (len(Rs) if Rs else 64) * len(vals)
            exhaustive = space <= budget
            if exhaustive:
                it = itertools.product(Rs or [None], cassigns, itertools.product(vals, repeat=nslots), vals)
            else:
                def gen():
                    for _ in range(budget // (len(worlds_opts) * len(dom_opts))):
                        R = rng.choice(Rs) if Rs else frozenset(p for p in pairs if rng.random() < 0.45)
                        yield (R, rng.choice(cassigns), tuple(rng.choice(vals) for _ in range(nslots)), rng.choice(vals))
                it = gen()
            for R, ca, assign, default in it:
                if R is None:
                    R = frozenset()
                if has_modal or modal:
                    if not frame_ok(frame, n, R):
                        # close it up instead of skipping (keeps sampling efficient)
                        R = set(R)
                        if frame in ('T', 'S4', 'S5'):
                            R |= {(w, w) for w in range(n)}
                        if frame == 'D':
                            for w in range(n):
                                if not any(a == w for a, _ in R):
                                    R.add((w, w))
                        ch = True
                        while ch and frame in ('S4', 'S5'):
                            ch = False
                            for (a, b) in list(R):
                                for (b2, c) in list(R):
                                    if b == b2 and (a, c) not in R:
                                        R.add((a, c)); ch = True
                                if frame == 'S5' and (b, a) not in R:
                                    R.add((b, a)); ch = True
                        R = frozenset(R)
                tried += 1
                atom = dict(zip(aslots, assign[:len(aslots)]))
                pred = dict(zip(pslots, assign[len(aslots):]))
                M = build(n, R, dom, dict(zip(consts, ca)), atom, pred, default)
                try:
                    if is_countermodel(M, prem, conc):
                        return describe(M)
                except KeyError:
                    continue
    return None
