"""CLI: python -m harness.check <id> [--tier quick|thorough] [--replay path]"""
from __future__ import annotations

import argparse
import importlib
import json
import os
import sys
import time

from . import common
from .common import Ctx, InfraError


def main(argv=None) -> int:
    ap = argparse.ArgumentParser()
    ap.add_argument('prop')
    ap.add_argument('--tier', default=os.environ.get('VERIF_TIER') or 'quick', choices=['quick', 'thorough'])
    ap.add_argument('--replay')
    ns = ap.parse_args(argv)
    seed = int(os.environ.get('VERIF_SEED') or 0)
    prop = ns.prop.upper()
    try:
        mod = importlib.import_module(f'harness.props.{prop.lower()}')
    except ModuleNotFoundError as e:
        print(f'no check for {prop}: {e}', file=sys.stderr)
        return 2
    if ns.replay:
        data = json.loads(open(ns.replay).read())
        fn = getattr(mod, 'replay', None)
        if fn is None:
            print('no replay support', file=sys.stderr)
            return 2
        return int(fn(data) or 0)
    ctx = Ctx(prop, ns.tier, seed, level=getattr(mod, 'LEVEL', 'proof'))
    try:
        mod.run(ctx)
    except InfraError as e:
        print(f'INFRA-ERROR: {e}', file=sys.stderr)
        return 2
    except Exception as e:  # noqa
        if common.repo_frames(e):
            # the code under test raised inside our harness: the tie is broken
            ctx.fail(f'{prop}:harness-exception:{type(e).__name__}',
                     f'the implementation raised {type(e).__name__} under the harness: {e}',
                     dict(traceback=common.tb_text(e), correspondence='harness run'), found_input=False)
        else:
            print(common.tb_text(e), file=sys.stderr)
            print(f'INFRA-ERROR: {type(e).__name__}: {e}', file=sys.stderr)
            return 2
    return ctx.finish()


if __name__ == '__main__':
    sys.exit(main())
