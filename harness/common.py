"""
Shared infrastructure for the checks: context, evidence, violations / known findings,
Lean build + audit, the Lean driver (line protocol).

Exit codes of a check: 0 = held on everything explored, 1 = VIOLATION printed,
2 = infrastructure error (never a verdict).
"""
from __future__ import annotations

import fcntl
import fnmatch
import json
import os
import random
import re
import subprocess
import sys
import time
import traceback
from contextlib import contextmanager
from pathlib import Path

ROOT = Path(__file__).resolve().parents[1]
LEAN = Path(os.environ.get('VERIF_LEAN_DIR') or (ROOT / 'lean'))
# where evidence/ and replays/ are written (a scratch directory when a check is tried on a mutated copy of the repository)
OUT = Path(os.environ.get('VERIF_OUT_DIR') or ROOT)
REPO = Path(os.environ.get('VERIF_REPO', '/repo'))
PY = os.environ.get('VERIF_PYTHON', '/venv/bin/python')
GUARD = 'PYTABLEAUX_VERIF'
DRIVER = LEAN / '.lake' / 'build' / 'bin' / 'ptxdrv'
STD_AXIOMS = {'propext', 'Classical.choice', 'Quot.sound'}
FORBIDDEN = re.compile(
    r'\bsorry\b|\badmit\b|^\s*axiom\s|native_decide|bv_decide|implemented_by|\bunsafe\s|maxHeartbeats\s+0')

os.environ.setdefault(GUARD, '1')
if str(REPO) not in sys.path:
    sys.path.insert(0, str(REPO))


class InfraError(Exception):
    "Something in the machinery (not in the code under test) failed."


# --------------------------------------------------------------------------
# known findings
# --------------------------------------------------------------------------

def load_known() -> list[dict]:
    p = ROOT / 'known_findings.json'
    if not p.exists():
        return []
    data = json.loads(p.read_text())
    return [e for e in data.get('findings', []) if e.get('status', 'known') == 'known']


# --------------------------------------------------------------------------
# context
# --------------------------------------------------------------------------

class Ctx:
    """One run of one property's check."""

    def __init__(self, prop: str, tier: str, seed: int, level: str = 'proof'):
        self.prop = prop
        self.tier = tier
        self.seed = seed
        self.level = level
        self.rng = random.Random(f'{prop}:{seed}')
        self.t0 = time.time()
        self.known = [e for e in load_known() if e['property'] == prop]
        self.known_hit: dict[str, str] = {}
        self.violations: list[dict] = []
        self.coverage: dict = dict(
            obligations=0, discharged=0, checker_cmd='', trusted_base=[],
            evaluations=0, distinct_nontrivial=0, rule='', samples=[])
        self.assumptions: list[str] = []
        self._nreplay = 0
        self._distinct: set = set()
        self.notes: list[str] = []

    # -- tiers
    @property
    def thorough(self) -> bool:
        return self.tier == 'thorough'

    def scale(self, quick: int, thorough: int) -> int:
        return thorough if self.thorough else quick

    # -- coverage accounting
    def count(self, key=None, *, nontrivial: bool = True, n: int = 1):
        """Count one evaluated case; `key` identifies it for distinctness."""
        self.coverage['evaluations'] += n
        if nontrivial and key is not None:
            self._distinct.add(key if isinstance(key, (str, int, tuple)) else repr(key))

    def sample(self, item, limit: int = 12):
        if len(self.coverage['samples']) < limit:
            self.coverage['samples'].append(item)

    def add_cov(self, **kw):
        for k, v in kw.items():
            if isinstance(v, int) and isinstance(self.coverage.get(k), int):
                self.coverage[k] += v
            else:
                self.coverage[k] = v

    # -- findings
    def match_known(self, key: str) -> dict | None:
        for e in self.known:
            if fnmatch.fnmatchcase(key, e['key']):
                return e
        return None

    def fail(self, key: str, what: str, replay: dict | None = None, *, found_input: bool = True):
        """Report a failing item. `key` is the canonical identity of the failing thing;
        if it matches a committed known finding it is reported as such, else it is a
        violation. `found_input=False`: no concrete failing input was found on the
        implementation (only a proof obligation / correspondence is broken)."""
        e = self.match_known(key)
        if e is not None and found_input:
            if e['key'] not in self.known_hit:
                self.known_hit[e['key']] = what
            return
        if any(v['key'] == key for v in self.violations):
            return
        self._nreplay += 1
        path = OUT / 'replays' / f'{self.prop}-{self.seed}-{self._nreplay}.json'
        path.parent.mkdir(exist_ok=True, parents=True)
        body = dict(property=self.prop, key=key, what=what, seed=self.seed, tier=self.tier,
                    found_failing_input=found_input, replay=replay or {})
        path.write_text(json.dumps(body, indent=1, default=str))
        self.violations.append(dict(key=key, what=what, path=str(path), found_input=found_input))

    # -- finishing
    def finish(self) -> int:
        cov = self.coverage
        cov['distinct_nontrivial'] = len(self._distinct)
        # keys the evidence schema types: keep them well-typed whatever a component put there
        if 'exhaustive' in cov and not isinstance(cov['exhaustive'], bool):
            cov['exhaustive_detail'] = cov.pop('exhaustive')
        for k in ('states', 'transitions', 'traces_validated_against_impl', 'programs', 'disagreements_checked'):
            if k in cov and not (isinstance(cov[k], int) and not isinstance(cov[k], bool)):
                cov[k + '_detail'] = cov.pop(k)
        for k in ('rule', 'explanation', 'checker_cmd'):
            if k in cov and not isinstance(cov[k], str):
                cov[k] = json.dumps(cov[k], default=str)
        wall = time.time() - self.t0
        ev = dict(
            property_id=self.prop, tier=self.tier, seed=self.seed, level=self.level,
            coverage=cov, assumptions=self.assumptions, wall_s=round(wall, 2),
            violations=len(self.violations),
            known_findings=sorted(self.known_hit), notes=self.notes)
        (OUT / 'evidence').mkdir(exist_ok=True, parents=True)
        (OUT / 'evidence' / f'{self.prop}.json').write_text(json.dumps(ev, indent=1, default=str))
        for k, what in sorted(self.known_hit.items()):
            print(f'KNOWN-FINDING: property={self.prop} {k} :: {what}')
        for v in sorted(self.violations, key=lambda v: not v['found_input']):
            tail = '' if v['found_input'] else ' no-failing-input-found'
            print(f"# {v['key']}: {v['what']}")
            print(f"VIOLATION property={self.prop} replay={v['path']}{tail}")
        print(f'[{self.prop}] tier={self.tier} seed={self.seed} obligations={cov["obligations"]} '
              f'discharged={cov["discharged"]} evaluations={cov["evaluations"]} '
              f'distinct={cov["distinct_nontrivial"]} known={len(self.known_hit)} '
              f'violations={len(self.violations)} wall={wall:.1f}s')
        return 1 if self.violations else 0


# --------------------------------------------------------------------------
# locking / running
# --------------------------------------------------------------------------

@contextmanager
def build_lock():
    lockf = ROOT / '.build.lock'
    with open(lockf, 'w') as fh:
        fcntl.flock(fh, fcntl.LOCK_EX)
        try:
            yield
        finally:
            fcntl.flock(fh, fcntl.LOCK_UN)


def run(cmd, *, cwd=None, timeout=3600, env=None, input=None) -> subprocess.CompletedProcess:
    e = dict(os.environ)
    if env:
        e.update(env)
    return subprocess.run(cmd, cwd=cwd, timeout=timeout, env=e, input=input,
                          capture_output=True, text=True)


def write_if_changed(path: Path, text: str) -> bool:
    path.parent.mkdir(parents=True, exist_ok=True)
    if path.exists() and path.read_text() == text:
        return False
    path.write_text(text)
    return True


# --------------------------------------------------------------------------
# Lean
# --------------------------------------------------------------------------

_ERR = re.compile(r'^error: (?:\./)?(\S+?\.lean):(\d+):(\d+): (.*)$')


class LeanResult:
    def __init__(self, ok: bool, log: str, errors: list[tuple[str, int, str]]):
        self.ok = ok
        self.log = log
        self.errors = errors      # (file, line, message)

    def failed_decls(self) -> list[tuple[str, str]]:
        """(file, declaration name) for every error, by looking upwards in the file."""
        out = []
        for f, ln, _ in self.errors:
            p = LEAN / f
            name = '?'
            if p.exists():
                lines = p.read_text().splitlines()
                for i in range(min(ln, len(lines)) - 1, -1, -1):
                    m = re.match(r'\s*(?:private\s+|protected\s+)?(?:theorem|lemma|def|example|instance)\s+(\S+)', lines[i])
                    if m:
                        name = m.group(1)
                        break
            if (f, name) not in out:
                out.append((f, name))
        return out


def lake_build(targets: list[str], timeout=3000) -> LeanResult:
    with build_lock():
        p = run(['lake', 'build', *targets], cwd=LEAN, timeout=timeout)
    log = p.stdout + p.stderr
    errors = []
    for line in log.splitlines():
        m = _ERR.match(line.strip())
        if m:
            errors.append((m.group(1), int(m.group(2)), m.group(4)))
    return LeanResult(p.returncode == 0, log, errors)


def theorem_names(module: str) -> list[str]:
    """Fully qualified names of the theorems declared in a module (by scanning its source,
    tracking `namespace`/`end`)."""
    path = LEAN / (module.replace('.', '/') + '.lean')
    names, ns = [], []
    for line in path.read_text().splitlines():
        s = line.strip()
        m = re.match(r'namespace\s+(\S+)', s)
        if m:
            ns.append(m.group(1)); continue
        m = re.match(r'end\s+(\S+)\s*$', s)
        if m and ns and ns[-1].split('.')[-1] == m.group(1).split('.')[-1]:
            ns.pop(); continue
        m = re.match(r'(?:@\[[^\]]*\]\s*)?(?:private\s+|protected\s+)?theorem\s+([^\s:({\[]+)', s)
        if m:
            names.append('.'.join(ns + [m.group(1)]))
    return names


def scan_forbidden(modules: list[str]) -> list[str]:
    """Lines containing sorry/admit/axiom/native_decide/... outside comments."""
    hits = []
    for mod in modules:
        path = LEAN / (mod.replace('.', '/') + '.lean')
        if not path.exists():
            continue
        text = path.read_text()
        text = re.sub(r'/-.*?-/', lambda m: '\n' * m.group(0).count('\n'), text, flags=re.S)
        for i, line in enumerate(text.splitlines(), 1):
            code = line.split('--')[0]
            if FORBIDDEN.search(code):
                hits.append(f'{path.relative_to(LEAN)}:{i}: {line.strip()}')
    return hits


def module_closure(modules: list[str]) -> list[str]:
    """The given modules and every `Ptx.*` module they import, transitively."""
    seen, todo = [], list(modules)
    while todo:
        m = todo.pop()
        if m in seen:
            continue
        path = LEAN / (m.replace('.', '/') + '.lean')
        if not path.exists():
            continue
        seen.append(m)
        for line in path.read_text().splitlines():
            mm = re.match(r'\s*(?:public\s+)?import\s+(Ptx\.\S+)', line)
            if mm:
                todo.append(mm.group(1))
    return sorted(seen)


def audit_axioms(modules: list[str], names: list[str], tag: str) -> dict[str, list[str]]:
    """#print axioms for each name; returns name -> axioms."""
    if not names:
        return {}
    src = ''.join(f'import {m}\n' for m in modules)
    src += ''.join(f'#print axioms {n}\n' for n in names)
    aud = LEAN / '.audit'
    aud.mkdir(exist_ok=True)
    f = aud / f'Audit_{tag}.lean'
    f.write_text(src)
    p = run(['lake', 'env', 'lean', str(f)], cwd=LEAN, timeout=1800)
    out = p.stdout + p.stderr
    res: dict[str, list[str]] = {}
    # "'X' depends on axioms: [a, b]"  /  "'X' does not depend on any axioms"
    for m in re.finditer(r"'([^']+)' depends on axioms: \[([^\]]*)\]", out, flags=re.S):
        res[m.group(1)] = [a.strip() for a in m.group(2).replace('\n', ' ').split(',') if a.strip()]
    for m in re.finditer(r"'([^']+)' does not depend on any axioms", out):
        res[m.group(1)] = []
    if p.returncode != 0 and not res:
        raise InfraError('axiom audit failed:\n' + out[-3000:])
    return res


def lean_phase(ctx: Ctx, prop_modules: list[str], extra_targets: list[str] = (),
               key_prefix: str | None = None) -> LeanResult:
    """Build the property's Lean modules (and the driver), audit sorry/axioms.
    A failing build is *not* reported here: the caller searches for a failing input first.
    Returns the LeanResult; fills the evidence's obligation counts."""
    targets = list(prop_modules) + list(extra_targets) + ['ptxdrv']
    res = lake_build(targets)
    mods = module_closure(prop_modules)
    thms = [n for m in prop_modules for n in theorem_names(m)]
    ctx.coverage['obligations'] += len(thms)
    ctx.coverage['checker_cmd'] = f'cd lean && lake build {" ".join(targets)} && lake env lean .audit/Audit_{ctx.prop}.lean  (#print axioms)'
    tb = ctx.coverage['trusted_base']
    for t in ('Lean 4.33.0 kernel', 'axioms ⊆ {propext, Classical.choice, Quot.sound} (audited by #print axioms on every property theorem each run)'):
        if t not in tb:
            tb.append(t)
    if not res.ok:
        return res
    hits = scan_forbidden(mods)
    for h in hits:
        ctx.fail(f'{ctx.prop}:lean:forbidden:{h.split(":")[0]}', f'forbidden construct in proof sources: {h}',
                 dict(theorem=h), found_input=False)
    ax = audit_axioms(prop_modules, thms, ctx.prop)
    bad = {n: a for n, a in ax.items() if set(a) - STD_AXIOMS}
    missing = [n for n in thms if n not in ax]
    for n, a in bad.items():
        ctx.fail(f'{ctx.prop}:lean:axioms:{n}', f'theorem {n} depends on non-standard axioms {a}',
                 dict(theorem=n, axioms=a), found_input=False)
    for n in missing:
        ctx.fail(f'{ctx.prop}:lean:missing:{n}', f'theorem {n} not found by the axiom audit',
                 dict(theorem=n), found_input=False)
    ctx.coverage['discharged'] += len(thms) - len(bad) - len(missing)
    ctx.coverage['axioms_seen'] = sorted({a for v in ax.values() for a in v})
    ctx.coverage['theorems'] = thms if len(thms) <= 80 else thms[:80] + [f'... {len(thms) - 80} more']
    if ctx.thorough:
        p = run(['lake', 'env', 'leanchecker', *prop_modules], cwd=LEAN, timeout=3000)
        ctx.coverage['leanchecker'] = 'ok' if p.returncode == 0 else (p.stdout + p.stderr)[-500:]
        if p.returncode != 0:
            ctx.fail(f'{ctx.prop}:lean:leanchecker', 'leanchecker rejected the compiled modules',
                     dict(log=(p.stdout + p.stderr)[-2000:]), found_input=False)
    return res


# --------------------------------------------------------------------------
# driver
# --------------------------------------------------------------------------

def drive(lines: list[str], timeout=1800) -> list[str]:
    """Send request lines to the compiled Lean driver; one answer line per request."""
    if not lines:
        return []
    if not DRIVER.exists():
        raise InfraError(f'driver not built: {DRIVER}')
    for ln in lines:
        if '\n' in ln:
            raise InfraError('newline inside a driver request')
    p = subprocess.run([str(DRIVER)], input='\n'.join(lines) + '\n', capture_output=True,
                       text=True, timeout=timeout)
    out = p.stdout.split('\n')
    if out and out[-1] == '':
        out.pop()
    if p.returncode != 0 or len(out) != len(lines):
        raise InfraError(f'driver: rc={p.returncode} got {len(out)} answers for {len(lines)} requests\n'
                         f'{p.stderr[-2000:]}')
    return out


_NOASLR = None


def no_aslr_prefix() -> list[str]:
    """`setarch <arch> -R`: lexical items hash by hash((__class__, sort_tuple)) and a class hashes by its address, so the
    iteration order of constant / sentence sets (hence tie-breaks of the proof search) varies from process to process with
    address-space randomisation even under PYTHONHASHSEED=0 and the node/branch hook.  Without ASLR a worker process is
    reproducible; if setarch is unavailable verdicts are unaffected, only which tableaux are seen varies."""
    global _NOASLR
    if _NOASLR is None:
        import platform
        import shutil
        found = []
        exe = shutil.which('setarch')
        if exe:
            cmd = [exe, platform.machine(), '-R']
            try:
                if subprocess.run(cmd + ['true'], capture_output=True, timeout=20).returncode == 0:
                    found = cmd
            except Exception:  # noqa
                pass
        _NOASLR = found
    return list(_NOASLR)


def repo_frames(exc: BaseException) -> bool:
    "Whether the traceback of `exc` passes through code of the repository under test."
    tb = exc.__traceback__
    while tb is not None:
        if str(REPO) in tb.tb_frame.f_code.co_filename:
            return True
        tb = tb.tb_next
    return False


def tb_text(exc: BaseException) -> str:
    return ''.join(traceback.format_exception(type(exc), exc, exc.__traceback__))[-4000:]
