"""
Search-layer correspondence (called from harness/props/c02.py and c09.py as `run_part(ctx, data)`).

The Lean model lean/Ptx/Search/*.lean mirrors the TARGET-SELECTION layer of pytableaux: the helper state every rule keeps
per branch (proof/helpers.py) and `Rule._get_targets` of the closure, operator, modal and access rules.  Here real tableaux are
run in worker processes (harness/tabworker.py, job flag `probe`) under the option matrix and several tie-break seeds; after
EVERY real step the worker asks every live rule object for its target set on every open branch (the rule's own enumeration
on the live helper objects, side effects diverted — see tabworker.probe_targets) and logs every real `rule.target(branch)` call
(which decides what `FilterNodeCache.release` / `gc` do).  The same event trace is given to the driver request `search`, which
runs the model and answers the model's target sets after every step; both are compared set by set.

  * the runs are executed a second time WITHOUT the probe: the step traces must be identical (the probe does not steer the run);
  * a difference (or a step the model rejects, or a failing invariant check) starts the implementation-side search: the
    argument, its sub-arguments and neighbours are run under every option set / seed and every open branch of a completed
    tableau that carries no quit flag is handed to the driver request `saturated`; an unsaturated one is the concrete failing
    input (`found_input=True`), otherwise the difference is reported with `found_input=False`.
Keys: C02:search-corr:<logic>:<rule>:<kind>   kind ∈ missing-in-code | extra-in-code | model-rejects-<reason> | probe-perturbs-run | exception;
      C02:search-corr:<logic>:inv:<clause>    the model's invariant check `invBad` fails on a state of a real run (`!inv:` in the driver answer)
"""
from __future__ import annotations

import collections
import time

from . import tabrun
from .common import Ctx, drive

PREFIX = 'C02:search-corr'
SEEDS_Q, SEEDS_T = [0, 1, 2], [0, 1, 2, 3, 4, 5]
MAX_REPORTS = 24           # distinct (logic, rule, kind) keys reported per run; the rest is counted in the coverage
MAX_REQUEST = 300_000      # bytes of one `search` request (≈ 1500 events); longer runs are counted and skipped


def _fragments(meta):
    out = [dict(modal=False, quant=False, ident=False)]
    if meta['modal']:
        out += [dict(modal=True, quant=False, ident=False)] * 3
    if meta.get('quantified'):
        # first-order arguments (no identity: IdentityIndiscernability is not modelled): NodeConsts / MaxConsts / new_constant
        out += [dict(modal=False, quant=True, ident=False), dict(modal=bool(meta['modal']), quant=True, ident=False)]
        if not meta.get('marks'):
            # the classical family carries identity: IdentityIndiscernability / PredNodes / the world-indexed `branch.has`
            out += [dict(modal=bool(meta['modal']), quant=True, ident=True)] * 2
    return out


def make_jobs(ctx: Ctx, data, rng, per_modal, per_plain):
    names = sorted(n for n, d in data.items() if 'fatal' not in d)
    jobs, dist = [], collections.Counter()
    for lg in names:
        fr = _fragments(data[lg])
        n = per_modal if data[lg]['modal'] else per_plain
        for k in range(n):
            f = fr[k % len(fr)]
            if k % 2:
                prem, conc = tabrun.schema_argument(rng, depth=rng.choice([1, 2]), **f)
                dist['schema-' + ('id-' if f['ident'] else '') + ('fo-' if f['quant'] else '') + ('modal' if f['modal'] else 'prop')] += 1
            else:
                prem, conc = tabrun.rand_argument(rng, depth=rng.choice([2, 3]) if not f['quant'] else 2, **f)
                dist['random-' + ('id-' if f['ident'] else '') + ('fo-' if f['quant'] else '') + ('modal' if f['modal'] else 'prop')] += 1
            jobs.append(tabrun.job_for(len(jobs), lg, prem, conc, opts=tabrun.OPTS[rng.randrange(4)], mode='step',
                                       max_steps=ctx.scale(150, 400), probe=True))
    # every modal inference schema of the generator with sentence letters (plain and with the modal operators written through
    # their duals), dealt over the modal logics: a third of them per logic in the quick tier (rotating with logic and seed),
    # all of them in the thorough tier
    for li, lg in enumerate(names):
        if not data[lg]['modal']:
            continue
        sch = tabrun.all_schemata(rng, modal=True)
        for si, (prem, conc) in enumerate(sch):
            if not ctx.thorough and (si + li + ctx.seed) % 3:
                continue
            if (si + li) % 2:
                prem, conc = [tabrun.dualise(x) for x in prem], tabrun.dualise(conc)
            dist['schemata-atomic-modal'] += 1
            jobs.append(tabrun.job_for(len(jobs), lg, prem, conc, opts=tabrun.OPTS[(si + li) % 4], mode='step',
                                       max_steps=ctx.scale(150, 400), probe=True))
    # the identity rule (classical family only): schemata whose premises interact through identities, so that
    # IdentityIndiscernability really fires (Leibniz-style arguments, also inside modal contexts)
    for lg in names:
        if data[lg].get('marks') or not data[lg].get('quantified'):
            continue
        for k in range(ctx.scale(5, 24)):
            prem, conc = tabrun.schema_argument(rng, modal=bool(data[lg]['modal']), quant=True, ident=True, depth=1)
            dist['identity-schema'] += 1
            jobs.append(tabrun.job_for(len(jobs), lg, prem, conc, opts=tabrun.OPTS[rng.randrange(4)], mode='step',
                                       max_steps=ctx.scale(150, 400), probe=True))
    return jobs, dist


def pdrive(lines: list[str]) -> list[str]:
    "drive() in parallel: the requests are dealt to one driver process per core, longest first"
    import os
    from concurrent.futures import ThreadPoolExecutor
    n = min(os.cpu_count() or 4, len(lines))
    if n <= 1:
        return drive(lines)
    order = sorted(range(len(lines)), key=lambda i: -len(lines[i]))
    loads, chunks = [0] * n, [[] for _ in range(n)]
    for i in order:
        k = loads.index(min(loads))
        chunks[k].append(i)
        loads[k] += len(lines[i]) + 200
    out = [None] * len(lines)
    with ThreadPoolExecutor(n) as ex:
        for idx, ans in zip(chunks, ex.map(lambda c: drive([lines[i] for i in c]), chunks)):
            for i, a in zip(idx, ans):
                out[i] = a
    return out


def parse_states(answer: str):
    """driver answer → (status, n, [ {(bi, rule): set(steps)} ], [inv complaints per state])"""
    head, _, body = answer.partition(' :: ')
    hs = head.split()
    states, invs = [], []
    for st in body.split(' ## '):
        d, inv = {}, None
        for item in st.split(' ; '):
            item = item.strip()
            if not item:
                continue
            if item.startswith('!inv:'):
                inv = item[5:]
                continue
            key, _, val = item.partition('=')
            bi, _, rule = key.partition('/')
            d[(int(bi), rule)] = set(val.split(','))
        states.append(d)
        invs.append(inv)
    return hs[0], (hs[1:] if hs else []), states, invs


def real_states(out):
    return [{(bi, rule): set(steps) for bi, rule, steps in st} for st in out['probes']]


def compare(job, out, answer):
    """list of (rule, kind, detail) differences between the model's answer and the probes of one real run"""
    diffs = []
    status, rest, mstates, invs = parse_states(answer)
    rstates = real_states(out)
    if status == 'reject':
        i = int(rest[0]) if rest else -1
        evs = [e for e in out['search_request'].split(' ## ')[2:] if e.startswith('A ')]
        rule = evs[i].split()[1] if 0 <= i < len(evs) else '?'
        diffs.append((rule, f'model-rejects-{rest[1] if len(rest) > 1 else "?"}', dict(step_index=i, step=evs[i] if 0 <= i < len(evs) else None)))
    elif status != 'ok':
        diffs.append(('?', 'driver-error', dict(answer=answer[:200])))
        return diffs, 0
    ncmp = 0
    for i, (ms, rs) in enumerate(zip(mstates, rstates)):
        for key in sorted(set(ms) | set(rs)):
            ncmp += 1
            m, r = ms.get(key, set()), rs.get(key, set())
            if m == r:
                continue
            bi, rule = key
            if m - r:
                diffs.append((rule, 'missing-in-code', dict(after_step=i, branch=bi, model_only=sorted(m - r), code_only=sorted(r - m))))
            else:
                diffs.append((rule, 'extra-in-code', dict(after_step=i, branch=bi, model_only=[], code_only=sorted(r - m))))
            break_state = True
        if invs[i]:
            # the decidable invariant check of the model (`invBad`, sound for `Inv`: inv_of_invBad) fails on this state
            diffs.append(('inv', invs[i].split()[0], dict(after_step=i, clause=invs[i])))
        if diffs:
            break           # later states only repeat the first difference
    return diffs, ncmp


def oracle_search(ctx: Ctx, job, seeds, budget=40):
    """implementation-side: look for an argument near `job` on which a COMPLETED tableau has an open branch without quit flag
    that is not saturated (driver request `saturated` on the real final branch).  Returns a replay dict or None."""
    from . import wire
    prem = [wire.dec_sent(s) for s in job['premises']]
    conc = wire.dec_sent(job['conclusion'])
    cands = [(prem, conc)]
    for i in range(len(prem)):
        cands.append((prem[:i] + prem[i + 1:], conc))
        cands.append(([prem[i]], conc))
    for p in prem:
        cands.append(([x for x in prem if x is not p], p))
    jobs = []
    for pr, co in cands:
        for o in tabrun.OPTS:
            jobs.append(tabrun.job_for(len(jobs), job['logic'], pr, co, opts=o, mode='step', max_steps=job.get('max_steps') or 600, probe=True))
    jobs = jobs[:budget]
    for sd in seeds[:2]:
        outs = tabrun.run_jobs(jobs, order_seed=sd)
        reqs, where = [], []
        for j, o in zip(jobs, outs):
            if 'error' in o or not o.get('completed'):
                continue
            for bi, branch, quit_, wl in o.get('open_final') or []:
                if quit_:
                    continue
                reqs.append(f'saturated {j["logic"]} ## {branch}')
                where.append((j, bi, branch, wl))
        if not reqs:
            continue
        for (j, bi, branch, wl), a in zip(where, drive(reqs)):
            if a.startswith('unsat'):
                return dict(argument=tabrun.arg_text(j), order_seed=sd, branch_index=bi, branch=branch[:3000], saturation=a[:300],
                            world_limit_reached=bool(wl))
    return None


def run_part(ctx: Ctx, data, prefix: str = PREFIX, salt: str = ''):
    """run the search-layer correspondence; failures go to ctx.fail, the input distribution to ctx.add_cov"""
    t0 = time.time()
    rng = __import__('random').Random(f'{ctx.seed}:search-corr:{salt}')
    seeds = SEEDS_T if ctx.thorough else SEEDS_Q
    jobs, dist = make_jobs(ctx, data, rng, ctx.scale(10, 64), ctx.scale(5, 24))
    stats = collections.Counter()
    fam_hist, applied_hist, unmodelled_applied = collections.Counter(), collections.Counter(), collections.Counter()
    reqs, where = [], []
    for si, sd in enumerate(seeds):
        sub = [j for i, j in enumerate(jobs) if i % len(seeds) == si]
        plain = [{k: v for k, v in j.items() if k != 'probe'} for j in sub]
        # the probed runs and the unprobed re-runs of one seed side by side (same chunking → same per-process job sequence)
        import os
        from concurrent.futures import ThreadPoolExecutor
        half = max(2, (os.cpu_count() or 4) // 2)
        with ThreadPoolExecutor(2) as ex:
            f1 = ex.submit(tabrun.run_jobs, sub, sd, half)
            f0 = ex.submit(tabrun.run_jobs, plain, sd, half)
            outs, outs0 = f1.result(), f0.result()
        for j, o, o0 in zip(sub, outs, outs0):
            if 'error' in o:
                stats['exception'] += 1
                ctx.fail(f'{prefix}:{j["logic"]}:run:exception', f'{j["logic"]}: probed run raised {o["error"][:200]}',
                         dict(stream='search-corr', argument=tabrun.arg_text(j), order_seed=sd, traceback=o.get('traceback')), found_input=bool(o.get('repo')))
                continue
            stats['runs'] += 1
            if 'error' in o0 or o0.get('request') != o.get('request'):
                stats['probe-perturbed'] += 1
                ctx.fail(f'{prefix}:{j["logic"]}:probe:probe-perturbs-run',
                         f'{j["logic"]}: the step trace with the target probe differs from the trace without it (the probe steers the run)',
                         dict(stream='search-corr', argument=tabrun.arg_text(j), order_seed=sd, with_probe=o.get('request', '')[:1500],
                              without=(o0.get('request') or o0.get('error') or '')[:1500]), found_input=False)
                continue
            stats['traces-identical-with-and-without-probe'] += 1
            # implementation side, no model involved: a COMPLETED tableau is one on which the rules' own enumerations find
            # nothing more to do on any open branch (the scheduler must not stop while some rule still has a target)
            if o.get('completed') and o['probes'] and o['probes'][-1]:
                bi0, rname, tg0 = o['probes'][-1][0]
                stats['completed-with-targets'] += 1
                k0 = f'{prefix}:{j["logic"]}:{rname}:completed-with-targets'
                ctx.fail(k0, f'{j["logic"]}: the tableau reports completed, but rule {rname} still has {len(tg0)} target(s) on open branch {bi0} '
                         f'by its own enumeration ({tg0[:2]})', dict(stream='search-corr', argument=tabrun.arg_text(j), order_seed=sd,
                         mode=j.get('mode'), final_targets=o['probes'][-1][:6]), found_input=True)
            elif o.get('completed'):
                stats['completed-runs-with-no-target-left'] += 1
            stats['real-steps'] += len(o['probes']) - 1
            for _cls, _name, fam in o['families']:
                fam_hist[fam.split(':')[0] if not fam.startswith('unmodelled') else fam] += 1
            for r in o['rules']:
                applied_hist[r] += 1
            for r in o['applied_unmodelled']:
                unmodelled_applied[r] += 1
            if o['applied_unmodelled']:
                stats['runs-with-unmodelled-rule-applied(skipped)'] += 1
                continue
            if len(o['search_request']) > MAX_REQUEST:
                stats['runs-too-long-for-the-model-replay(skipped)'] += 1
                continue
            reqs.append(o['search_request'])
            where.append((j, o, sd))
    answers = pdrive(reqs) if reqs else []
    seen = set()
    for (j, o, sd), a in zip(where, answers):
        lg = j['logic']
        ctx.count(('search-corr', lg, tuple(j['premises']), j['conclusion'], tuple(sorted((j.get('opts') or {}).items())), sd))
        diffs, ncmp = compare(j, o, a)
        stats['target-sets-compared'] += ncmp
        stats['states-compared'] += len(o['probes'])
        if not diffs:
            stats['runs-agreeing-at-every-step'] += 1
            continue
        stats['runs-with-difference'] += 1
        rule, kind, detail = diffs[0]
        key = f'{prefix}:{lg}:{rule}:{kind}'
        if key in seen:
            continue
        seen.add(key)
        if len(seen) > MAX_REPORTS:
            stats['differences-not-reported-individually'] += 1
            continue
        found = None
        if len(seen) <= ctx.scale(6, 20):
            try:
                found = oracle_search(ctx, j, seeds)
            except Exception as e:  # noqa
                ctx.notes.append(f'search-corr oracle failed: {e}'[:200])
        rep = dict(stream='search-corr', argument=tabrun.arg_text(j), order_seed=sd, difference=detail, rule=rule, kind=kind,
                   search_request=o['search_request'][:4000])
        if found:
            rep['failing_input'] = found
            suffix = ':world-limit-without-flag' if found.get('world_limit_reached') else ''
            ctx.fail(key + suffix, f'{lg}: rule {rule}: the code and the search model disagree on the target set ({kind}) and a completed tableau '
                     f'near this argument has an unsaturated open branch without quit flag: {found["saturation"][:160]}', rep, found_input=True)
        else:
            ctx.fail(key, f'{lg}: rule {rule}: the code and the search model disagree on the target set ({kind}: {str(detail)[:200]}); '
                     'no completed tableau with an unsaturated flag-free branch was found near the argument — the search-layer '
                     'correspondence (Ptx/Search, theorem completed_is_saturated) no longer covers this rule', rep, found_input=False)
    for (j, o, sd), a in list(zip(where, answers))[:2]:
        ctx.sample(dict(search_corr=tabrun.arg_text(j), steps=len(o['probes']) - 1, model_answer=a[:300]))
    ctx.add_cov(search_corr=dict(
        run_stats=dict(stats), input_distribution=dict(dist), logics=len({j['logic'] for j in jobs}), jobs=len(jobs),
        option_matrix='is_group_optim × is_rank_optim (4); tie-break seeds ' + str(seeds),
        rule_families_seen=dict(fam_hist), applied_rules_histogram=dict(applied_hist.most_common(60)),
        unmodelled_rules_applied=dict(unmodelled_applied), seconds=round(time.time() - t0, 1),
        rule='after every real step: target set of every closure / operator / modal / access rule on every open branch '
             '(live objects) = target set of the Lean search model run on the same event trace; traces with and without the probe identical'))
    ctx.coverage.setdefault('trusted_base', [])
    ctx.coverage['trusted_base'] += ['harness/tabworker.py probe_targets / install_search_log (reads the live rule and helper objects; '
                                     'checked not to steer the run by re-running every job without it)']
    return stats


def replay(rp) -> int:
    "re-run the argument of a search-corr replay with the probe and print the first difference"
    import json
    import os
    import subprocess
    from .common import PY, ROOT
    a = rp.get('argument')
    code = ("import sys,json;sys.path.insert(0,%r);from harness import common, wire, tabworker;from pytableaux.lang import Parser;p=Parser('polish');"
            "a=json.loads(sys.argv[1]);"
            "j=dict(id=0,logic=a['logic'],premises=[wire.enc_sent(p(x)) for x in a['premises']],conclusion=wire.enc_sent(p(a['conclusion'])),"
            "opts=a.get('opts') or {},max_steps=600,mode='step',probe=True);print(json.dumps(tabworker.run_job(j)))" % str(ROOT))
    p = subprocess.run([PY, '-c', code, json.dumps(a)], capture_output=True, text=True, cwd=str(ROOT),
                       env=dict(os.environ, PYTABLEAUX_VERIF='1', PYTABLEAUX_VERIF_ORDER=str(rp.get('order_seed', 0)), PYTHONHASHSEED='0'))
    try:
        o = json.loads(p.stdout.strip().splitlines()[-1])
    except Exception:  # noqa
        print(p.stderr[-1500:])
        return 2
    if 'error' in o:
        print(o['error'])
        return 1
    ans = drive([o['search_request']])[0]
    job = dict(logic=a['logic'])
    diffs, n = compare(job, o, ans)
    print(f'{n} target sets compared;', 'first difference:' if diffs else 'no difference')
    for d in diffs[:3]:
        print('  ', d)
    if rp.get('failing_input'):
        print('failing input recorded:', json.dumps(rp['failing_input'])[:600])
    return 1 if diffs else 0
