"""
Arguments built AROUND a rule row (failing-input search seeded by the Lean side): the keyed node shape as premise /
conclusion so that the trunk carries exactly that node, a small pool of related sentences on the other side.
Used by the verdict-level checks (C02, C11) when a regenerated rule row stops passing its kernel-evaluated check.
"""
from __future__ import annotations

from pytableaux.lang import Atomic, Constant, Operated, Operator, Predicate, Quantified, Quantifier, Variable

A, B, C = Atomic(0, 0), Atomic(1, 0), Atomic(2, 0)
m, n = Constant(0, 0), Constant(1, 0)
x = Variable(0, 0)
F = Predicate(0, 0, 1)
N = Operator.Negation
OPN = {o.name: o for o in Operator}
QN = {q.name: q for q in Quantifier}


def parse_keyname(name: str):
    d = None
    if name.endswith('Undesignated'):
        d, name = False, name[:-len('Undesignated')]
    elif name.endswith('Designated'):
        d, name = True, name[:-len('Designated')]
    ng = name.endswith('Negated')
    if ng:
        name = name[:-len('Negated')]
    return name, ng, d


def arguments_around(keyname: str, modal: bool):
    "list of (premises, conclusion) around the node shape named by a rule key like 'ConjunctionNegatedDesignated'"
    shape, ng, d = parse_keyname(keyname)
    M_, L_ = Operator.Possibility, Operator.Necessity
    if shape in QN:
        inners = [Quantified(QN[shape], x, F(x)), Quantified(QN[shape], x, N(F(x)))]
        pool = [F(m), N(F(m)), F(n), N(F(n)), Quantified(Quantifier.Existential, x, F(x)), Quantified(Quantifier.Universal, x, F(x)),
                N(Quantified(Quantifier.Existential, x, N(F(x)))), N(Quantified(Quantifier.Universal, x, N(F(x))))]
    elif shape in OPN and OPN[shape].arity == 1:
        o = OPN[shape]
        inners = [Operated(o, (A,)), Operated(o, (N(A),)), Operated(o, (Operated(Operator.Disjunction, (A, B)),))]
        pool = ([A, N(A), Operated(M_, (A,)), Operated(L_, (A,)), N(Operated(M_, (N(A),))), B, Operated(M_, (B,)), Operated(L_, (N(A),))]
                if modal else [A, N(A), N(N(A)), B])
    elif shape in OPN:
        o = OPN[shape]
        inners = [Operated(o, (A, B)), Operated(o, (A, N(B))), Operated(o, (N(A), B)), Operated(o, (A, A))]
        pool = [A, B, N(A), N(B), Operated(Operator.Conjunction, (A, B)), Operated(Operator.Disjunction, (A, B)),
                Operated(Operator.Disjunction, (N(A), B)), Operated(Operator.Conjunction, (N(A), N(B))), C,
                # value-forcing premises: a designated ~(B v ~B) pins B to a gap value, a designated B & ~B to a glut value
                N(Operated(Operator.Disjunction, (B, N(B)))), Operated(Operator.Conjunction, (B, N(B))),
                N(Operated(Operator.Disjunction, (A, N(A)))), Operated(Operator.Conjunction, (A, N(A)))]
    else:
        return []
    args = []
    for inner in inners:
        S = N(inner) if ng else inner
        args += [([], S)] + [([p1], S) for p1 in pool] + [([p1, p2], S) for p1 in pool[:4] for p2 in pool[4:]]
        args += [([S], c) for c in pool] + [([S, p1], c) for p1 in pool[:4] for c in pool]
        if modal:
            args += [([Operated(L_, (S,))], c) for c in pool[:4]] + [([p1], Operated(M_, (S,))) for p1 in pool[:4]]
    return args
