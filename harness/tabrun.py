"""
Client side of the whole-proof correspondence: generate arguments, run them in worker processes
(one pool per tie-break order seed), replay the histories through the Lean driver, compare.
"""
from __future__ import annotations

import json
import os
import subprocess
import sys
from concurrent.futures import ThreadPoolExecutor

from . import common, wire
from .common import PY, ROOT

from pytableaux.lang import (Atomic, Constant, Operated, Operator, Predicate, Predicated,
                             Quantified, Quantifier, Variable)

OPTS = [dict(is_group_optim=g, is_rank_optim=r) for g in (True, False) for r in (True, False)]


def run_jobs(jobs: list[dict], order_seed: int = 0, nproc: int | None = None, timeout=3000) -> list[dict]:
    """run jobs in `nproc` worker processes started with the given order seed"""
    if not jobs:
        return []
    nproc = min(nproc or (os.cpu_count() or 4), len(jobs))
    chunks = [jobs[i::nproc] for i in range(nproc)]
    env = dict(os.environ, PYTABLEAUX_VERIF='1', PYTABLEAUX_VERIF_ORDER=str(order_seed), PYTHONDONTWRITEBYTECODE='1', PYTHONHASHSEED='0')

    prefix = common.no_aslr_prefix()      # decided once, before the threads start

    def work(chunk):
        p = subprocess.run(prefix + [PY, '-m', 'harness.tabworker'], input='\n'.join(json.dumps(j) for j in chunk) + '\n',
                           capture_output=True, text=True, cwd=str(ROOT), env=env, timeout=timeout)
        outs = [json.loads(l) for l in p.stdout.splitlines() if l.strip()]
        if len(outs) != len(chunk):
            got = {o.get('id') for o in outs}
            for j in chunk:
                if j['id'] not in got:
                    outs.append(dict(id=j['id'], error='worker died', traceback=p.stderr[-2000:], repo=str(common.REPO) in p.stderr))
        return outs

    with ThreadPoolExecutor(nproc) as ex:
        res = [o for outs in ex.map(work, chunks) for o in outs]
    by = {o['id']: o for o in res}
    return [by[j['id']] for j in jobs]


# ---------------------------------------------------------------------------
# argument generators (everything derives from the rng passed in)
# ---------------------------------------------------------------------------

ATOMS = [Atomic(0, 0), Atomic(1, 0), Atomic(2, 0)]
CONSTS = [Constant(0, 0), Constant(1, 0), Constant(2, 0)]
F, G = Predicate(0, 0, 1), Predicate(1, 0, 1)
R2 = Predicate(2, 0, 2)
X, Y = Variable(0, 0), Variable(1, 0)
UN_TF = [Operator.Negation, Operator.Assertion]
BIN = [Operator.Conjunction, Operator.Disjunction, Operator.MaterialConditional, Operator.MaterialBiconditional,
       Operator.Conditional, Operator.Biconditional]
MODAL = [Operator.Possibility, Operator.Necessity]


def rand_sentence(rng, depth, *, modal=False, quant=False, ident=False, bound=()):
    """random sentence; `bound`: variables in scope (only they may occur free)"""
    if depth <= 0 or rng.random() < 0.18:
        if quant and rng.random() < 0.7:
            params = list(bound) * 2 + CONSTS[:2] if bound else CONSTS
            r = rng.random()
            if ident and r < 0.2:
                return Predicate.Identity(rng.choice(params), rng.choice(params))
            if r < 0.75:
                return rng.choice([F, G])(rng.choice(params))
            return R2(rng.choice(params), rng.choice(params))
        return rng.choice(ATOMS)
    r = rng.random()
    if r < 0.25:
        return Operated(rng.choices(UN_TF, [5, 1])[0], (rand_sentence(rng, depth - 1, modal=modal, quant=quant, ident=ident, bound=bound),))
    if modal and r < 0.45:
        return Operated(rng.choice(MODAL), (rand_sentence(rng, depth - 1, modal=modal, quant=quant, ident=ident, bound=bound),))
    if quant and r < (0.62 if modal else 0.5):
        free = [v for v in (X, Y) if v not in bound]
        if free:
            v = free[0]
            # make sure the variable occurs in the body (no vacuous quantifier)
            for _ in range(8):
                body = rand_sentence(rng, depth - 1, modal=modal, quant=quant, ident=ident, bound=(*bound, v))
                if v in body.variables:
                    return Quantified(rng.choice(list(Quantifier)), v, body)
            return Quantified(rng.choice(list(Quantifier)), v, F(v))
    o = rng.choice(BIN)
    return Operated(o, (rand_sentence(rng, depth - 1, modal=modal, quant=quant, ident=ident, bound=bound),
                        rand_sentence(rng, depth - 1, modal=modal, quant=quant, ident=ident, bound=bound)))


def rand_argument(rng, *, modal=False, quant=False, ident=False, depth=3, max_prem=3):
    n = rng.choice([0, 1, 1, 2, 2, 3][:max_prem + 3])
    prem = [rand_sentence(rng, rng.randint(1, depth), modal=modal, quant=quant, ident=ident) for _ in range(n)]
    conc = rand_sentence(rng, rng.randint(1, depth), modal=modal, quant=quant, ident=ident)
    return prem, conc


def dualise(s):
    """the same sentence with every box written as not-diamond-not and every diamond as not-box-not (equivalent in every
    registered logic: the modal operators are each other's duals through the logic's negation) — proofs then run through the
    NEGATED modal rules, which sit in other rule groups and are scored differently"""
    O = Operator
    if isinstance(s, Operated):
        ops = tuple(dualise(x) for x in s.operands)
        if s.operator in (O.Necessity, O.Possibility):
            other = O.Possibility if s.operator is O.Necessity else O.Necessity
            return Operated(O.Negation, (Operated(other, (Operated(O.Negation, ops),)),))
        return Operated(s.operator, ops)
    if isinstance(s, Quantified):
        return Quantified(s.quantifier, s.variable, dualise(s.sentence))
    return s


def schema_argument(rng, *, modal=False, quant=False, ident=False, depth=2, enumerate_atomic=False):
    """An argument built from an inference schema instantiated with random subsentences: premises that INTERACT (so that
    premise order, options and instantiation order can matter) and a good share of valid arguments in most logics —
    valid or not, the checks only compare verdicts of related runs."""
    O = Operator
    def S(d=None):
        return rand_sentence(rng, rng.randint(0, depth) if d is None else d, modal=modal, quant=False, ident=False)
    def neg(x): return Operated(O.Negation, (x,))
    def b2(o, x, y): return Operated(o, (x, y))
    def box(x): return Operated(O.Necessity, (x,))
    def dia(x): return Operated(O.Possibility, (x,))
    A, B, C = (ATOMS[0], ATOMS[1], ATOMS[2]) if enumerate_atomic else (S(), S(), S())
    cond = rng.choice([O.Conditional, O.MaterialConditional])
    props = [
        lambda: ([A, b2(cond, A, B)], B),
        lambda: ([b2(cond, A, B), neg(B)], neg(A)),
        lambda: ([b2(O.Disjunction, A, B), neg(A)], B),
        lambda: ([b2(O.Conjunction, A, B)], b2(O.Conjunction, B, A)),
        lambda: ([b2(cond, A, B), b2(cond, B, C)], b2(cond, A, C)),
        lambda: ([A, neg(A)], B),
        lambda: ([neg(b2(O.Disjunction, A, B))], b2(O.Conjunction, neg(A), neg(B))),
        lambda: ([b2(O.Biconditional, A, B), A], B),
        lambda: ([A, B, C], b2(O.Conjunction, A, b2(O.Conjunction, B, C))),
        lambda: ([b2(O.Disjunction, A, B), b2(cond, A, C), b2(cond, B, C)], C),
    ]
    modals = [
        lambda: ([box(A)], A),
        lambda: ([A], dia(A)),
        lambda: ([A, neg(dia(A))], B),
        lambda: ([box(b2(cond, A, B)), box(A)], box(B)),
        lambda: ([dia(A), box(B)], dia(b2(O.Conjunction, A, B))),
        lambda: ([A, neg(dia(A)), neg(box(b2(O.Disjunction, A, B)))], C),
        lambda: ([box(A)], box(box(A))),
        lambda: ([dia(dia(A))], dia(A)),
        lambda: ([dia(A)], box(dia(A))),
        lambda: ([box(A), dia(B)], dia(b2(O.Conjunction, B, A))),
        lambda: ([neg(box(A))], dia(neg(A))),
    ]
    P1 = rng.choice([F, G]); P2 = rng.choice([F, G]); c = rng.choice(CONSTS); c2 = rng.choice(CONSTS)
    # gluts / gaps of an n-ary literal at a successor world (seed C02-6: the model reader looked the negation of a
    # literal with two constants up at the wrong world)
    d1, d2 = rng.sample(list(CONSTS), 2) if len(CONSTS) > 1 else (CONSTS[0], CONSTS[0])
    Lit = rng.choice([R2(d1, d2), R2(d2, d1), P1(d1), ATOMS[0]])
    modals += [
        lambda: ([dia(b2(O.Conjunction, Lit, neg(Lit)))], B),
        lambda: ([], box(b2(O.Disjunction, Lit, neg(Lit)))),
        lambda: ([dia(dia(b2(O.Conjunction, neg(Lit), Lit)))], dia(B)),
    ]
    U, E = Quantifier.Universal, Quantifier.Existential
    quants = [
        lambda: ([Quantified(U, X, b2(cond, P1(X), R2(X, c))), P1(c)], R2(c, c)),
        lambda: ([Quantified(U, X, P1(X))], P1(c)),
        lambda: ([P1(c)], Quantified(E, X, P1(X))),
        lambda: ([Quantified(U, X, b2(cond, P1(X), P2(X))), P1(c)], P2(c)),
        lambda: ([Quantified(U, X, b2(cond, P1(X), P2(X))), Quantified(E, X, P1(X))], Quantified(E, X, P2(X))),
        lambda: ([Quantified(E, X, b2(O.Conjunction, P1(X), P2(X)))], Quantified(E, X, P1(X))),
        lambda: ([Quantified(U, X, Quantified(U, Y, R2(X, Y)))], R2(c, c2)),
        lambda: ([Quantified(U, X, R2(X, c)), neg(R2(c2, c))], B),
        lambda: ([neg(Quantified(E, X, P1(X)))], neg(P1(c))),
        lambda: ([Quantified(U, X, b2(O.Disjunction, P1(X), A)), neg(A)], P1(c)),
    ]
    # redundancy: premises that OVERLAP, so that what a rule would add is already on the branch when the rule gets there
    # (the 'already there' shortcuts, applied-instance caches and least-applied counters are only exercised by such input)
    # valid for a simple reason, with side premises that keep generating worlds in transitive frames (the proof then lives
    # next to the world limit and its quit-flag path)
    blowup_modal = [
        lambda: ([box(A), box(dia(B)), dia(C)], A),
        lambda: ([A, box(dia(B)), dia(dia(C))], dia(A)),
        lambda: ([box(dia(A)), dia(B), box(C)], dia(C)),
    ]
    # one box-type premise seeing SEVERAL successor worlds at once (two or more diamonds at the same world)
    fanout_modal = [
        lambda: ([box(A), dia(B), dia(C)], dia(b2(O.Conjunction, A, B))),
        lambda: ([box(b2(cond, A, B)), dia(A), dia(C)], dia(B)),
        lambda: ([neg(dia(A)), dia(B), dia(C), dia(neg(B))], neg(box(A))),
    ]
    redundant_modal = [
        lambda: ([box(A), dia(A)], C),
        lambda: ([box(A), dia(b2(O.Conjunction, A, B))], C),
        lambda: ([neg(dia(A)), neg(box(b2(O.Disjunction, A, B)))], C),
        lambda: ([box(A), box(box(A)), dia(B)], C),
        lambda: ([box(A), A, dia(neg(B))], box(B)),
    ]
    # several universal-type premises, later ones mentioning constants the earlier ones have not seen (the per-node
    # bookkeeping of which constants a quantified node still has to be instantiated with)
    multi_quant = [
        lambda: ([Quantified(U, X, P1(X)), Quantified(U, X, b2(cond, P1(c), P2(X)))], P2(c2)),
        lambda: ([Quantified(U, X, R2(X, c)), Quantified(U, X, b2(cond, R2(X, c2), P1(X)))], P1(c)),
        lambda: ([Quantified(U, X, b2(cond, P1(X), P2(X))), Quantified(U, X, b2(cond, P2(X), R2(X, c)))], b2(cond, P1(c2), R2(c2, c))),
        lambda: ([neg(Quantified(E, X, P1(X))), neg(Quantified(E, X, b2(O.Conjunction, P2(X), neg(P1(c)))))], neg(P2(c2))),
        lambda: ([Quantified(U, X, P1(X)), Quantified(E, X, P2(X)), Quantified(U, X, b2(cond, P2(X), R2(X, c)))], Quantified(E, X, R2(X, c))),
    ]
    redundant_quant = [
        lambda: ([Quantified(U, X, P1(X)), P1(c)], B),
        lambda: ([Quantified(U, X, P1(X)), Quantified(E, X, P1(X))], P2(c2)),
        lambda: ([Quantified(U, X, b2(O.Conjunction, P1(X), P2(X))), P1(c), P2(c2)], B),
        lambda: ([neg(Quantified(E, X, P1(X))), neg(P1(c))], B),
    ]
    # identity: Leibniz-style schemata, also with the identity / the predication inside a modal context and with the
    # rewritten predication already present at another world (redundancy)
    Id = Predicate.Identity
    ca, cb, cc = rng.sample(CONSTS, 3) if len(CONSTS) >= 3 else (CONSTS[0], CONSTS[1], CONSTS[0])
    conj = lambda x, y: b2(O.Conjunction, x, y)
    idents = [
        lambda: ([Id(ca, cb), P1(ca)], P1(cb)),
        lambda: ([Id(ca, cb), R2(ca, cc)], R2(cb, cc)),
        lambda: ([Id(ca, cb), Id(cb, cc), P1(ca)], P1(cc)),
        lambda: ([Id(ca, cb), neg(P1(cb))], neg(P1(ca))),
        lambda: ([P1(ca), neg(P1(cb))], neg(Id(ca, cb))),
        lambda: ([Id(ca, cb), P1(ca), neg(P1(cb))], B),
        lambda: ([Id(ca, cb), P1(ca), P1(cb)], P2(cb)),
    ]
    idents_modal = [
        lambda: ([dia(conj(Id(ca, cb), P1(ca)))], dia(P1(cb))),
        lambda: ([box(Id(ca, cb)), dia(P1(ca))], dia(P1(cb))),
        lambda: ([dia(conj(Id(ca, cb), conj(P1(ca), neg(P1(cb)))))], C),
        lambda: ([dia(conj(Id(ca, cb), conj(P1(ca), neg(P1(cb))))), P1(cb)], C),
        lambda: ([box(Id(ca, cb)), dia(conj(P1(ca), neg(P1(cb)))), P1(cb)], C),
        lambda: ([dia(conj(Id(ca, cb), conj(R2(ca, cc), neg(R2(cb, cc))))), R2(cb, cc)], C),
        lambda: ([Id(ca, cb), dia(P1(ca))], dia(P1(cb))),
    ]
    pool = list(props) + [lambda: ([b2(O.Conjunction, A, B), A], C), lambda: ([neg(b2(O.Disjunction, A, B)), neg(B)], C)]
    if ident:
        pool = pool[:6] + idents * 2 + (idents_modal * 3 if modal else [])
    if modal:
        pool += modals * 2 + redundant_modal * 2 + blowup_modal * 2 + fanout_modal * 2
    if quant:
        pool += redundant_quant + multi_quant * 2
    if quant:
        pool += quants * 2
    if modal and quant:
        pool += [lambda: ([box(Quantified(U, X, P1(X)))], box(P1(c))), lambda: ([Quantified(U, X, box(P1(X)))], box(P1(c))),
                 lambda: ([dia(P1(c))], dia(Quantified(E, X, P1(X))))]
    if enumerate_atomic:
        # every distinct schema once, instantiated with sentence letters
        seen, out = set(), []
        for mk in pool:
            if id(mk) not in seen:
                seen.add(id(mk))
                out.append(mk())
        return out
    prem, conc = rng.choice(pool)()
    if rng.random() < 0.3:
        prem = prem + [S()]
    if rng.random() < 0.5:
        rng.shuffle(prem)
    if modal and rng.random() < 0.25:
        prem, conc = [dualise(x) for x in prem], dualise(conc)
    return prem, conc


def all_schemata(rng, *, modal=False, quant=False, ident=False):
    """every inference schema of `schema_argument` once, instantiated with sentence letters (a list of (premises, conclusion))"""
    return schema_argument(rng, modal=modal, quant=quant, ident=ident, enumerate_atomic=True)


def job_for(idx, logic, prem, conc, opts=None, **kw):
    return dict(id=idx, logic=logic, premises=[wire.enc_sent(p) for p in prem], conclusion=wire.enc_sent(conc),
                opts=opts or {}, **kw)


def arg_text(job):
    """human-readable polish-ish rendering for replays"""
    from pytableaux.lang import LexWriter
    lw = LexWriter('polish')
    return dict(logic=job['logic'], premises=[lw(wire.dec_sent(s)) for s in job['premises']],
                conclusion=lw(wire.dec_sent(job['conclusion'])), opts=job.get('opts'))
