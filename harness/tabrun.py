"""
Client side of the whole-proof correspondence: generate arguments, run them in worker processes
(one pool per tie-break order seed), replay the histories through the Lean driver, compare.
"""
from __future__ import annotations

import json
import os
import subprocess
import sys
from concurrent.futures import ThreadPoolExecutor

from . import common, wire
from .common import PY, ROOT

from pytableaux.lang import (Atomic, Constant, Operated, Operator, Predicate, Predicated,
                             Quantified, Quantifier, Variable)

OPTS = [dict(is_group_optim=g, is_rank_optim=r) for g in (True, False) for r in (True, False)]


def run_jobs(jobs: list[dict], order_seed: int = 0, nproc: int | None = None, timeout=3000) -> list[dict]:
    """run jobs in `nproc` worker processes started with the given order seed"""
    if not jobs:
        return []
    nproc = min(nproc or (os.cpu_count() or 4), len(jobs))
    chunks = [jobs[i::nproc] for i in range(nproc)]
    env = dict(os.environ, PYTABLEAUX_VERIF='1', PYTABLEAUX_VERIF_ORDER=str(order_seed), PYTHONDONTWRITEBYTECODE='1', PYTHONHASHSEED='0')

    prefix = common.no_aslr_prefix()      # decided once, before the threads start

    def work(chunk):
        p = subprocess.run(prefix + [PY, '-m', 'harness.tabworker'], input='\n'.join(json.dumps(j) for j in chunk) + '\n',
                           capture_output=True, text=True, cwd=str(ROOT), env=env, timeout=timeout)
        outs = [json.loads(l) for l in p.stdout.splitlines() if l.strip()]
        if len(outs) != len(chunk):
            got = {o.get('id') for o in outs}
            for j in chunk:
                if j['id'] not in got:
                    outs.append(dict(id=j['id'], error='worker died', traceback=p.stderr[-2000:], repo=str(common.REPO) in p.stderr))
        return outs

    with ThreadPoolExecutor(nproc) as ex:
        res = [o for outs in ex.map(work, chunks) for o in outs]
    by = {o['id']: o for o in res}
    return [by[j['id']] for j in jobs]


# ---------------------------------------------------------------------------
# argument generators (everything derives from the rng passed in)
# ---------------------------------------------------------------------------

ATOMS = [Atomic(0, 0), Atomic(1, 0), Atomic(2, 0)]
CONSTS = [Constant(0, 0), Constant(1, 0), Constant(2, 0)]
F, G = Predicate(0, 0, 1), Predicate(1, 0, 1)
R2 = Predicate(2, 0, 2)
X, Y = Variable(0, 0), Variable(1, 0)
UN_TF = [Operator.Negation, Operator.Assertion]
BIN = [Operator.Conjunction, Operator.Disjunction, Operator.MaterialConditional, Operator.MaterialBiconditional,
       Operator.Conditional, Operator.Biconditional]
MODAL = [Operator.Possibility, Operator.Necessity]


def rand_sentence(rng, depth, *, modal=False, quant=False, ident=False, bound=()):
    """random sentence; `bound`: variables in scope (only they may occur free)"""
    if depth <= 0 or rng.random() < 0.18:
        if quant and rng.random() < 0.7:
            params = list(bound) * 2 + CONSTS[:2] if bound else CONSTS
            r = rng.random()
            if ident and r < 0.2:
                return Predicate.Identity(rng.choice(params), rng.choice(params))
            if r < 0.75:
                return rng.choice([F, G])(rng.choice(params))
            return R2(rng.choice(params), rng.choice(params))
        return rng.choice(ATOMS)
    r = rng.random()
    if r < 0.25:
        return Operated(rng.choices(UN_TF, [5, 1])[0], (rand_sentence(rng, depth - 1, modal=modal, quant=quant, ident=ident, bound=bound),))
    if modal and r < 0.45:
        return Operated(rng.choice(MODAL), (rand_sentence(rng, depth - 1, modal=modal, quant=quant, ident=ident, bound=bound),))
    if quant and r < (0.62 if modal else 0.5):
        free = [v for v in (X, Y) if v not in bound]
        if free:
            v = free[0]
            # make sure the variable occurs in the body (no vacuous quantifier)
            for _ in range(8):
                body = rand_sentence(rng, depth - 1, modal=modal, quant=quant, ident=ident, bound=(*bound, v))
                if v in body.variables:
                    return Quantified(rng.choice(list(Quantifier)), v, body)
            return Quantified(rng.choice(list(Quantifier)), v, F(v))
    o = rng.choice(BIN)
    return Operated(o, (rand_sentence(rng, depth - 1, modal=modal, quant=quant, ident=ident, bound=bound),
                        rand_sentence(rng, depth - 1, modal=modal, quant=quant, ident=ident, bound=bound)))


def rand_argument(rng, *, modal=False, quant=False, ident=False, depth=3, max_prem=3):
    n = rng.choice([0, 1, 1, 2, 2, 3][:max_prem + 3])
    prem = [rand_sentence(rng, rng.randint(1, depth), modal=modal, quant=quant, ident=ident) for _ in range(n)]
    conc = rand_sentence(rng, rng.randint(1, depth), modal=modal, quant=quant, ident=ident)
    return prem, conc


def job_for(idx, logic, prem, conc, opts=None, **kw):
    return dict(id=idx, logic=logic, premises=[wire.enc_sent(p) for p in prem], conclusion=wire.enc_sent(conc),
                opts=opts or {}, **kw)


def arg_text(job):
    """human-readable polish-ish rendering for replays"""
    from pytableaux.lang import LexWriter
    lw = LexWriter('polish')
    return dict(logic=job['logic'], premises=[lw(wire.dec_sent(s)) for s in job['premises']],
                conclusion=lw(wire.dec_sent(job['conclusion'])), opts=job.get('opts'))
