"""
Token encoding shared with lean/Ptx/Wire.lean.  Sentences are encoded by walking the
Python objects (never via pytableaux's own writers/parsers).
"""
from __future__ import annotations

from . import common  # noqa: F401  (sets sys.path / guard)

from pytableaux.lang import (Atomic, Constant, Operated, Operator, Predicate,
                             Predicated, Quantified, Quantifier, Variable)

OP1 = {Operator.Assertion: 'A', Operator.Negation: 'N', Operator.Possibility: 'M', Operator.Necessity: 'L'}
OP2 = {Operator.Conjunction: 'K', Operator.Disjunction: 'D', Operator.MaterialConditional: 'C',
       Operator.MaterialBiconditional: 'E', Operator.Conditional: 'I', Operator.Biconditional: 'B'}
OP1R = {v: k for k, v in OP1.items()}
OP2R = {v: k for k, v in OP2.items()}
QT = {Quantifier.Existential: 'E', Quantifier.Universal: 'U'}
QTR = {v: k for k, v in QT.items()}


def enc_param(p) -> str:
    if type(p) is Constant:
        return f'c {p.index} {p.subscript}'
    if type(p) is Variable:
        return f'v {p.index} {p.subscript}'
    raise TypeError(p)


def enc_sent(s) -> str:
    t = type(s)
    if t is Atomic:
        return f'a {s.index} {s.subscript}'
    if t is Predicated:
        p = s.predicate
        return ' '.join([f'p {p.index} {p.subscript} {p.arity} {len(s.params)}', *map(enc_param, s.params)])
    if t is Quantified:
        return f'q {QT[s.quantifier]} {s.variable.index} {s.variable.subscript} {enc_sent(s.sentence)}'
    if t is Operated:
        o = s.operator
        if o in OP1:
            return f'u {OP1[o]} {enc_sent(s.lhs)}'
        return f'b {OP2[o]} {enc_sent(s.lhs)} {enc_sent(s.rhs)}'
    raise TypeError(s)


def dec_param(ts: list[str]):
    k, i, s = ts[0], int(ts[1]), int(ts[2])
    del ts[:3]
    return Constant(i, s) if k == 'c' else Variable(i, s)


def dec_sent_toks(ts: list[str]):
    k = ts.pop(0)
    if k == 'a':
        i, s = int(ts.pop(0)), int(ts.pop(0))
        return Atomic(i, s)
    if k == 'p':
        i, s, ar, n = (int(ts.pop(0)) for _ in range(4))
        params = tuple(dec_param(ts) for _ in range(n))
        pred = Predicate.Identity if i == -1 else Predicate.Existence if i == -2 else Predicate(i, s, ar)
        return Predicated(pred, params)
    if k == 'q':
        q = QTR[ts.pop(0)]
        vi, vs = int(ts.pop(0)), int(ts.pop(0))
        return Quantified(q, Variable(vi, vs), dec_sent_toks(ts))
    if k == 'u':
        o = OP1R[ts.pop(0)]
        return Operated(o, (dec_sent_toks(ts),))
    if k == 'b':
        o = OP2R[ts.pop(0)]
        a = dec_sent_toks(ts)
        b = dec_sent_toks(ts)
        return Operated(o, (a, b))
    raise ValueError(k)


def dec_sent(text: str):
    ts = text.split()
    s = dec_sent_toks(ts)
    if ts:
        raise ValueError(f'trailing tokens {ts}')
    return s


def enc_node(n) -> str:
    """n <sent> d(+|-|_) w(<int>|_)  |  r w1 w2  |  f <name>  |  e"""
    from pytableaux.proof import AccessNode, EllipsisNode, FlagNode, SentenceNode
    if isinstance(n, AccessNode):
        return f'r {n["world1"]} {n["world2"]}'
    if isinstance(n, FlagNode):
        return f'f {n["flag"]}'
    if isinstance(n, SentenceNode):
        d = n.get('designated')
        w = n.get('world')
        return 'n ' + enc_sent(n['sentence']) + ' ' + ('_' if d is None else '+' if d else '-') + ' ' + ('_' if w is None else str(w))
    if isinstance(n, EllipsisNode) or n.get('ellipsis'):
        return 'e'
    raise TypeError(n)
