"""
Shared machinery of the properties decided by per-logic instance obligations (C01, C03, C04,
C05, C07, C11): regenerate Ptx/Gen from /repo, run the precheck report (the same Lean functions
the kernel evaluates, printing every failing row with its witness), build the obligations,
audit axioms, and offer the documented tables to the failing-input searches.
"""
from __future__ import annotations

import json
import re
from functools import lru_cache

from . import common
from .common import LEAN, Ctx, InfraError, run, lake_build, audit_axioms, scan_forbidden, module_closure, STD_AXIOMS

_state: dict = {}


def regenerate(ctx: Ctx | None = None) -> dict:
    """extract + write Ptx/Gen (once per process)"""
    if 'data' not in _state:
        from .extract import gen
        data, changed = gen.regenerate()
        _state['data'] = data
        _state['changed'] = changed
    return _state['data']


def cache_off_diff() -> list[tuple[str, str, str]]:
    """The whole extraction (tables, rule rows, closure / read tables, identity closers, trunk, frame rules of every logic) is
    repeated in a fresh process with ITEM_CACHE_SIZE=0 — every lexical item is then built anew on each construction, so
    equal items are no longer the same object — and compared with the default extraction.  Returns the differing
    (logic, field, detail).  Code that decides anything by object identity of sentences / parameters shows up here."""
    if 'cache_off' not in _state:
        import os, subprocess, tempfile
        data = regenerate()
        with tempfile.NamedTemporaryFile('r', suffix='.json', delete=False) as tf:
            out = tf.name
        code = ("import json,sys;sys.path.insert(0,%r);from harness.extract import gen;"
                "json.dump(gen.extract_all(),open(sys.argv[1],'w'),default=str)" % str(common.ROOT))
        p = subprocess.run([common.PY, '-c', code, out], capture_output=True, text=True, cwd=str(common.ROOT), timeout=1800,
                           env=dict(os.environ, ITEM_CACHE_SIZE='0', PYTABLEAUX_VERIF='1'))
        diff = []
        try:
            if p.returncode != 0:
                raise common.InfraError('cache-off extraction failed: ' + p.stderr[-800:])
            off = json.loads(open(out).read())
            norm = lambda x: json.dumps(json.loads(json.dumps(x, default=str)), sort_keys=True)
            for n in sorted(data):
                if n not in off:
                    diff.append((n, 'missing', 'logic not extracted with the cache off'))
                    continue
                for k in sorted(data[n]):
                    if norm(data[n][k]) != norm(off[n].get(k)):
                        diff.append((n, k, f'default: {norm(data[n][k])[:300]} | cache off: {norm(off[n].get(k))[:300]}'))
        finally:
            try:
                os.unlink(out)
            except OSError:
                pass
        _state['cache_off'] = diff
    return _state['cache_off']


def report_lines() -> list[list[str]]:
    """precheck: every failing row, computed by the Lean definitions the obligations evaluate"""
    if 'report' not in _state:
        regenerate()
        with common.build_lock():
            b = run(['lake', 'build', 'Ptx.Gen.All'], cwd=LEAN, timeout=1800)
        if b.returncode != 0:
            _state['report'] = None
            _state['report_err'] = (b.stdout + b.stderr)[-3000:]
            return None
        p = run(['lake', 'env', 'lean', '--run', 'Ptx/Gen/Report.lean'], cwd=LEAN, timeout=900)
        if p.returncode != 0 or not p.stdout.strip().endswith(tuple(f'done {i}' for i in range(0, 200))):
            _state['report'] = None
            _state['report_err'] = (p.stdout + p.stderr)[-3000:]
            return None
        _state['report'] = [ln.split() for ln in p.stdout.splitlines() if ln.strip()]
    return _state['report']


@lru_cache(maxsize=1)
def spec_tables() -> dict:
    """documented tables (Ptx/Sem/Spec.lean), for evaluating witnesses in Python.
    Cached in lean/.audit/spec_tables.json, keyed by the content of Spec.lean + Logic.lean."""
    import hashlib
    h = hashlib.sha256()
    for f in ('Ptx/Sem/Spec.lean', 'Ptx/Sem/Logic.lean', 'Ptx/Sem/SpecDump.lean'):
        h.update((LEAN / f).read_bytes())
    cache = LEAN / '.audit' / 'spec_tables.json'
    if cache.exists():
        try:
            blob = json.loads(cache.read_text())
            if blob.get('key') == h.hexdigest():
                return _spec_from_rows(blob['rows'])
        except Exception:  # noqa
            pass
    with common.build_lock():
        run(['lake', 'build', 'Ptx.Sem.Spec'], cwd=LEAN, timeout=900)
        p = run(['lake', 'env', 'lean', '--run', 'Ptx/Sem/SpecDump.lean'], cwd=LEAN, timeout=600)
    if p.returncode != 0:
        raise InfraError('SpecDump failed: ' + (p.stdout + p.stderr)[-2000:])
    rows = [ln.split() for ln in p.stdout.splitlines() if ln.strip()]
    cache.parent.mkdir(exist_ok=True)
    cache.write_text(json.dumps(dict(key=h.hexdigest(), rows=rows)))
    return _spec_from_rows(rows)


def _spec_from_rows(rows) -> dict:
    out: dict = {}
    for t in rows:
        k, n = t[0], t[1]
        d = out.setdefault(n, dict(vals='', des='', t1={}, t2={}, qf={}, mf={}))
        if k in ('vals', 'des'):
            d[k] = t[2] if len(t) > 2 else ''
        elif k == 't1':
            d['t1'][(t[2], t[3])] = t[4]
        elif k == 't2':
            d['t2'][(t[2], t[3][0], t[3][1])] = t[4]
        elif k == 'qf':
            d['qf'][(t[2], t[3])] = t[4]
        elif k == 'mf':
            d['mf'][(t[2], t[3][1:])] = t[4]
    return out


def obligations(ctx: Ctx, names: list[str], extra_modules: list[str] = ()) -> common.LeanResult:
    """Build all per-logic obligation modules (+ extra modules) and audit the theorems called
    `names` in every Ptx.Gen.Obl.<LOGIC> namespace plus all theorems of the extra modules.
    Failing obligations are returned in `.failed` as (logic, theorem)."""
    data = regenerate()
    logics = sorted(n for n, d in data.items() if 'fatal' not in d)
    res = lake_build(['Ptx.Gen.Obl', *extra_modules, 'ptxdrv'])
    thms = [f'Ptx.Gen.Obl.{lg}.{nm}' for lg in logics for nm in names]
    extra_thms = [t for m in extra_modules for t in common.theorem_names(m)]
    ctx.coverage['obligations'] += len(thms) + len(extra_thms)
    ctx.coverage['checker_cmd'] = ('cd lean && lake build Ptx.Gen.Obl ' + ' '.join(extra_modules) +
                                   f' && lake env lean .audit/Audit_{ctx.prop}.lean   # decide +kernel per logic, #print axioms')
    tb = ctx.coverage['trusted_base']
    for t in ('Lean 4.33.0 kernel (decide +kernel = kernel evaluation, no native code)',
              'axioms ⊆ {propext, Classical.choice, Quot.sound} (audited by #print axioms each run)',
              'translator harness/extract (probe.py, gen.py): rule templates abstracted from real Tableau runs on probe arguments; '
              'assumes rules are uniform in their operands (validated by whole-proof replay in C01)',
              'documented tables Ptx/Sem/Spec.lean (hand-transcribed oracle)'):
        if t not in tb:
            tb.append(t)
    failed: list[tuple[str, str]] = []
    for f, name in res.failed_decls():
        m = re.match(r'Ptx/Gen/Obl_(\w+)\.lean', f)
        if m:
            failed.append((m.group(1), name))
        else:
            failed.append((f, name))
    res.failed = failed
    # which obligation modules built?
    bad_logics = {lg for lg, _ in failed}
    mods = [f'Ptx.Gen.Obl_{lg}' for lg in logics if lg not in bad_logics]
    ok_thms = [t for t in thms if t.split('.')[3] not in bad_logics]
    # an extra module is audited only if nothing it (transitively) imports failed to build
    failed_mods = {f[:-5].replace('/', '.') for f, _, _ in res.errors if f.endswith('.lean')}
    for m in extra_modules:
        clo = set(module_closure([m]))
        if clo & failed_mods:
            ctx.notes.append(f'{m} not audited: it depends on modules that no longer build ({sorted(clo & failed_mods)[:4]})')
            continue
        mods.append(m)
        ok_thms += common.theorem_names(m)
    # every module whose source could hide a sorry/axiom
    hits = scan_forbidden(module_closure(list(extra_modules) + ['Ptx.Props.C01', 'Ptx.Sem.Spec', 'Ptx.Sem.Sem']))
    for h in hits:
        ctx.fail(f'{ctx.prop}:lean:forbidden:{h.split(":")[0]}', f'forbidden construct: {h}', dict(theorem=h), found_input=False)
    ax = audit_axioms(mods, ok_thms, ctx.prop) if ok_thms else {}
    good = 0
    for t in ok_thms:
        a = ax.get(t)
        if a is None:
            ctx.fail(f'{ctx.prop}:lean:missing:{t}', f'theorem {t} not found by the axiom audit', dict(theorem=t), found_input=False)
        elif set(a) - STD_AXIOMS:
            ctx.fail(f'{ctx.prop}:lean:axioms:{t}', f'{t} depends on non-standard axioms {a}', dict(theorem=t, axioms=a), found_input=False)
        else:
            good += 1
    ctx.coverage['discharged'] += good
    ctx.coverage['axioms_seen'] = sorted({x for v in ax.values() for x in v})
    ctx.coverage['logics'] = len(logics)
    if ctx.thorough and res.ok:
        p = run(['lake', 'env', 'leanchecker', *[f'Ptx.Gen.Obl_{lg}' for lg in logics[:8]], *extra_modules], cwd=LEAN, timeout=3000)
        ctx.coverage['leanchecker'] = 'ok' if p.returncode == 0 else (p.stdout + p.stderr)[-400:]
    return res


def extraction_issues(data: dict) -> list[tuple[str, str]]:
    out = []
    for n, d in sorted(data.items()):
        if 'fatal' in d:
            out.append((n, 'FATAL ' + d['fatal']))
        for i in d.get('issues', []):
            out.append((n, i))
    return out


# ---------------------------------------------------------------------------
# a small evaluator over the documented tables (for confirming witnesses in Python)
# ---------------------------------------------------------------------------

OPN1 = {'Assertion': 'Assertion', 'Negation': 'Negation'}


class SpecEval:
    def __init__(self, logic_name: str):
        self.T = spec_tables()[logic_name]
        self.vals = self.T['vals']
        self.des = self.T['des']

    def f(self, oper_name: str, *args: str) -> str:
        if len(args) == 1:
            return self.T['t1'][(oper_name, args[0])]
        return self.T['t2'][(oper_name, args[0], args[1])]

    def canon(self, P) -> str:
        return ''.join(v for v in self.vals if v in P)

    def qfold(self, qname: str, P) -> str:
        return self.T['qf'][(qname, self.canon(P))]

    def mfold(self, oname: str, P) -> str:
        return self.T['mf'][(oname, self.canon(P))]

    def sat(self, d, v: str) -> bool:
        return (v not in self.des) if d is False else (v in self.des)

    def value(self, s, atom_vals: dict) -> str:
        """value of a quantifier-free, modality-free sentence under an assignment to its atoms"""
        from pytableaux.lang import Atomic, Operated
        if type(s) is Atomic or s in atom_vals:
            return atom_vals[s]
        if type(s) is Operated:
            return self.f(s.operator.name, *(self.value(x, atom_vals) for x in s))
        raise TypeError(s)


# ---------------------------------------------------------------------------
# generic decision over report rows + failed obligations
# ---------------------------------------------------------------------------

def decide_rows(ctx: Ctx, cats: dict, thm_names: list[str], extra_modules: list[str] = ()):
    """`cats`: report category -> handler(ctx, logic, row_tokens) -> (key, what, replay, found_input).
    Every report row of those categories goes through its handler and `ctx.fail` (known findings
    are recognised there).  A failed obligation with no report row behind it is reported with
    no-failing-input-found."""
    data = regenerate()
    for lg, issue in extraction_issues(data):
        h = cats.get('__issue__')
        if h:
            r = h(ctx, lg, issue)
            if r:
                ctx.fail(*r[:3], found_input=r[3])
    rep = report_lines()
    res = obligations(ctx, thm_names, extra_modules)
    seen = set()
    if rep is None:
        ctx.fail(f'{ctx.prop}:gen:report-broken', 'the generated model does not build / the precheck report cannot run',
                 dict(theorem='Ptx.Gen.All', log=_state.get('report_err', '')), found_input=False)
    else:
        for row in rep:
            cat = row[0]
            if cat in cats and len(row) >= 2:
                seen.add((cat, row[1]))
                r = cats[cat](ctx, row[1], row[2:])
                if r:
                    ctx.fail(*r[:3], found_input=r[3])
    for lg, thm in getattr(res, 'failed', []):
        if thm in thm_names and (thm, lg) not in seen:
            # the obligation is broken although the precheck saw no failing row of that category
            if not any(c == thm for c, l in seen if l == lg):
                ctx.fail(f'{ctx.prop}:obligation:{lg}:{thm}', f'obligation Ptx.Gen.Obl.{lg}.{thm} no longer checks',
                         dict(theorem=f'Ptx.Gen.Obl.{lg}.{thm}', log=res.log[-2500:]), found_input=False)
        elif thm not in thm_names and not lg.isupper():
            ctx.fail(f'{ctx.prop}:lean:{lg}:{thm}', f'{lg}: {thm} does not build', dict(theorem=f'{lg}:{thm}', log=res.log[-2500:]),
                     found_input=False)
    return res
