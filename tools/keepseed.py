#!/usr/bin/env python3
"""tools/keepseed.py <src-dir> <seed-name> <caught-by: e.g. 'C13 quick: exit 1, key C13:output-not-wf:*'> [note]
Copies patch.diff / demo.py / meta.json of a confirmed seeded change into /verif/seeded/<seed-name>/ and records what was run."""
import json, pathlib, shutil, sys
src, name, caught = pathlib.Path(sys.argv[1]), sys.argv[2], sys.argv[3]
note = sys.argv[4] if len(sys.argv) > 4 else ''
dst = pathlib.Path('/verif/seeded') / name
dst.mkdir(parents=True, exist_ok=True)
for f in ('patch.diff', 'demo.py'):
    if (src / f).exists():
        shutil.copy(src / f, dst / f)
meta = json.loads((src / 'meta.json').read_text()) if (src / 'meta.json').exists() else {}
meta['breaks_property'] = meta.get('property', name.split('-')[0])
meta['confirmed_by_integrator'] = ('applied patch.diff to a scratch worktree of /repo at the pinned HEAD; demo.py exits 0 on the clean tree '
                                   'and 1 with the patch; existing test suite re-run with the patch (tools/baseline.sh <worktree>): all '
                                   'baseline stable_pass tests still pass')
meta['checks_run'] = caught
if note:
    meta['note'] = note
(dst / 'meta.json').write_text(json.dumps(meta, indent=1) + '\n')
print('kept', dst)
