#!/usr/bin/env python3
"""
Rebuilds known_findings.json (committed; never written by a check at run time) from the
table of genuine defects below.  Run by hand after a finding is added or repaired.
Entries: property, key (fnmatch pattern on the failing item's canonical key), what, status
("known" | "fixed"), optional `lean` rows feeding Ptx/Gen/Known.lean.
"""
import json, pathlib, sys
ROOT = pathlib.Path(__file__).resolve().parents[1]
gen = json.loads((ROOT / 'lean/Ptx/Gen/gen.json').read_text())

def lkey(k):
    (kind, sym), ng, d = k
    ds = 'none' if d is None else f'(some {str(bool(d)).lower()})'
    return f'⟨(.{kind} .{sym}), {str(bool(ng)).lower()}, {ds}⟩'

def rule_key(logic, name):
    for k, r in gen[logic]['rules']:
        if r['name'] == name:
            return lkey(k)
    raise KeyError((logic, name))

F = []
FAM_B3E = ['B3E', 'KB3E', 'TB3E', 'S4B3E', 'S5B3E']
FAM_FDE = ['FDE', 'KFDE', 'TFDE', 'S4FDE', 'S5FDE']

# (b) Bochvar family: the external biconditional rules do not branch
for rn in ('BiconditionalUndesignated', 'BiconditionalNegatedDesignated'):
    lean = []
    for lg in FAM_B3E:
        lean += [dict(set='badRules', logic=lg, key=rule_key(lg, rn)), dict(set='unsoundRules', logic=lg, key=rule_key(lg, rn))]
    F.append(dict(property='C04', key=f'C04:rules_exact:*B3E:{rn}:FT|NT|TF|TN', status='known', lean=lean,
        what=f'{rn} in the Bochvar family adds both conditionals on ONE branch although A<->B fails as soon as one of them does; '
             'unsound at operand values (F,T),(N,T),(T,F),(T,N). Not repairable: test_*b3e pin "Biconditional Elimination 3" and '
             '"Conditional Pseudo Contraposition" as valid.'))
# (m) FDE family: material biconditional / biconditional rules lack the two glut branches
for rn in ('MaterialBiconditionalDesignated', 'MaterialBiconditionalNegatedUndesignated', 'BiconditionalDesignated', 'BiconditionalNegatedUndesignated'):
    lean = []
    for lg in FAM_FDE:
        lean += [dict(set='badRules', logic=lg, key=rule_key(lg, rn)), dict(set='unsoundRules', logic=lg, key=rule_key(lg, rn))]
    F.append(dict(property='C04', key=f'C04:rules_exact:*FDE:{rn}:NB|BN', status='known', lean=lean,
        what=f'{rn} in the FDE family has the branches {{~A,~B}} and {{A,B}} only; with A gappy and B glutty (or v.v.) the node is '
             'satisfied ((~A v B) and (~B v A) both hold through B / ~B) but neither branch is. FDE proves A<>B |- (~A&~B)v(A&B), '
             'which the library\'s own model A=N,B=B refutes. Not repairable: test_*::test_branching_groups_auto and '
             'test_known_branchable_values pin the two-branch shape for every logic inheriting the rule.'))
for fam, pat, rules in (('Bochvar', '*B3E', 'Biconditional*'), ('FDE', '*FDE', '*Biconditional*')):
    F.append(dict(property='C01', key=f'C01:unsound-rule:{pat}:{rules}', status='known',
        what=f'{fam} family: closed tableaux that use the inexact biconditional rules (see the C04 findings) can be refuted by a countermodel, '
             'e.g. B3E |- A<->B, KB3E ~(A<->B), A |- ~B, FDE A<>B |- (~A&~B)v(A&B)'))
for fam, pat in (('Bochvar', '*B3E'), ('FDE', '*FDE')):
    F.append(dict(property='C03', key=f'C03:valid-not-tt:{pat}:*Biconditional*', status='known',
        what=f'{fam} family: propositional arguments whose closed tableau uses the inexact biconditional rules (C04 findings) are reported valid '
             'although a truth-table assignment refutes them'))
    F.append(dict(property='C11', key=f'C11:extension:{pat}->*:*Biconditional*', status='known',
        what=f'{fam} family: arguments "valid" only through the inexact biconditional rules are refuted in the declared stronger logics'))
# (d) FDE family: conjunction / disjunction along the chain F<N<B<T
ROWS = [('Conjunction', 'NB'), ('Conjunction', 'BN'), ('Disjunction', 'NB'), ('Disjunction', 'BN'),
        ('MaterialConditional', 'NB'), ('MaterialConditional', 'BN'), ('MaterialBiconditional', 'NB'), ('MaterialBiconditional', 'BN'),
        ('Conditional', 'NB'), ('Conditional', 'BN'), ('Biconditional', 'NB'), ('Biconditional', 'BN'),
        ('Existential', 'NB'), ('Existential', 'FNB'), ('Universal', 'NB'), ('Universal', 'NBT')]
MROWS = [('Possibility', 'NB'), ('Possibility', 'FNB'), ('Necessity', 'NB'), ('Necessity', 'NBT')]
for op, row in ROWS + MROWS:
    lgs = FAM_FDE if (op, row) in ROWS else FAM_FDE[1:]
    lean = [dict(set='tableDiff', logic=lg, key='(' + json.dumps(op) + ', [' + ', '.join('.' + c for c in row) + '])') for lg in lgs]
    F.append(dict(property='C07', key=f'C07:tables_spec:*FDE:{op}:{row}', status='known', lean=lean,
        what=f'FDE family computes {op} on {row} by min/max along the chain F<N<B<T (N and B are incomparable in the Belnap-Dunn '
             'lattice: N&B=F, NvB=T). Pinned as strings in test/logics/test_fde.py, so not repairable.'))

# repaired defects (suppress nothing; recorded for the history)
FIXED = [
    ('C06', 'c02e76b', 'Branch.append left the fresh-constant counter on a constant already present (~Fb, Ga, ExFx |- A provable in CFOL)'),
    ('C09', 'a127bb1', 'PossibilityDesignated.group_score compared None > 0 with is_rank_optim=False, is_group_optim=True (TypeError)'),
    ('C04', 'c3d3621', 'IdentityIndiscernability substituted across worlds (K proved a=b, MFa |- Fb)'),
    ('C16', '58653a3', 'Tree._build_branches assigned instead of accumulating descendant_node_count'),
    ('C13', 'c1123bc', "Parser('polish')('a' + '1'*4301) raised ValueError, Parser('polish')('N'*136) raised RecursionError instead of ParseError"),
    ('C14', '7a39e5b', 'LexicalAbc(ident) / Predicated(*spec) of a sentence with Identity or Existence raised ValueError (always from ident; after cache eviction from spec)'),
    ('C14', '59f28ed', 'ITEM_CACHE_SIZE=0: import pytableaux.lang raised IndexError (pop from an empty deque)'),
    ('C14', 'b5f438d', 'setattr on Operator / Quantifier members was accepted'),
    ('C18', 'cbd6d8a', 'linqset: append 0; l[0]=1 (or l[0:1]=[1]) left the hash table stale'),
    ('C18', '5e75039', 'qset / Predicates: extend [0,1]; q[0:2]=[0,0] created duplicates'),
    ('C18', 'c1ba8ab', 'linqset: extend [0,1]; l[0:2]=[0,0] created duplicates'),
    ('C18', '9115501', 'Predicates: P=[(0,0,2),(1,0,1)]; P[0:2]=[(0,0,1),(0,0,2)] left two arities of one symbol'),
    ('C09', 'dbd8fcd', 'Serial._should_apply refused to fire after its own application on the same branch, starving a second world without successor: D, Mc, MKLaLNa |- d was reported invalid (model not a countermodel) while MKLaLNa, Mc |- d is valid (premise order changes the verdict)'),
    ('C02', '504e4b3', 'Reflexive._get_node_targets released a node once ONE of its worlds had its loop; the other world could stay without reflexive access on a completed, unflagged branch: S4G3 MMa |- NMb (is_group_optim=False, is_rank_optim=False, tie-break seed 2) lacks 1R1'),
    ('C03', '2a8d047', 'Serial._last_serial_world read the last history entry of the whole TABLEAU instead of the last rule applied to the branch: with two or more open branches the branches take turns and every branch gets new worlds until MaxWorlds silently stops the rule — D, Aab |- c (purely propositional) ends over the world limit with worlds 0,1,2 on both branches (key C03:limit:D:world-limit)'),
    ('C02', '95f987f', 'NecessityDesignated-type rules starved nodes behind a never-applicable least-applied node (NodeCount.isleast): completed tableaux with box-type instances missing at an accessible world, e.g. S5L3 BELcNcTLa, ABacEbc |- MMc (undesignated MMc at w0 never yields Mc at accessible world 2); TK3WQ c, KaBMaLa, Aba |- NMEcc'),
]
# genuine defects kept as findings (no small safe repair)
# (k2) access rules stop at the world limit without emitting a quit flag
F.append(dict(property='C02', key='C02:unsaturated:*:frame-*:world-limit-without-flag', status='known',
    what='AccessNodeRule._get_targets (Reflexive / Symmetric / Transitive) releases its nodes when MaxWorlds is exceeded but, unlike the modal operator '
         'rules, adds no quit flag: the branch is cut short by the world limit yet carries no limit flag, and its frame closure is incomplete, e.g. '
         'TB3E UbEac, ELcLb |- KbUAcbAca (worlds 3 and 4 get no reflexive loop), S5K3W Abb, EMaMc |- Lc. Emitting the flag there (as '
         'ModalOperatorRule._check_maxworlds does) breaks 41 pinned tests (test_invalid_nested_diamond_within_box1_auto etc.), so it is not repaired.'))
# (k4) FDE family: the evaluator deviates from the rules on N/B conjunction / disjunction (see the C07 findings)
F.append(dict(property='C02', key='C02:node-unsatisfied:*FDE:saturated', status='known',
    what='FDE family: ValueFDE orders F<N<B<T and evaluates conjunction / disjunction by min / max, so N&B = N and NvB = B (C07 findings), while the '
         'rules follow the documented tables; on a saturated open branch the library model then gives some compound node the wrong value, e.g. KFDE '
         'b, CECabbKKbba |- BUAcbMcCCccc; S4FDE AUbca, Uab, Ubc |- CCbcEac (node value B on an undesignated node). Pinned by test_fde.py.'))
# (n) K3WQ declares extension_of K3W, but its quantifiers are the generalised WEAK disjunction / conjunction
for row in ('Existential:NT', 'Existential:FNT', 'Universal:FN', 'Universal:FNT'):
    F.append(dict(property='C11', key=f'C11:embeds:K3W->K3WQ:{row}', status='known',
        what='K3WQ.Meta.extension_of = K3W, but K3WQ evaluates quantifiers by generalised weak-Kleene disjunction/conjunction '
             f'(row {row}: K3W gives the min/max value, K3WQ gives N), so a K3WQ interpretation is not a K3W interpretation. '
             'The declaration is only true of the propositional fragment; it is metadata used by the documentation and by tests '
             '(test/logics derive expectations through the extension table), not repaired.'))
F.append(dict(property='C11', key='C11:extension:K3W->K3WQ:fold:*', status='known',
    what='consequence of the K3W->K3WQ quantifier rows: e.g. Fa |- ExFx is valid in K3W and refuted in K3WQ by the genuine '
         'countermodel Fa=T, Fb=N'))
# (i)/(ii)/(l) model builder / export findings (C08, C20) — proposed by the component builders, failing inputs in tools/notes_C08.md / notes_C20.md
for e in [{"property": "C08", "key": "C08:identity-completion:not-symmetric:*", "status": "known", "what": "cpl.Model.finish completes identity in ONE pass (_agument_extension_with_identicals, before _ensure_self_identity): set a=b to T, finish: b=a evaluates to F (CPL CFOL K D T S4 S5). The sweep-to-fixpoint repair (tools/fix_C08_1.diff) is not acceptable: Tableau(CFOL, 'b=c |- c=b').build() then raises ModelValueError on the open branch {b=c, ~c=b}."}, {"property": "C08", "key": "C08:identity-completion:not-transitive:*", "status": "known", "what": "same one-pass completion: a=b, c=b set to T, finish: two of the identities hold and the third implied one evaluates to F (which one depends on the hash order of model.constants)."}, {"property": "C08", "key": "C08:identity-completion:extension-not-closed:*", "status": "known", "what": "same one-pass completion; tools.substitute replaces ALL occurrences of a constant: a=b, Haa set to T, finish: Hba evaluates to F."}, {"property": "C08", "key": "C08:identity-completion:order-dependent:*", "status": "known", "what": "same one-pass completion: the finished model depends on the order of the set_predicated_value calls (and on the per-process hash order of model.constants): [a=b, a=c, b=a] and [a=b, b=a, a=c] finish to different Identity extensions."}, {"property": "C08", "key": "C08:identity-completion:serial-world:D", "status": "known", "what": "logic D: SerialAccess.enforce() adds the world max+1 after _complete_frames and after the identity/existence pass; that world is accessible but has no frame: Fa:=T at 0, finish: value_of(a=a, world=1) = F, value_of(E!a, world=1) = F, hence []E!a is F at world 0."}, {"property": "C20", "key": "C20:anti-extension:unassigned-false:*", "status": "known", "what": "logics whose unassigned value is F but that export an anti-extension (LP, RM3, NH and modal extensions): PredicateInterpretation.having() walks explicitly assigned tuples only, so a tuple of model constants that was never assigned evaluates to F yet is missing from the exported anti-extension. LP: Fa:=T, Gb:=T, finish (open branch of Fa, Gb |- Ga): value_of(Fb)=F, anti-extension of F is []."}, {"property": "C20", "key": "C20:worlds:serial-world-unlisted:D", "status": "known", "what": "logic D: get_data() lists sorted(model.frames); the world SerialAccess.enforce() adds has no frame: Fa:=T at 0, finish: model.R has worlds {0,1}, export W=[0]. (After a value_of at world 1 the defaultdict has created the frame and the next get_data() lists it.)"}, {"property": "C20", "key": "C20:access:serial-world-unlisted:D", "status": "known", "what": "logic D, same cause: Access is R.flat(w1s=sorted(frames)): the loop 1->1 of the added world is not exported although 0->1 is."}]:
    F.append(dict(property=e["property"], key=e["key"], status="known", what=e["what"]))
F.append(dict(property='C14', key='C14:immutable:lazy-slot-settable:*', status='known',
    what='constructed items accept setattr on still-empty lazily filled private slots (_hash, _ident, _constants, ...), after which '
         'hash(x) / x.constants return the planted value; the slots are filled through the same __setattr__ path, so there is no small repair'))
for prop, commit, what in FIXED:
    F.append(dict(property=prop, key=f'fixed:{prop}:{commit}', status='fixed', commit=commit,
                  what=f'fixed: property={prop} {commit} {what}'))

extra = ROOT / 'tools' / 'known_extra.json'
if extra.exists():
    F += json.loads(extra.read_text())
(ROOT / 'known_findings.json').write_text(json.dumps(dict(findings=F), indent=1, ensure_ascii=False) + '\n')
print(f'{len(F)} entries')
