#!/usr/bin/env python3
"""Writes MANIFEST.json from the table below (single source of truth for what is claimed)."""
import json, pathlib
ROOT = pathlib.Path(__file__).resolve().parents[1]
REPO_HOOKS = ['fdf8ddb']

# id -> dict(level, text, note, technique, design)   ; absent ids go to not_applicable with PENDING reason
CLAIMED = {
}
PENDING = 'check not built yet in this round (planned: Lean 4 proof + correspondence, see DESIGN.md section 6)'
NOT_APPLICABLE = {}

def main():
    props = [json.loads(l)['id'] for l in (ROOT / 'properties.jsonl').read_text().splitlines() if l.strip()]
    checks, na = [], []
    for pid in props:
        c = CLAIMED.get(pid)
        if c is None:
            na.append(dict(property_id=pid, reason=NOT_APPLICABLE.get(pid, PENDING)))
            continue
        checks.append(dict(
            property_id=pid,
            quick_cmd=f'./check {pid} --tier quick',
            thorough_cmd=f'./check {pid} --tier thorough',
            evidence_file=f'evidence/{pid}.json',
            replay_cmd_template=f'./check {pid} --replay {{path}}',
            engine='lean4+correspondence',
            level_claimed=dict(category=c.get('level', 'proof'), text=c['text'], design_ref=c.get('design', f'DESIGN.md §6 {pid}')),
            level_note=c['note'],
            technique=c['technique']))
    man = dict(
        version=1,
        setup_cmd='./setup.sh',
        hooks=dict(
            guard='PYTABLEAUX_VERIF',
            enable='environment PYTABLEAUX_VERIF=1 (set by ./check); optional PYTABLEAUX_VERIF_ORDER=<int> selects the tie-break order',
            baseline_off_cmd='cd /repo && env -u PYTABLEAUX_VERIF -u PYTABLEAUX_VERIF_ORDER /venv/bin/python -m pytest -ra -q -p no:cacheprovider --timeout=900 --continue-on-collection-errors',
            source_commits=REPO_HOOKS,
            add_only=True),
        engines=[dict(name='lean4+correspondence', path='lean/ harness/ check',
                      serves_properties=sorted(CLAIMED),
                      kind_free_text='Lean 4 model + theorems (lake build, #print axioms audit); model regenerated from /repo by harness/extract and/or compared with the implementation through the compiled driver lean/.lake/build/bin/ptxdrv')],
        checks=checks,
        not_applicable=na,
        notes='See DESIGN.md. known_findings.json lists genuine defects kept as findings; fixed ones are recorded there too.')
    (ROOT / 'MANIFEST.json').write_text(json.dumps(man, indent=1) + '\n')
    print(f'claimed={len(checks)} not_applicable={len(na)}')

if __name__ == '__main__':
    main()
