#!/usr/bin/env python3
"""Writes MANIFEST.json from the table below (single source of truth for what is claimed)."""
import json, pathlib
ROOT = pathlib.Path(__file__).resolve().parents[1]
REPO_HOOKS = ['fdf8ddb']

# id -> dict(level, text, note, technique, design)   ; absent ids go to not_applicable with PENDING reason
TB = ('Trusted: Lean 4.33 kernel; axioms propext/Classical.choice/Quot.sound only (audited each run); the translator harness/extract '
      '(probe.py reads tables / rule behaviour off the running code, gen.py writes Ptx/Gen/*.lean); the documented tables Ptx/Sem/Spec.lean; '
      'known_findings.json (committed, read-only).')
CLAIMED = {
 'C04': dict(level='proof', technique='Lean 4 proof: rule tables regenerated from /repo, exactness on all abstract valuations by decide +kernel per logic, generic lift lemmas; frame closure vs proved Lean closure',
   text='Per logic and rule row, exactness (node satisfied iff some extension is, with witness / for all points) is a finite statement over operand value pairs resp. value profiles; it is regenerated from the running code and evaluated by the Lean kernel for all 57 logics (rules_exact, rules_sound, rules_total, rules_local). Generic theorems (Ptx/Props/C04.lean) lift the forward half to arbitrary sentences, structures, domain sizes and frames; frame-rule closure is compared with a Lean closure function proved to be the least relation with the frame property.',
   note=TB + ' Assumes rules are uniform in their operands (templates are abstracted from probes with atomic operands; validated by whole-proof replay in C01). The backward half of the generic lift is not yet proved (the abstract iff is checked in full for every rule row; the forward half is lifted for operator, quantifier and modal rules).'),
 'C05': dict(level='proof', technique='Lean 4 proof: closure and read tables regenerated from /repo, exactness by decide +kernel per logic, generic lift (closing_unsat)',
   text='Closure behaviour on every subset of literal constraints and the value read by the model builder are regenerated from real branches for every logic; the kernel evaluates closes <-> unsatisfiable and read-value-satisfies for all rows; generic theorems lift this to branches of arbitrary sentences in arbitrary structures, and prove ~a=a / ~E!a unsatisfiable in classical structures.',
   note=TB + ' Assumes closure is local to one sentence at one world (validated by the extractor on atom vs predication and cross-world pairs).'),
 'C07': dict(level='proof', technique='Lean 4 proof: complete truth-table graphs regenerated from /repo compared row by row with hand-transcribed documented tables by decide +kernel',
   text='The domain is finite (<=16 rows x 10 operators, <=15 value sets x 4 folds per logic) and enumerated completely: every row of every logic is extracted from the running truth functions / evaluator and compared by kernel evaluation with Ptx/Sem/Spec.lean; definitional identities and extension-has-base-tables are separate kernel-checked theorems on the code tables.',
   note=TB + ' The oracle is a hand transcription of the doc prose and cited literature (Spec.lean), short and meant to be read.'),
}
TB2 = ('Trusted: Lean 4.33 kernel; axioms propext/Classical.choice/Quot.sound only (audited each run); the hand-written Lean model of the '
       'component; the correspondence harness (generators, canonicalisation, diff) that ties the model to the code on sampled and '
       'exhaustive-small inputs; known_findings.json (committed, read-only). ')
CLAIMED.update({
 'C12': dict(level='proof', technique='Lean 4 proof (Polish round trip, argstr round trip, token injectivity) on a parser/writer model whose symbol tables are regenerated from /repo; correspondence with the real Parser/LexWriter through the driver',
   text='The Polish parser and writer, the standard parser and the argument-string codec are modelled as total Lean functions over symbol tables regenerated from the running code each run (table side-conditions by decide +kernel). Proved for all sentences of the parsers\' language: parsePolish(writePolish s ++ rest) returns s (with continuation), argstr round trip, token-level injectivity / prefix-freeness of the Polish writer. The standard-notation denotation theorem and per-table rendered-string injectivity are stated in full but only partially proved (one kernel-evaluated instance) — they are covered by the correspondence and the implementation-side oracles (parse(write s) = s for all 54 writer configurations the parser accepts; pairwise distinct renderings).',
   note=TB2 + 'Statements carry the explicit hypothesis that subscripts are below the int->str digit limit. Standard-notation theorems are partial (see tools/notes_C12.md).'),
 'C13': dict(level='proof', technique='Lean 4 proof that no crash outcome is reachable in a parser model where every partial Python operation is an explicit outcome; output well-formedness; correspondence on exhaustive-short, mutated and long inputs and on parse sequences',
   text='Both parsers are modelled with every Python operation that can raise something other than ParseError as an explicit crash outcome (table lookup, index past end, int() digit limit, constructor errors, store conflicts, recursion depth as fuel) and the with-block exit semantics. Proved for every table, string, store and fuel: only ParseError (with the entry guard of commit c1123bc; the unguarded model provably crashes on a long digit run and on deep nesting), termination by construction, every returned sentence closed / non-vacuous / not re-bound / arity-exact, stores stay consistent, result is a function of (string, store).',
   note=TB2 + 'History independence of the real parser object is carried by the correspondence (sequences of parses on one parser incl. failing parses that leak auto-declared predicates and a cache-evicting sequence). A frozen Predicates store with auto_preds raises AttributeError: outside the property\'s precondition.'),
 'C14': dict(level='proof', technique='Lean 4 proof (sort-key injectivity and prefix-freeness, total order, hash consistency, argument order, cache transparency for sound cache states) + correspondence incl. one subprocess per ITEM_CACHE_SIZE',
   text='sortKey / cmpKeys mirror sort_tuple and orderitems; proved: the flattened key is injective and prefix-free on well-formed items (zero padding cannot confuse), cmp = eq iff structurally equal, antisymmetric, transitive, total, rank-first, hash a function of the key, argument order total and consistent. The construction cache (DequeCache + metaclass call incl. from-ident path) is a state machine; cache_transparent is proved for every sound cache state, any maxlen and eviction history, under hypotheses (ident round trip, sufficient recursion budget, no internal KeyError) that the driver evaluates on every compared sequence — hence _partial. Immutability, copy and pickle are runtime observations of the harness.',
   note=TB2 + 'ident/spec round trips are proved as instances only; structural invariant preservation of the cache is evaluated per sequence, not proved (tools/notes_C14.md). Known finding: lazily filled private slots accept setattr.'),
 'C15': dict(level='proof', technique='Lean 4 proof against an independent flat token walk; correspondence on exhaustive-small and random sentences x parameter pairs',
   text='subst / unquantify / negative and the derived attributes mirror the Python recursion; the theorems relate them to an independent prefix-order token walk of the sentence: exactly the occurrences of the old parameter are replaced and the skeleton is unchanged, self/absent substitution is the identity, unquantify = substitute in the body, negative un-negates, constants/variables/predicates/atomics/operators/quantifiers equal those of the walk. Fully proved.',
   note=TB2 + 'The lazily cached Python attributes are tied to the model by correspondence (205k cases per quick run).'),
 'C18': dict(level='proof', technique='Lean 4 refinement proof (invariant by induction over all operation sequences, abstraction to a duplicate-free list, raise-atomicity) for qset / linqset / Predicates models keeping the redundant structures; correspondence exhaustive to depth 4 and random to length 60',
   text='The three containers are modelled with their redundant representations (list+set, links+table+length, qset+lookup index) and the real order of checks and updates; every public operation is a total function returning state and outcome (exception class). Proved for all operation sequences from empty: the invariant holds, abs(run ops) = Spec.run ops on a plain duplicate-free list, outcomes agree; a raising single-element operation leaves the state unchanged; the predicate store never holds two arities of one symbol and finds each member by any reference. The unfixed setitem operations provably break the invariant (witness by decide).',
   note=TB2 + 'Pointer surgery of linkseq is modelled at list level; its pointer-level consistency is seen by the correspondence (forward and reversed iteration after every op). The model mirrors the code with fixes cbd6d8a, 5e75039, c1ba8ab, 9115501.'),
})
CLAIMED.update({
 'C01': dict(level='proof', technique='Lean 4 proof: generic soundness theorem over every finite sequence of legal steps (no scheduler model), instantiated per logic from kernel-evaluated side conditions on regenerated rule/closure/trunk/frame data; whole-proof replay correspondence; bounded countermodel search only for replays',
   text='C01_valid_sound: for any logic data passing the decidable side checks, any tableau reachable from the trunk by ANY finite sequence of legal steps (operator, quantifier, modal, closure, frame, identity, quit-flag steps) with all branches closed admits no countermodel in any structure of the logic (arbitrary worlds/domains, frame condition, documented tables). Since the derivation is arbitrary, every optimisation option, tie-break order, build/step loop and premise order is inside the quantifier. Instantiated for all 57 logics (Ptx.Gen.Obl.<L>.c01_valid_sound). Real runs are replayed step by step (each step must be a legal instance, final branches equal node for node), so the theorem applies to those runs; rules outside the sound part (Bochvar and FDE biconditional rules: known findings) exclude a run from the theorem and send it to the countermodel search.',
   note=TB + ' A quantifier step is legal in the model only on a compound whose body does not re-bind its variable and contains nothing the logic leaves uninterpreted (true of every sentence the parsers accept). Rules failing the soundness side check (known findings) are outside the calculus the theorem talks about. Spec structures interpret classical Identity as real identity.'),
 'C06': dict(level='proof', technique='Lean 4 proof by induction over all histories of append/copy/tick on a forest of branches, freshness stated against an independent walk of the nodes on the branch; correspondence exhaustive to depth 5 + witness-rule sweep over all 57 logics',
   text='BranchState mirrors Branch.append/copy/new_constant/new_world line by line. C06_fresh_all_histories: after any finite history, on every branch the offered constant occurs in no sentence on it and the offered world in no node on it (freshness stated against the nodes actually present, plus cached sets = walked sets); copies are independent. The legacy (pre-c02e76b) rule is proved not fresh. That every witness rule of every logic uses the offered item is checked on real runs (all 57 logics, constants/worlds out of order and non-initial), and — for legality — by the C01 replay (fresh-witness condition of every new-constant / new-world step).',
   note=TB2 + 'The witness-rule clause is a correspondence/oracle check over real runs, not a theorem.'),
 'C17': dict(level='proof', technique='Lean 4 proof over a flag-word state machine (induction over all interleavings of public calls with abstract next()-outcome and clock inputs); correspondence on real tableaux with deterministic clock',
   text='Lifecycle.lean mirrors step/finish/build/setters/_check_timeout/_is_max_steps_exceeded line by line; inputs are the public calls, each with the abstract outcome of next() and a clock reading. Proved for every reachable state / op sequence: premature => no verdict; history length <= positive step limit; a limit above the natural length changes nothing; exceeding the time limit raises and leaves the tableau finished; finished is absorbing; argument/logic/rules are frozen after start; no argument => no verdict.',
   note=TB2 + 'The real wall clock and the chooser are outside the model: the theorem is about what the state machine does GIVEN a clock reading and next() outcome; the harness drives both deterministically on real tableaux.'),
})
CLAIMED.update({
 'C03': dict(level='proof', technique='Lean 4 proof: meaning of the truth-table oracle (complete enumeration) and closed => truth-table valid for every legal derivation (from C01), per logic; exhaustive-small + random propositional sweep comparing verdicts with the oracle',
   text='ttValid enumerates every assignment of the logic\'s values to the sentence letters; C03_ttValid_iff proves it is true exactly when no assignment is a counterexample; C03_closed_implies_ttValid proves, for every legal derivation (any options / tie-breaks / build or step), that a closed tableau of a propositional argument is truth-table valid, instantiated for all 57 logics. Completeness (tt-valid => closed) and termination without limits are not theorems yet; they are decided on the sweep (per logic: arguments over the 30 sentences of depth <= 1 on two letters, exhaustive in the thorough tier, plus random deeper ones): verdict = ttValid by the Lean driver and by an independent Python enumeration, not premature, no quit flag.',
   note=TB + ' Partial: the completeness half and termination rest on the correspondence sweep, not on a theorem (tools: DESIGN.md section 6 C03).'),
})
CLAIMED.update({
 'C11': dict(level='proof', technique='Lean 4 proof: generic embedding theorem (an interpretation of the stronger logic is an interpretation of the weaker one with the same values; countermodels transfer) + decidable table-level condition kernel-evaluated for every declared pair regenerated from Meta.extension_of; paired real runs in both logics for the failing-input search',
   text='embedsB L\' L (value sets, designation, operator tables, quantifier/modal folds on the stronger logic\'s value profiles, vocabulary, frame class, identity) is evaluated by the kernel for each of the ~98 declared pairs, regenerated from the running code on every run. Proved generically for arbitrary structures (any worlds, domain, frame of L) and all sentences of the weaker logic\'s vocabulary: eval agrees (eval_embed), a countermodel in L is a countermodel in L\', hence a closed L\'-tableau reached by ANY legal derivation excludes every L-countermodel (C11_extension_no_countermodel_partial, instantiated per pair in Ptx.Gen.ObExtends), and on the propositional fragment truth-table validity is inherited (C11_extension_prop). The remaining step (no countermodel in L => the L tableau has no limit-free open branch / closes) is C02/C03 completeness and is decided by paired runs: arguments valid in the weaker logic are run in the stronger one.',
   note=TB + ' Partial: completeness of the stronger logic\'s tableau is not a theorem here; it is covered by the paired runs. Known findings: K3WQ declares extension_of K3W although its quantifier folds differ (Fa |- ExFx); arguments valid only through the inexact Bochvar / FDE biconditional rules.'),
})
CLAIMED.update({
 'C09': dict(level='proof', technique='Lean 4 proof over a scheduler-free calculus model (every theorem over Deriv quantifies over all options / tie-break orders / build-or-step); one closed derivation excludes a genuine countermodel for every premise permutation or duplication; sweep of the real prover over the option matrix x build/step x tie-break seeds x premise variants with whole-proof replay',
   text='The calculus model has no scheduler: Deriv ranges over every finite sequence of legal rule applications, so optimisation options, tie-break orders and build()/step() are inside the quantifier of C01/C03/C10/C11 and of C09_verdict_unique_partial: if SOME legal derivation from the trunk closes then no structure is a countermodel of any argument with the same premise set and conclusion (any order, any multiplicity) - no other search can end with a branch from which a genuine countermodel is read; Countermodel depends on the premise set only. Instantiated per logic through the C01 obligations. The converse half (a limit-free saturated open branch yields a genuine countermodel) is C02. The sweep runs each argument under is_group_optim x is_rank_optim x {build, step} x tie-break seeds (hook) x premise permutations/duplications: any exception and any valid/refuted conflict is a violation; every run is replayed through the model as a legal derivation.',
   note=TB + ' Partial: mutual exclusion of the two outcome classes across all searches needs C02 (Hintikka); "never raises" is a runtime property observed on the sweep only. Tie-break orders are enumerated through the guarded hook PYTABLEAUX_VERIF_ORDER.'),
 'C10': dict(level='proof', technique='Lean 4 proof: reflexivity by the invariant "branches only grow" over every legal derivation + a decidable side condition on the regenerated closure table (decide +kernel per logic); monotonicity and injective renaming (letters, constants, predicates, variables incl. bound ones) proved at the level of countermodels in arbitrary structures; metamorphic runs of the real prover',
   text='C10_reflexive: if the conclusion is among the premises then on every open branch of every tableau reachable by any legal derivation the closure step is legal (both trunk nodes persist because legal steps only extend open branches; every literal set containing both trunk constraints closes - kernel-evaluated on each logic\'s regenerated closure table), so only closed tableaux are finished. C10_monotone_partial: a closed tableau for G |- A excludes every countermodel of G,B |- A. C10_renaming_countermodels: an argument has a countermodel iff its renaming has one (pull-back of structures along the renaming; variables renamed injectively, binders with occurrences; Identity/Existence fixed), hence closed tableaux exclude countermodels of the renamed argument and conversely. The metamorphic runs (repeat the conclusion as a premise / add a premise / rename injectively) over all 57 logics incl. first-order modal arguments compare verdict classes.',
   note=TB + ' Partial: from "no countermodel" to "no limit-free open branch" is C02 completeness; that the real prover stops only when no rule applies is observed on the runs.'),
})
CLAIMED.update({
 'C16': dict(level='proof', technique='Lean 4 proof: invariant by induction over every legal step / every derivation for the calculus model extended with the event record (Book); theorems about the mirrored tree builder (leaves, counts, distinct nodes) and statistics; correspondence: every real run observed through the public API and events at every prefix, replayed through the model and compared (prefix observations, stat record, tree, statistics)',
   text='Book (Ptx/Tab/Tree.lean) carries branches, per-branch records (node objects, fork length, steps added/closed, parent, tick records), the open view and the history alongside the calculus model; listener exceptions are explicit outcomes. Proved for EVERY legal step of any logic data and every derivation from the trunk: trunk = premises then conclusion node in order; branches only grow; closed branches are never touched and are exactly those whose last node is the closure flag; the open view lists exactly the unclosed branches; new branches extend their parent; each step is recorded once; recorded step numbers persist and are bounded. Tree.build mirrors Tableau.Tree._build line by line: it takes none of its exception paths, leaves with their root-to-leaf paths are a permutation of the branches, width / descendant / structure node counts / depth / left-right / distinct nodes equal recomputed values, statistics equal observable counts (17 theorems, none partial; tree theorems assume every rule group adds at least one node, kernel-checked for all 57 logics each run).',
   note=TB2 + 'EventEmitter dispatch order and re-entrant listeners are not modelled; node identity is modelled as (origin branch, position). The tie between Book and Tableau.__listen_on / Tree._build is the sampled correspondence (every run, every prefix).'),
})
PENDING = 'check not built yet in this round (planned: Lean 4 proof + correspondence, see DESIGN.md section 6)'
NOT_APPLICABLE = {}

def main():
    props = [json.loads(l)['id'] for l in (ROOT / 'properties.jsonl').read_text().splitlines() if l.strip()]
    checks, na = [], []
    for pid in props:
        c = CLAIMED.get(pid)
        if c is None:
            na.append(dict(property_id=pid, reason=NOT_APPLICABLE.get(pid, PENDING)))
            continue
        checks.append(dict(
            property_id=pid,
            quick_cmd=f'./check {pid} --tier quick',
            thorough_cmd=f'./check {pid} --tier thorough',
            evidence_file=f'evidence/{pid}.json',
            replay_cmd_template=f'./check {pid} --replay {{path}}',
            engine='lean4+correspondence',
            level_claimed=dict(category=c.get('level', 'proof'), text=c['text'], design_ref=c.get('design', f'DESIGN.md §6 {pid}')),
            level_note=c['note'],
            technique=c['technique']))
    man = dict(
        version=1,
        setup_cmd='./setup.sh',
        hooks=dict(
            guard='PYTABLEAUX_VERIF',
            enable='environment PYTABLEAUX_VERIF=1 (set by ./check); optional PYTABLEAUX_VERIF_ORDER=<int> selects the tie-break order',
            baseline_off_cmd='cd /repo && env -u PYTABLEAUX_VERIF -u PYTABLEAUX_VERIF_ORDER /venv/bin/python -m pytest -ra -q -p no:cacheprovider --timeout=900 --continue-on-collection-errors',
            source_commits=REPO_HOOKS,
            add_only=True),
        engines=[dict(name='lean4+correspondence', path='lean/ harness/ check',
                      serves_properties=sorted(CLAIMED),
                      kind_free_text='Lean 4 model + theorems (lake build, #print axioms audit); model regenerated from /repo by harness/extract and/or compared with the implementation through the compiled driver lean/.lake/build/bin/ptxdrv')],
        checks=checks,
        not_applicable=na,
        notes='See DESIGN.md. known_findings.json lists genuine defects kept as findings; fixed ones are recorded there too.')
    (ROOT / 'MANIFEST.json').write_text(json.dumps(man, indent=1) + '\n')
    print(f'claimed={len(checks)} not_applicable={len(na)}')

if __name__ == '__main__':
    main()
