#!/usr/bin/env python3
"""Writes MANIFEST.json from the table below (single source of truth for what is claimed)."""
import json, pathlib
ROOT = pathlib.Path(__file__).resolve().parents[1]
REPO_HOOKS = ['fdf8ddb']

# id -> dict(level, text, note, technique, design)   ; absent ids go to not_applicable with PENDING reason
TB = ('Trusted: Lean 4.33 kernel; axioms propext/Classical.choice/Quot.sound only (audited each run); the translator harness/extract '
      '(probe.py reads tables / rule behaviour off the running code, gen.py writes Ptx/Gen/*.lean); the documented tables Ptx/Sem/Spec.lean; '
      'known_findings.json (committed, read-only).')
CLAIMED = {
 'C04': dict(level='proof', technique='Lean 4 proof: rule tables regenerated from /repo, exactness on all abstract valuations by decide +kernel per logic, generic lift lemmas; frame closure vs proved Lean closure',
   text='Per logic and rule row, exactness (node satisfied iff some extension is, with witness / for all points) is a finite statement over operand value pairs resp. value profiles; it is regenerated from the running code and evaluated by the Lean kernel for all 57 logics (rules_exact, rules_sound, rules_total, rules_local). Generic theorems (Ptx/Props/C04.lean) lift the forward half to arbitrary sentences, structures, domain sizes and frames; frame-rule closure is compared with a Lean closure function proved to be the least relation with the frame property.',
   note=TB + ' Assumes rules are uniform in their operands (templates are abstracted from probes with atomic operands; validated by whole-proof replay in C01). The backward half of the generic lift and the quantifier-rule lift are not yet proved (the abstract iff is checked in full).'),
 'C05': dict(level='proof', technique='Lean 4 proof: closure and read tables regenerated from /repo, exactness by decide +kernel per logic, generic lift (closing_unsat)',
   text='Closure behaviour on every subset of literal constraints and the value read by the model builder are regenerated from real branches for every logic; the kernel evaluates closes <-> unsatisfiable and read-value-satisfies for all rows; generic theorems lift this to branches of arbitrary sentences in arbitrary structures, and prove ~a=a / ~E!a unsatisfiable in classical structures.',
   note=TB + ' Assumes closure is local to one sentence at one world (validated by the extractor on atom vs predication and cross-world pairs).'),
 'C07': dict(level='proof', technique='Lean 4 proof: complete truth-table graphs regenerated from /repo compared row by row with hand-transcribed documented tables by decide +kernel',
   text='The domain is finite (<=16 rows x 10 operators, <=15 value sets x 4 folds per logic) and enumerated completely: every row of every logic is extracted from the running truth functions / evaluator and compared by kernel evaluation with Ptx/Sem/Spec.lean; definitional identities and extension-has-base-tables are separate kernel-checked theorems on the code tables.',
   note=TB + ' The oracle is a hand transcription of the doc prose and cited literature (Spec.lean), short and meant to be read.'),
}
PENDING = 'check not built yet in this round (planned: Lean 4 proof + correspondence, see DESIGN.md section 6)'
NOT_APPLICABLE = {}

def main():
    props = [json.loads(l)['id'] for l in (ROOT / 'properties.jsonl').read_text().splitlines() if l.strip()]
    checks, na = [], []
    for pid in props:
        c = CLAIMED.get(pid)
        if c is None:
            na.append(dict(property_id=pid, reason=NOT_APPLICABLE.get(pid, PENDING)))
            continue
        checks.append(dict(
            property_id=pid,
            quick_cmd=f'./check {pid} --tier quick',
            thorough_cmd=f'./check {pid} --tier thorough',
            evidence_file=f'evidence/{pid}.json',
            replay_cmd_template=f'./check {pid} --replay {{path}}',
            engine='lean4+correspondence',
            level_claimed=dict(category=c.get('level', 'proof'), text=c['text'], design_ref=c.get('design', f'DESIGN.md §6 {pid}')),
            level_note=c['note'],
            technique=c['technique']))
    man = dict(
        version=1,
        setup_cmd='./setup.sh',
        hooks=dict(
            guard='PYTABLEAUX_VERIF',
            enable='environment PYTABLEAUX_VERIF=1 (set by ./check); optional PYTABLEAUX_VERIF_ORDER=<int> selects the tie-break order',
            baseline_off_cmd='cd /repo && env -u PYTABLEAUX_VERIF -u PYTABLEAUX_VERIF_ORDER /venv/bin/python -m pytest -ra -q -p no:cacheprovider --timeout=900 --continue-on-collection-errors',
            source_commits=REPO_HOOKS,
            add_only=True),
        engines=[dict(name='lean4+correspondence', path='lean/ harness/ check',
                      serves_properties=sorted(CLAIMED),
                      kind_free_text='Lean 4 model + theorems (lake build, #print axioms audit); model regenerated from /repo by harness/extract and/or compared with the implementation through the compiled driver lean/.lake/build/bin/ptxdrv')],
        checks=checks,
        not_applicable=na,
        notes='See DESIGN.md. known_findings.json lists genuine defects kept as findings; fixed ones are recorded there too.')
    (ROOT / 'MANIFEST.json').write_text(json.dumps(man, indent=1) + '\n')
    print(f'claimed={len(checks)} not_applicable={len(na)}')

if __name__ == '__main__':
    main()
