#!/bin/bash
# tools/seedtest.sh <seed-dir containing patch.diff [demo.py]> <PROP> [PROP…]
# Applies the patch to a scratch worktree of /repo, confirms the demo (passes clean, fails patched), runs the
# given checks (quick tier) against the patched worktree with a scratch copy of the Lean project and a scratch
# output directory, prints one line per check, and removes everything again.  /repo and /verif/evidence are untouched.
set -u
SD=$(readlink -f "$1"); shift
NAME=$(echo "$SD" | tr '/' '_' | tail -c 40)
WT=/tmp/seedwt_$NAME
SL=/tmp/seedlean_$NAME
OUT=/tmp/seedout_$NAME
git -C /repo worktree remove --force "$WT" >/dev/null 2>&1
rm -rf "$WT" "$SL" "$OUT"
git -C /repo worktree add -q --detach "$WT" HEAD || exit 2
( cd "$WT" && git apply "$SD/patch.diff" ) || { echo "PATCH-DOES-NOT-APPLY $SD"; git -C /repo worktree remove --force "$WT"; exit 2; }
if [ -f "$SD/demo.py" ]; then
  ( cd /repo && env -u PYTABLEAUX_VERIF /venv/bin/python "$SD/demo.py" /repo >/dev/null 2>&1 ); c=$?
  ( cd "$WT" && env -u PYTABLEAUX_VERIF /venv/bin/python "$SD/demo.py" "$WT" >/dev/null 2>&1 ); m=$?
  echo "demo: clean=$c patched=$m"
fi
mkdir -p "$SL" "$OUT"
rsync -a /verif/lean/ "$SL/lean/"
for P in "$@"; do
  t0=$(date +%s)
  ( cd /verif && VERIF_REPO="$WT" VERIF_LEAN_DIR="$SL/lean" VERIF_OUT_DIR="$OUT" ./check "$P" --tier ${TIER:-quick} > "$OUT/$P.log" 2>&1 ); rc=$?
  t1=$(date +%s)
  echo "check $P exit=$rc ($((t1-t0))s) $(grep -c '^VIOLATION' "$OUT/$P.log") violation line(s)"
  grep '^VIOLATION\|^# ' "$OUT/$P.log" | head -6
  [ $rc -ge 2 ] && tail -5 "$OUT/$P.log"
done
[ -n "${KEEP:-}" ] || { git -C /repo worktree remove --force "$WT"; rm -rf "$SL" "$OUT"; }
