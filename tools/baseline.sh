#!/bin/bash
# Run the repository's pinned test suite (guard OFF) and compare with BASELINE.json stable_pass.
# usage: tools/baseline.sh [repo-dir]
REPO=${1:-/repo}
OUT=$(mktemp /tmp/baseline.XXXXXX.xml)
unset PYTABLEAUX_VERIF PYTABLEAUX_VERIF_ORDER
cd "$REPO" && /venv/bin/python -m pytest -q -p no:cacheprovider --timeout=900 --continue-on-collection-errors -n 12 --junitxml="$OUT" >/dev/null 2>&1
/venv/bin/python - "$OUT" <<'PY'
import json, sys, xml.etree.ElementTree as ET
base = set(json.load(open('/root/.vp/BASELINE.json'))['stable_pass'])
passed = set()
for tc in ET.parse(sys.argv[1]).getroot().iter('testcase'):
    if not any(ch.tag in ('failure', 'error', 'skipped') for ch in tc):
        passed.add(f"{tc.get('classname')}::{tc.get('name')}")
missing = sorted(base - passed)
print(f'baseline stable_pass={len(base)} passed_now={len(passed)} missing={len(missing)}')
for m in missing[:40]:
    print('  MISSING', m)
sys.exit(1 if missing else 0)
PY
rc=$?
rm -f "$OUT"
exit $rc
