#!/usr/bin/env python3
"""Regenerates the seeded-changes table of DESIGN.md §12 from seeded/*/meta.json (between the markers)."""
import json, pathlib, re
ROOT = pathlib.Path(__file__).resolve().parents[1]
rows = []
for d in sorted((ROOT / 'seeded').iterdir()):
    mf = d / 'meta.json'
    if not mf.exists():
        continue
    m = json.loads(mf.read_text())
    summary = re.sub(r'\s+', ' ', str(m.get('summary', ''))).replace('|', '/')[:170]
    caught = re.sub(r'\s+', ' ', str(m.get('checks_run', ''))).replace('|', '/')[:230]
    missed = 'yes' if 'initially MISSED' in str(m.get('note', '')) else ('weak' if 'initially caught only' in str(m.get('note', '')) else '')
    rows.append(f'| {d.name} | {summary} | {caught} | {missed} |')
table = ['| seed | change | caught by (quick tier) | first missed? |', '|---|---|---|---|'] + rows
p = ROOT / 'DESIGN.md'
s = p.read_text()
block = '<!-- SEEDTABLE:BEGIN -->\n' + '\n'.join(table) + '\n<!-- SEEDTABLE:END -->'
if 'SEEDTABLE:BEGIN' in s:
    s = re.sub(r'<!-- SEEDTABLE:BEGIN -->.*?<!-- SEEDTABLE:END -->', lambda _: block, s, flags=re.S)
else:
    s = s.replace('\nSEEDTABLE\n', '\n' + block + '\n')
p.write_text(s)
print(len(rows), 'seeds')
