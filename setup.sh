#!/bin/bash
# Build the Lean project (model, proofs, driver) from files on disk. Offline.
set -e
cd "$(dirname "$0")"
export PATH="$PATH:/usr/local/bin:/opt/veriftools/lean/bin"
export PYTABLEAUX_VERIF=1
mkdir -p evidence replays
# regenerate the translated tables from /repo so that the first build matches the tree
/venv/bin/python -m harness.extract.gen || echo "setup: extraction failed (checks will report it)"
cd lean
lake build 2>&1 | tail -5
