import Ptx.Wire
open Ptx Ptx.Wire

def handle (line : String) : String :=
  match toks line with
  | "echo" :: r =>
    match parseSent r with
    | some (s, []) => "ok " ++ showSent s
    | _ => "err:wire"
  | _ => "err:unknown-request"

partial def loop (h : IO.FS.Stream) (out : IO.FS.Stream) : IO Unit := do
  let line ← h.getLine
  if line.isEmpty then return ()
  out.putStrLn (handle (line.dropRightWhile (· == '\n')))
  loop h out

def main : IO Unit := do
  let out ← IO.getStdout
  loop (← IO.getStdin) out
