/-
  ptxdrv — the Lean side of the correspondence check.  One request per input line, one
  canonical answer line per request.  Every request is self-contained (no state between lines).
  The first token selects the component; components live in Ptx/Drv/*.lean.
-/
import Ptx.Wire
import Ptx.Drv.Cont
import Ptx.Drv.Parse
import Ptx.Drv.Lex
import Ptx.Drv.Life
import Ptx.Drv.Branch
import Ptx.Drv.Logic
import Ptx.Drv.Model
import Ptx.Drv.Tab
import Ptx.Drv.Tree
import Ptx.Drv.Render
import Ptx.Drv.Sat
import Ptx.Drv.Search
open Ptx Ptx.Wire

def handlers : List (List String → Option String) :=
  [Drv.Cont.handle, Drv.Parse.handle, Drv.Lex.handle, Drv.Life.handle, Drv.Branch.handle,
   Drv.Logic.handle, Drv.Model.handle, Drv.Tab.handle,
   Drv.Tree.handle, Drv.Render.handle, Drv.Sat.handle, Drv.Search.handle]

def handle (line : String) : String :=
  let ts := toks line
  match ts with
  | "echo" :: r =>
    match parseSent r with
    | some (s, []) => "ok " ++ showSent s
    | _ => "err:wire"
  | _ =>
    match handlers.findSome? (· ts) with
    | some out => out
    | none => "err:unknown-request"

partial def loop (h : IO.FS.Stream) (out : IO.FS.Stream) : IO Unit := do
  let line ← h.getLine
  if line.isEmpty then return ()
  let line := if line.endsWith "\n" then (line.dropEnd 1).toString else line
  out.putStrLn (handle line)
  loop h out

def main : IO Unit := do
  let out ← IO.getStdout
  loop (← IO.getStdin) out
