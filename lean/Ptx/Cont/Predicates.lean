/-
  Ptx.Cont.Predicates — model of the predicate store `Predicates`
  (pytableaux/lang/collect.py l.205-311): a `qset` of predicates plus the lookup index
  `_lookup : dict[ref, Predicate]` maintained through `_hook_check` / `_hook_done`.

  `__contains__` and `get` consult the index only (PredicatesBase l.211-236), so the index is a
  third structure that can drift from `_seq_` / `_set_`; the model keeps it as an association
  list with dict semantics.

  A predicate is found under: its symbol coordinates `(index, subscript)`, its spec
  `(index, subscript, arity)`, its ident `('Predicate', spec)`, its name (system predicates
  only) — these four are `Predicate.refs` — and the predicate object itself.

  The model mirrors the code WITH the candidate fixes tools/fix_C18_2.diff (inherited
  `__setitem_slice__`) and tools/fix_C18_4.diff (`_hook_check` also rejects two arriving
  predicates that share a symbol but differ in arity) applied.  Core Lean only.
-/
import Ptx.Lang.Syntax
import Ptx.Cont.QSet
import Ptx.Cont.Spec
namespace Ptx.Cont

inductive Ref where
  | bi (index : Int) (sub : Nat)
  | spec (p : Pred)
  | ident (p : Pred)
  | name (n : String)
  | self (p : Pred)
  deriving DecidableEq, Repr

namespace Preds

def sysName (p : Pred) : Option String :=
  if p = Pred.identity then some "Identity" else if p = Pred.existence then some "Existence" else none

/-- `Predicate.refs` (lex.py l.911): spec, ident, bicoords, name -/
def refs (p : Pred) : List Ref :=
  [.bi p.index p.sub, .spec p, .ident p] ++ (match sysName p with | some n => [.name n] | none => [])

/-- all keys `_hook_done` files a predicate under: its refs and itself -/
def keys (p : Pred) : List Ref := refs p ++ [.self p]

/-- two predicates that may not be in one store: same symbol, different arity -/
def clash (a b : Pred) : Bool := a.index == b.index && a.sub == b.sub && a.arity != b.arity

abbrev Lookup := List (Ref × Pred)

def lget (lk : Lookup) (r : Ref) : Option Pred := (lk.find? (·.1 = r)).map (·.2)
def lpop (lk : Lookup) (r : Ref) : Lookup := lk.filter (·.1 ≠ r)
def lset (lk : Lookup) (r : Ref) (p : Pred) : Lookup := lpop lk r ++ [(r, p)]

/-- members found through a reference of `p` that are not `p` (`prior != pred`) -/
def priors (lk : Lookup) (p : Pred) : List Pred := ((refs p).filterMap (lget lk)).filter (· ≠ p)

/-- fix_C18_4: an arriving predicate shares a reference with an earlier, different arrival -/
def mutualClash : List Pred → Bool
  | [] => false
  | p :: ps => ps.any (fun q => q ≠ p && (refs q).any (· ∈ refs p)) || mutualClash ps

/-- `_hook_check` (l.265): collect `conflicts[prior] = pred`; every conflicting prior must be
    among the leaving, else ValueError('Value conflict …') -/
def check (lk : Lookup) (arriving leaving : List Pred) : Option Exc :=
  if mutualClash arriving then some .conflict else
  if (arriving.flatMap (priors lk)).all (· ∈ leaving) then none else some .conflict

/-- `_hook_done` (l.288): pop every key of every leaving predicate, then file every arriving one -/
def done (lk : Lookup) (arriving leaving : List Pred) : Lookup :=
  let lk1 := leaving.foldl (fun lk p => (keys p).foldl lpop lk) lk
  arriving.foldl (fun lk p => (keys p).foldl (fun lk r => lset lk r p) lk) lk1

/-- Lexical order of predicates: sort_tuple = (rank, subscript, index, arity) -/
def le (a b : Pred) : Bool :=
  a.sub < b.sub || (a.sub == b.sub && (a.index < b.index || (a.index == b.index && a.arity ≤ b.arity)))

/-- Python `pred == arg` for the argument kinds the harness passes: the object itself, or the
    name of a system predicate (lex.py l.937) -/
def refEq (r : Ref) (p : Pred) : Bool :=
  r == .self p || (match sysName p with | some n => r == .name n | none => false)

/-- the key an uncast value is looked up by: a spec tuple, or the name for a system predicate -/
def rawRef (p : Pred) : Ref := match sysName p with | some n => .name n | none => .spec p

def hooks : Hooks Pred Ref Lookup where
  init := []
  has lk _ r := (lget lk r).isSome
  check := check
  done := done
  clear _ := []
  toRef p := .self p
  rawRef := rawRef
  refEq := refEq
  le := le

abbrev Store := QSet Pred Lookup

def prims : Prims Store Pred Ref := QSet.prims hooks

/-- `PredicatesBase.get` (l.211): the index, then the system predicates, else KeyError -/
def get (c : Store) (r : Ref) : Except Exc Pred :=
  match lget c.ext r with
  | some p => .ok p
  | none =>
    match [Pred.existence, Pred.identity].find? (fun p => r ∈ keys p) with
    | some p => .ok p
    | none => .error .key

end Preds
end Ptx.Cont

namespace Ptx.Cont

/-- the specification signature of the predicate store: a predicate is known by its keys, two
    predicates clash when they share the symbol but differ in arity -/
def predSig : Sig Pred Ref where
  keys := Preds.keys
  toRef p := .self p
  rawRef := Preds.rawRef
  refEq := Preds.refEq
  clash := Preds.clash
  le := Preds.le
  hasSort := true
  hasWedge := false

end Ptx.Cont
