/-
  Ptx.Cont.Spec — the specification side of C18: a plain list without duplicates.

  The state is one `List α`; membership is list membership (through the references a member is
  known by), every operation is the obvious list operation, and an operation is refused
  exactly when it would create a duplicate, address a missing element / position, or (for the
  predicate store) bring together two values that `clash`.  The inherited methods are the
  same `Mixin` programs the containers inherit, run over these list primitives.

  `Sig` carries what distinguishes the three containers at this level: the references of a
  value, the order used by `sort`, `clash`, and which of `sort` / `wedge` exist.
-/
import Ptx.Cont.Basic
namespace Ptx.Cont

structure Sig (α ρ : Type) where
  /-- the references under which a member is found -/
  keys : α → List ρ
  toRef : α → ρ
  rawRef : α → ρ
  refEq : ρ → α → Bool
  /-- two values that may not be members together -/
  clash : α → α → Bool
  le : α → α → Bool
  hasSort : Bool
  hasWedge : Bool

namespace Spec
variable {α ρ : Type} [DecidableEq α] [DecidableEq ρ] (S : Sig α ρ)

/-- is some member known by reference `r` -/
def has (l : List α) (r : ρ) : Bool := l.any fun m => decide (r ∈ S.keys m)

/-- the arriving values would clash with a member that stays, or with each other -/
def clashes (l arriving leaving : List α) : Bool :=
  arriving.any (fun a => l.any fun m => !(leaving.contains m) && S.clash m a)
  || arriving.any (fun a => arriving.any fun b => S.clash a b)

def getIdx (l : List α) (i : Int) : Except Exc α :=
  match normIdx l.length i with
  | none => .error .index
  | some p => match l[p]? with
    | none => .error .index
    | some v => .ok v

def insert (l : List α) (i : Int) (v : α) : Res α (List α) :=
  if v ∈ l then (l, .err .duplicate) else
  if clashes S l [v] [] then (l, .err .conflict) else
  (l.insertIdx (clampIdx l.length i) v, .ok .unit)

/-- remove the member a reference denotes: unknown reference → Missing; known, but equal to no
    member as a value → ValueError -/
def remove (l : List α) (r : ρ) : Res α (List α) :=
  if !has S l r then (l, .err .missing) else
  match l.findIdx? (S.refEq r) with
  | none => (l, .err .value)
  | some p => (l.eraseIdx p, .ok .unit)

def delIdx (l : List α) (i : Int) : Res α (List α) :=
  match normIdx l.length i with
  | none => (l, .err .index)
  | some p => (l.eraseIdx p, .ok .unit)

def delSlice (l : List α) (s : Slice) : Res α (List α) :=
  match sliceIdx s l.length with
  | none => (l, .err .value)
  | some idxs => (delAt l idxs, .ok .unit)

def setIdx (l : List α) (i : Int) (v : α) : Res α (List α) :=
  match normIdx l.length i with
  | none => (l, .err .index)
  | some p => match l[p]? with
    | none => (l, .err .index)
    | some old =>
      if v ∈ l ∧ v ≠ old then (l, .err .duplicate) else
      if clashes S l [v] [old] then (l, .err .conflict) else
      (l.set p v, .ok .unit)

/-- assign to a slice: sizes must match (the containers' contract); refused with Duplicate
    exactly when the resulting list would contain a value twice -/
def setSlice (l : List α) (s : Slice) (vs : List α) : Res α (List α) :=
  match sliceIdx s l.length with
  | none => (l, .err .value)
  | some idxs =>
    if idxs.length ≠ vs.length then (l, .err .value) else
    let r := assignAt l idxs vs
    if ¬ r.Nodup then (l, .err .duplicate) else
    if clashes S l vs (pickAt l idxs) then (l, .err .conflict) else
    (r, .ok .unit)

def sort (l : List α) (rev : Bool) : Res α (List α) :=
  (if rev then (l.reverse.mergeSort S.le).reverse else l.mergeSort S.le, .ok .unit)

def wedge (l : List α) (v nb : α) (rel : Int) : Res α (List α) :=
  if rel ≠ 1 ∧ rel ≠ -1 then (l, .err .value) else
  if nb ∉ l then (l, .err .missing) else
  if v ∈ l then (l, .err .duplicate) else
  (l.insertIdx (if rel = 1 then l.idxOf nb + 1 else l.idxOf nb) v, .ok .unit)

def prims : Prims (List α) α ρ where
  empty := []
  len l := l.length
  has := has S
  iter l := l
  riter l := l.reverse
  getIdx := getIdx
  insert := insert S
  remove := remove S
  delIdx := delIdx
  delSlice := delSlice
  setIdx := setIdx S
  setSlice := setSlice S
  reverse l := (l.reverse, .ok .unit)
  clear _ := ([], .ok .unit)
  copy l := (l, .ok .unit)
  sort := if S.hasSort then some (sort S) else none
  wedge := if S.hasWedge then some wedge else none
  toRef := S.toRef
  rawRef := S.rawRef
  refEq := S.refEq

/-- one operation on the specification list -/
def step (l : List α) (op : Op α ρ) : Res α (List α) := Cont.step (prims S) l op

/-- a whole sequence from the empty list -/
def run (ops : List (Op α ρ)) : List α × List (Out α (List α)) := Cont.run (prims S) ops

end Spec

/-- plain values: known by themselves only, nothing clashes -/
def plainSig (α : Type) [DecidableEq α] (le : α → α → Bool) (hasSort hasWedge : Bool) : Sig α α where
  keys v := [v]
  toRef v := v
  rawRef v := v
  refEq r v := r == v
  clash _ _ := false
  le := le
  hasSort := hasSort
  hasWedge := hasWedge

end Ptx.Cont
