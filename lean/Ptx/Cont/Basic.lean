/-
  Ptx.Cont.Basic — what the three ordered-set containers share.

  * `Exc`, `Ret`, `Out`: every public operation is a total function returning the new state
    and an outcome; a raising path is the explicit constructor `Out.err` carrying the
    exception class the Python code raises.
  * Python subscript / slice semantics on positions (`normIdx`, `clampIdx`, `Slice.indices`,
    `sliceIdx`) and the position-level list edits the containers perform (`pickAt`, `delAt`,
    `assignAt`).
  * `Prims`: the methods a container class implements itself.  `Mixin.*`: the methods it
    inherits from `MutableSequenceSet` / `collections.abc.MutableSequence` / `MutableSet` / `Set`
    (tools/hybrids.py l.163-192 and the abc mixins), written once over `Prims`, exactly as
    the inherited Python methods are written once over the abstract methods.
  * `Op`, `step`, `run`: the operation language of property C18.

  Core Lean only (compiled into the driver).
-/
namespace Ptx.Cont

/-- exception classes (errors.py): DuplicateValueError, MissingValueError, IndexError,
    ValueError, TypeError, KeyError, ValueError('Value conflict …'), AttributeError -/
inductive Exc where
  | duplicate | missing | index | value | type | key | conflict | attr
  deriving DecidableEq, Repr, Inhabited

def Exc.name : Exc → String
  | .duplicate => "Duplicate" | .missing => "Missing" | .index => "Index" | .value => "Value"
  | .type => "Type" | .key => "Key" | .conflict => "Conflict" | .attr => "Attr"

/-- what a call returns (besides mutating) -/
inductive Ret (α C : Type) where
  | unit
  | val (a : α)
  | nat (n : Nat)
  | bool (b : Bool)
  | list (l : List α)
  | cont (c : C)
  deriving DecidableEq, Repr

inductive Out (α C : Type) where
  | ok (r : Ret α C)
  | err (e : Exc)
  deriving DecidableEq, Repr

def Ret.map {α C D : Type} (f : C → D) : Ret α C → Ret α D
  | .unit => .unit | .val a => .val a | .nat n => .nat n | .bool b => .bool b
  | .list l => .list l | .cont c => .cont (f c)

def Out.map {α C D : Type} (f : C → D) : Out α C → Out α D
  | .ok r => .ok (r.map f)
  | .err e => .err e

def Out.isErr {α C : Type} : Out α C → Bool
  | .err _ => true | .ok _ => false

abbrev Res (α C : Type) := C × Out α C

/-! ### positions -/

/-- a subscript `i` on a sequence of length `n` (`absindex(n, i)`, `list[i]`): the position,
    or `none` = IndexError -/
def normIdx (n : Nat) (i : Int) : Option Nat :=
  if i < 0 then (if i.natAbs ≤ n then some (n - i.natAbs) else none)
  else (if i.toNat < n then some i.toNat else none)

/-- the position `list.insert(i, x)` inserts at -/
def clampIdx (n : Nat) (i : Int) : Nat :=
  if i < 0 then n - i.natAbs else min i.toNat n

structure Slice where
  start : Option Int
  stop : Option Int
  step : Option Int
  deriving DecidableEq, Repr

/-- `slice.indices(n)`; `none` = ValueError (step 0).  Transcribed from CPython's
    `PySlice_AdjustIndices`. -/
def Slice.indices (s : Slice) (n : Nat) : Option (Int × Int × Int) :=
  let step := s.step.getD 1
  if step = 0 then none else
  let len : Int := n
  let lo : Int := if step < 0 then -1 else 0
  let hi : Int := if step < 0 then len - 1 else len
  let adj (x : Int) : Int :=
    if x < 0 then (if x + len < lo then lo else x + len) else (if x > hi then hi else x)
  let a := match s.start with | none => (if step < 0 then hi else lo) | some x => adj x
  let b := match s.stop with | none => (if step < 0 then lo else hi) | some x => adj x
  some (a, b, step)

/-- number of elements of `range(a, b, st)` -/
def rangeLen (a b st : Int) : Nat :=
  if st > 0 then (if a < b then ((b - a - 1) / st + 1).toNat else 0)
  else (if b < a then ((a - b - 1) / (-st) + 1).toNat else 0)

/-- the positions `range(*slice.indices(n))`, in range order; `none` = ValueError -/
def sliceIdx (s : Slice) (n : Nat) : Option (List Nat) :=
  match s.indices n with
  | none => none
  | some (a, b, st) => some ((List.range (rangeLen a b st)).map fun (k : Nat) => (a + (k : Int) * st).toNat)

variable {α : Type}

/-- the values at the given positions, in that order -/
def pickAt (l : List α) (idxs : List Nat) : List α := idxs.filterMap (l[·]?)

/-- delete the given positions (positions are counted from `k` at the head) -/
def delAtAux (idxs : List Nat) : Nat → List α → List α
  | _, [] => []
  | k, x :: xs => if k ∈ idxs then delAtAux idxs (k + 1) xs else x :: delAtAux idxs (k + 1) xs

def delAt (l : List α) (idxs : List Nat) : List α := delAtAux idxs 0 l

/-- assign values to positions pairwise (`zip`) -/
def assignAt : List α → List Nat → List α → List α
  | l, i :: is, v :: vs => assignAt (l.set i v) is vs
  | l, _, _ => l

/-- first repeated element of a list, if any -/
def firstRepeat [DecidableEq α] : List α → List α → Option α
  | _, [] => none
  | seen, v :: vs => if v ∈ seen then some v else firstRepeat (v :: seen) vs

/-! ### Python `set` / `dict` key sets, as lists (order never observed) -/

def sadd [DecidableEq α] (s : List α) (v : α) : List α := if v ∈ s then s else s ++ [v]
def sdel [DecidableEq α] (s : List α) (v : α) : List α := s.filter (· ≠ v)
def sdiff [DecidableEq α] (s vs : List α) : List α := s.filter (· ∉ vs)
def supdate [DecidableEq α] (s vs : List α) : List α := vs.foldl sadd s

/-! ### what a container class implements itself -/

structure Prims (C α ρ : Type) where
  /-- `cls()` -/
  empty : C
  len : C → Nat
  /-- `__contains__` -/
  has : C → ρ → Bool
  iter : C → List α
  riter : C → List α
  /-- `__getitem__(int)` -/
  getIdx : C → Int → Except Exc α
  insert : C → Int → α → Res α C
  remove : C → ρ → Res α C
  delIdx : C → Int → Res α C
  delSlice : C → Slice → Res α C
  setIdx : C → Int → α → Res α C
  setSlice : C → Slice → List α → Res α C
  reverse : C → Res α C
  clear : C → Res α C
  copy : C → Res α C
  /-- `none`: the class has no such method (AttributeError) -/
  sort : Option (C → Bool → Res α C)
  wedge : Option (C → α → α → Int → Res α C)
  /-- the key under which `v in c` looks a member up when `v` is an element object -/
  toRef : α → ρ
  /-- the key when `v` is handed over uncast (Predicates: a spec tuple / a name) -/
  rawRef : α → ρ
  /-- Python `elem == arg` as used by `Sequence.index` -/
  refEq : ρ → α → Bool

/-- `SequenceSet.index` (hybrids.py l.56) on top of `Sequence.index`: membership test, then a
    scan `self[0], self[1], …` until IndexError. -/
def seqScan {α ρ : Type} (get : Int → Except Exc α) (eq : ρ → α → Bool) (r : ρ) : Nat → Nat → Except Exc Nat
  | _, 0 => .error .value
  | i, fuel + 1 =>
    match get (i : Int) with
    | .error _ => .error .value
    | .ok v => if eq r v then .ok i else seqScan get eq r (i + 1) fuel

def seqIndex {α ρ : Type} (has : ρ → Bool) (get : Int → Except Exc α) (len : Nat) (eq : ρ → α → Bool) (r : ρ) :
    Except Exc Nat :=
  if !has r then .error .missing else seqScan get eq r 0 len

namespace Mixin
variable {C α ρ : Type} (P : Prims C α ρ)

def index (c : C) (r : ρ) : Except Exc Nat := seqIndex (P.has c) (P.getIdx c) (P.len c) P.refEq r

/-- `MutableSequence.append`: `self.insert(len(self), value)` -/
def append (c : C) (v : α) : Res α C := P.insert c (P.len c) v

/-- `MutableSequenceSet.add`: append, swallowing DuplicateValueError only -/
def add (c : C) (v : α) : Res α C :=
  match append P c v with
  | (c', .err .duplicate) => (c', .ok .unit)
  | r => r

/-- `MutableSequenceSet.discard`: `if value in self: self.remove(value)` -/
def discard (c : C) (v : α) : Res α C :=
  if P.has c (P.toRef v) then P.remove c (P.toRef v) else (c, .ok .unit)

/-- `MutableSequence.pop`: `v = self[i]; del self[i]; return v` -/
def pop (c : C) (i : Int) : Res α C :=
  match P.getIdx c i with
  | .error e => (c, .err e)
  | .ok v =>
    match P.delIdx c i with
    | (c', .ok _) => (c', .ok (.val v))
    | r => r

/-- run a single-element method over the values in order; stop at the first that raises -/
def each (f : C → α → Res α C) : C → List α → Res α C
  | c, [] => (c, .ok .unit)
  | c, v :: vs =>
    match f c v with
    | (c', .ok _) => each f c' vs
    | r => r

/-- `MutableSequence.extend` -/
def extend (c : C) (vs : List α) : Res α C := each (append P) c vs
/-- `MutableSequenceSet.update` and `MutableSet.__ior__` -/
def update (c : C) (vs : List α) : Res α C := each (add P) c vs
/-- `MutableSet.__isub__` -/
def isub (c : C) (vs : List α) : Res α C := each (discard P) c vs

/-- `cls._from_iterable(it)` = `cls(it)` = `update` on a fresh instance; may raise -/
def fromIter (vs : List α) : Except Exc C :=
  match update P P.empty vs with
  | (c, .ok _) => .ok c
  | (_, .err e) => .error e

def pure (c : C) (r : Except Exc C) : Res α C :=
  match r with
  | .ok d => (c, .ok (.cont d))
  | .error e => (c, .err e)

/-- `Set.__or__` / `SequenceSet.__add__`: `_from_iterable(chain(self, other))` -/
def or (c : C) (vs : List α) : Res α C := pure c (fromIter P (P.iter c ++ vs))

/-- `Set.__and__`: `_from_iterable(v for v in other if v in self)` (order of `other`) -/
def and (c : C) (vs : List α) : Res α C :=
  pure c (fromIter P (vs.filter fun v => P.has c (P.rawRef v)))

/-- `Set.__sub__` with a non-Set operand: `other = _from_iterable(other)`, then
    `_from_iterable(v for v in self if v not in other)` -/
def subC (c : C) (vs : List α) : Except Exc C :=
  match fromIter P vs with
  | .error e => .error e
  | .ok o => fromIter P ((P.iter c).filter fun v => !P.has o (P.toRef v))

def sub (c : C) (vs : List α) : Res α C := pure c (subC P c vs)

/-- `Set.__xor__`: `other = _from_iterable(other); (self - other) | (other - self)` -/
def xorC (c : C) (vs : List α) : Except Exc C :=
  match fromIter P vs with
  | .error e => .error e
  | .ok o =>
    match fromIter P ((P.iter c).filter fun v => !P.has o (P.toRef v)) with
    | .error e => .error e
    | .ok a =>
      match fromIter P ((P.iter o).filter fun v => !P.has c (P.toRef v)) with
      | .error e => .error e
      | .ok b => fromIter P (P.iter a ++ P.iter b)

def xor (c : C) (vs : List α) : Res α C := pure c (xorC P c vs)

/-- `MutableSet.__iand__`: `for v in (self - it): self.discard(v)` -/
def iand (c : C) (vs : List α) : Res α C :=
  match subC P c vs with
  | .error e => (c, .err e)
  | .ok d => each (discard P) c (P.iter d)

/-- `MutableSet.__ixor__`: `it = _from_iterable(it)`; members are discarded, others added -/
def ixor (c : C) (vs : List α) : Res α C :=
  match fromIter P vs with
  | .error e => (c, .err e)
  | .ok o => each (fun c v => if P.has c (P.toRef v) then discard P c v else add P c v) c (P.iter o)

end Mixin

/-! ### the operation language -/

inductive Op (α ρ : Type) where
  | append (v : α) | add (v : α) | insert (i : Int) (v : α) | wedge (v nb : α) (rel : Int)
  | remove (r : ρ) | discard (v : α) | pop (i : Int)
  | delIdx (i : Int) | delSlice (s : Slice)
  | setIdx (i : Int) (v : α) | setSlice (s : Slice) (vs : List α)
  | sort (rev : Bool) | reverse | clear | copy
  | extend (vs : List α) | update (vs : List α) | ior (vs : List α)
  | iand (vs : List α) | isub (vs : List α) | ixor (vs : List α)
  | or (vs : List α) | and (vs : List α) | sub (vs : List α) | xor (vs : List α) | plus (vs : List α)
  -- ill-typed arguments: a `str` subscript, an unhashable value, a non-iterable right-hand side
  | setBadKey (v : α) | delBadKey | appendUnhashable | setSliceNonIter (s : Slice)
  -- observers
  | len | contains (r : ρ) | index (r : ρ) | count (r : ρ) | get (i : Int) | iter | reversed
  deriving Repr

/-- operations the property calls bulk: a raise may leave a prefix applied -/
def Op.bulk {α ρ : Type} : Op α ρ → Bool
  | .extend _ | .update _ | .ior _ | .iand _ | .isub _ | .ixor _ => true
  | _ => false

/-- single-element operations -/
def Op.single {α ρ : Type} : Op α ρ → Bool
  | .append _ | .add _ | .insert _ _ | .wedge _ _ _ | .remove _ | .discard _ | .pop _
  | .delIdx _ | .setIdx _ _ | .setBadKey _ | .delBadKey | .appendUnhashable => true
  | _ => false

def step {C α ρ : Type} (P : Prims C α ρ) (c : C) : Op α ρ → Res α C
  | .append v => Mixin.append P c v
  | .add v => Mixin.add P c v
  | .insert i v => P.insert c i v
  | .wedge v nb rel => match P.wedge with | some f => f c v nb rel | none => (c, .err .attr)
  | .remove r => P.remove c r
  | .discard v => Mixin.discard P c v
  | .pop i => Mixin.pop P c i
  | .delIdx i => P.delIdx c i
  | .delSlice s => P.delSlice c s
  | .setIdx i v => P.setIdx c i v
  | .setSlice s vs => P.setSlice c s vs
  | .sort rev => match P.sort with | some f => f c rev | none => (c, .err .attr)
  | .reverse => P.reverse c
  | .clear => P.clear c
  | .copy => P.copy c
  | .extend vs => Mixin.extend P c vs
  | .update vs => Mixin.update P c vs
  | .ior vs => Mixin.update P c vs
  | .iand vs => Mixin.iand P c vs
  | .isub vs => Mixin.isub P c vs
  | .ixor vs => Mixin.ixor P c vs
  | .or vs => Mixin.or P c vs
  | .and vs => Mixin.and P c vs
  | .sub vs => Mixin.sub P c vs
  | .xor vs => Mixin.xor P c vs
  | .plus vs => Mixin.or P c vs
  | .setBadKey _ => (c, .err .type)
  | .delBadKey => (c, .err .type)
  | .appendUnhashable => (c, .err .type)
  | .setSliceNonIter _ => (c, .err .type)
  | .len => (c, .ok (.nat (P.len c)))
  | .contains r => (c, .ok (.bool (P.has c r)))
  | .index r => match Mixin.index P c r with | .ok i => (c, .ok (.nat i)) | .error e => (c, .err e)
  | .count r => (c, .ok (.nat (if P.has c r then 1 else 0)))
  | .get i => match P.getIdx c i with | .ok v => (c, .ok (.val v)) | .error e => (c, .err e)
  | .iter => (c, .ok (.list (P.iter c)))
  | .reversed => (c, .ok (.list (P.riter c)))

/-- a whole operation sequence from a state: final state and the outcomes in order -/
def runFrom {C α ρ : Type} (P : Prims C α ρ) : C → List (Op α ρ) → C × List (Out α C)
  | c, [] => (c, [])
  | c, op :: ops =>
    let r := step P c op
    let t := runFrom P r.1 ops
    (t.1, r.2 :: t.2)

def run {C α ρ : Type} (P : Prims C α ρ) (ops : List (Op α ρ)) : C × List (Out α C) := runFrom P P.empty ops

end Ptx.Cont
