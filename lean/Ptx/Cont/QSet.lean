/-
  Ptx.Cont.QSet — model of `qset` (pytableaux/tools/hybrids.py l.194-340).

  The Python object keeps the same elements twice: `_seq_ : list` (order) and `_set_ : set`
  (membership).  The model keeps both (`seq`, `set`) so that drift between them is expressible;
  nothing here assumes they agree.  `ext` is whatever a subclass maintains through the three
  hooks `_hook_cast / _hook_check / _hook_done` (Predicates: the lookup index); `Hooks.has` is
  `__contains__`, which `Predicates` overrides to consult its index instead of `_set_`.

  Every method mirrors the order of checks and updates of the Python method; a `raise` is
  `Out.err` and returns the state as it is at that point of the real control flow.

  The model mirrors the code WITH the candidate fixes tools/fix_C18_2.diff applied
  (`__setitem_slice__` rejects a value arriving twice).  Core Lean only.
-/
import Ptx.Cont.Basic
namespace Ptx.Cont

structure Hooks (α ρ σ : Type) where
  init : σ
  /-- `value in self` given (ext, `_set_`) -/
  has : σ → List α → ρ → Bool
  /-- `_hook_check(arriving, leaving)`; `some e` = raises -/
  check : σ → List α → List α → Option Exc
  /-- `_hook_done(arriving, leaving)` -/
  done : σ → List α → List α → σ
  /-- subclass part of `clear()` -/
  clear : σ → σ
  toRef : α → ρ
  rawRef : α → ρ
  refEq : ρ → α → Bool
  /-- `_default_sort_key` order -/
  le : α → α → Bool

structure QSet (α σ : Type) where
  seq : List α
  set : List α
  ext : σ
  deriving DecidableEq, Repr

namespace QSet
variable {α ρ σ : Type} [DecidableEq α] (H : Hooks α ρ σ)

def empty : QSet α σ := ⟨[], [], H.init⟩

def has (q : QSet α σ) (r : ρ) : Bool := H.has q.ext q.set r

/-- `qsetf.__getitem__` with an int: `self._seq_[index]` -/
def getIdx (q : QSet α σ) (i : Int) : Except Exc α :=
  match normIdx q.seq.length i with
  | none => .error .index
  | some p => match q.seq[p]? with
    | none => .error .index
    | some v => .ok v

/-- `insert` (l.256): cast; `in self` → Duplicate; hook_check; `_seq_.insert`; `_set_.add`; hook_done -/
def insert (q : QSet α σ) (i : Int) (v : α) : Res α (QSet α σ) :=
  if has H q (H.toRef v) then (q, .err .duplicate) else
  match H.check q.ext [v] [] with
  | some e => (q, .err e)
  | none =>
    ({ seq := q.seq.insertIdx (clampIdx q.seq.length i) v, set := sadd q.set v,
       ext := H.done q.ext [v] [] }, .ok .unit)

/-- `__delitem__` (l.267) with an int key -/
def delIdx (q : QSet α σ) (i : Int) : Res α (QSet α σ) :=
  match normIdx q.seq.length i with
  | none => (q, .err .index)
  | some p => match q.seq[p]? with
    | none => (q, .err .index)
    | some v =>
      match H.check q.ext [] [v] with
      | some e => (q, .err e)
      | none => ({ seq := q.seq.eraseIdx p, set := sdiff q.set [v], ext := H.done q.ext [] [v] }, .ok .unit)

/-- `__delitem__` with a slice: `values = self[key]`; hook_check; `del _seq_[key]`;
    `_set_.difference_update(values)`; hook_done -/
def delSlice (q : QSet α σ) (s : Slice) : Res α (QSet α σ) :=
  match sliceIdx s q.seq.length with
  | none => (q, .err .value)
  | some idxs =>
    let leaving := pickAt q.seq idxs
    match H.check q.ext [] leaving with
    | some e => (q, .err e)
    | none => ({ seq := delAt q.seq idxs, set := sdiff q.set leaving, ext := H.done q.ext [] leaving }, .ok .unit)

/-- `__setitem_index__` (l.290) -/
def setIdx (q : QSet α σ) (i : Int) (v : α) : Res α (QSet α σ) :=
  match normIdx q.seq.length i with
  | none => (q, .err .index)
  | some p => match q.seq[p]? with
    | none => (q, .err .index)
    | some old =>
      if has H q (H.toRef v) && v != old then (q, .err .duplicate) else
      match H.check q.ext [v] [old] with
      | some e => (q, .err e)
      | none =>
        -- `self._set_.remove(old)` raises KeyError when the two structures have drifted
        if old ∉ q.set then (q, .err .key) else
        ({ seq := q.seq.set p v, set := sadd (sdel q.set old) v, ext := H.done q.ext [v] [old] }, .ok .unit)

/-- `__setitem_slice__` (l.308): slicerange (ValueError: step 0 / size mismatch); leaving;
    Duplicate for an arriving member that is not leaving; Duplicate for a value arriving twice
    (fix_C18_2); hook_check; `_set_ -= leaving`; `_seq_[slice] = values`; `_set_ |= values`; hook_done -/
def setSlice (q : QSet α σ) (s : Slice) (vs : List α) : Res α (QSet α σ) :=
  match sliceIdx s q.seq.length with
  | none => (q, .err .value)
  | some idxs =>
    if idxs.length ≠ vs.length then (q, .err .value) else
    let leaving := pickAt q.seq idxs
    if vs.any (fun v => has H q (H.toRef v) && !(leaving.contains v)) then (q, .err .duplicate) else
    if (firstRepeat [] vs).isSome then (q, .err .duplicate) else
    match H.check q.ext vs leaving with
    | some e => (q, .err e)
    | none =>
      ({ seq := assignAt q.seq idxs vs, set := supdate (sdiff q.set leaving) vs,
         ext := H.done q.ext vs leaving }, .ok .unit)

/-- `__setitem_slice__` as it is WITHOUT fix_C18_2: a value arriving twice is not noticed.
    Kept only to state the defect (Props/C18: it breaks the invariant); not used by `prims`. -/
def setSliceUnfixed (q : QSet α σ) (s : Slice) (vs : List α) : Res α (QSet α σ) :=
  match sliceIdx s q.seq.length with
  | none => (q, .err .value)
  | some idxs =>
    if idxs.length ≠ vs.length then (q, .err .value) else
    let leaving := pickAt q.seq idxs
    if vs.any (fun v => has H q (H.toRef v) && !(leaving.contains v)) then (q, .err .duplicate) else
    match H.check q.ext vs leaving with
    | some e => (q, .err e)
    | none =>
      ({ seq := assignAt q.seq idxs vs, set := supdate (sdiff q.set leaving) vs,
         ext := H.done q.ext vs leaving }, .ok .unit)

/-- `sort` (l.245): `list.sort` is stable; `reverse=True` keeps stability -/
def sort (q : QSet α σ) (rev : Bool) : Res α (QSet α σ) :=
  ({ q with seq := if rev then (q.seq.reverse.mergeSort H.le).reverse else q.seq.mergeSort H.le }, .ok .unit)

def reverse (q : QSet α σ) : Res α (QSet α σ) := ({ q with seq := q.seq.reverse }, .ok .unit)

def clear (q : QSet α σ) : Res α (QSet α σ) := (⟨[], [], H.clear q.ext⟩, .ok .unit)

def copy (q : QSet α σ) : Res α (QSet α σ) := (q, .ok .unit)

/-- inherited `MutableSequence.remove`: `del self[self.index(value)]` with `SequenceSet.index` -/
def remove (q : QSet α σ) (r : ρ) : Res α (QSet α σ) :=
  match seqIndex (has H q) (getIdx q) q.seq.length H.refEq r with
  | .error e => (q, .err e)
  | .ok i => delIdx H q i

def prims : Prims (QSet α σ) α ρ where
  empty := empty H
  len q := q.seq.length
  has := has H
  iter q := q.seq
  riter q := q.seq.reverse
  getIdx := getIdx
  insert := insert H
  remove := remove H
  delIdx := delIdx H
  delSlice := delSlice H
  setIdx := setIdx H
  setSlice := setSlice H
  reverse := reverse
  clear := clear H
  copy := copy
  sort := some (sort H)
  wedge := none
  toRef := H.toRef
  rawRef := H.rawRef
  refEq := H.refEq

end QSet

/-- plain `qset`: no subclass state, the hooks do nothing, `in` asks `_set_` -/
def plainHooks (α : Type) [DecidableEq α] (le : α → α → Bool) : Hooks α α Unit where
  init := ()
  has _ set r := set.contains r
  check _ _ _ := none
  done _ _ _ := ()
  clear _ := ()
  toRef v := v
  rawRef v := v
  refEq r v := r == v
  le := le

end Ptx.Cont
