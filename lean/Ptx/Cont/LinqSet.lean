/-
  Ptx.Cont.LinqSet — model of `linqset` (pytableaux/tools/linked.py: `linkseq` l.269-467,
  `linqset` l.469-568).

  The Python object keeps a doubly linked chain of `HashLink`s, a dict `__table : value -> link`
  and a separate counter `__len`.  The model keeps all three: `chain` (the values along the
  chain), `table` (the dict's keys) and `len`, so drift between them is expressible.
  Pointer surgery (`_seed/_spot/_unlink/_link_at`, `Link.invert`) is modelled at list level: a
  link is identified with its position in the chain; that the `prev`/`next` pointers describe
  that list is observed by the correspondence check (forward and reversed iteration,
  `iter_from_value`, table entries being the chain links), not proved.

  The model mirrors the code WITH the candidate fixes tools/fix_C18_1.diff (assigning by
  index / slice re-keys the table: `_assign`) and tools/fix_C18_3.diff (`_hook_check` rejects a
  value arriving twice) applied.  Core Lean only.
-/
import Ptx.Cont.Basic
namespace Ptx.Cont

structure LinqSet (α : Type) where
  chain : List α
  table : List α
  len : Nat
  deriving DecidableEq, Repr

namespace LinqSet
variable {α : Type} [DecidableEq α]

def empty : LinqSet α := ⟨[], [], 0⟩

/-- `__contains__`: `value in self.__table` -/
def has (c : LinqSet α) (v : α) : Bool := c.table.contains v

/-- `LinkSequence.__getitem__` with an int: `_link_at(i).value`.  `absindex` uses the counter;
    a position beyond the chain (only when the counter has drifted) ends in an attribute
    access on `None`. -/
def getIdx (c : LinqSet α) (i : Int) : Except Exc α :=
  match normIdx c.len i with
  | none => .error .index
  | some p => match c.chain[p]? with
    | none => .error .attr
    | some v => .ok v

/-- `linkseq.insert` (l.309): non-strict `absindex`; `_hook_check` → Duplicate; then one of
    seed / append / prepend / in-between, each followed by `len += 1` and `table[value] = link` -/
def insert (c : LinqSet α) (i : Int) (v : α) : Res α (LinqSet α) :=
  let j : Int := if i < 0 then (c.len : Int) + i else i
  if has c v then (c, .err .duplicate) else
  let chain' :=
    if c.len = 0 then [v]
    else if j ≥ (c.len : Int) then c.chain ++ [v]
    else if j ≤ 0 then v :: c.chain
    else c.chain.insertIdx j.toNat v
  ({ chain := chain', table := sadd c.table v, len := c.len + 1 }, .ok .unit)

/-- `linkseq.remove` (l.330): `_unlink(_link_of(value))`; `_link_of` raises MissingValue -/
def remove (c : LinqSet α) (v : α) : Res α (LinqSet α) :=
  if !has c v then (c, .err .missing) else
  ({ chain := c.chain.erase v, table := sdel c.table v, len := c.len - 1 }, .ok .unit)

/-- `__delitem__` with an int: `_unlink(_link_at(i))`; the table entry goes last -/
def delIdx (c : LinqSet α) (i : Int) : Res α (LinqSet α) :=
  match normIdx c.len i with
  | none => (c, .err .index)
  | some p => match c.chain[p]? with
    | none => (c, .err .attr)
    | some v =>
      if v ∈ c.table then ({ chain := c.chain.eraseIdx p, table := sdel c.table v, len := c.len - 1 }, .ok .unit)
      else ({ chain := c.chain.eraseIdx p, table := c.table, len := c.len - 1 }, .err .key)

/-- unlink the links at the given (original) positions one after the other -/
def unlinkEach (c0 : List α) : List Nat → List Nat → List α → Nat → LinqSet α × Option Exc
  | done, [], t, n => (⟨delAt c0 done, t, n⟩, none)
  | done, p :: ps, t, n =>
    match c0[p]? with
    | none => (⟨delAt c0 done, t, n⟩, some .attr)
    | some v =>
      if v ∈ t then unlinkEach c0 (p :: done) ps (sdel t v) (n - 1)
      else (⟨delAt c0 (p :: done), t, n - 1⟩, some .key)

/-- `__delitem__` with a slice: `iter_links_sliced` (positions from `slice.indices(len)`),
    unlinking lazily in range order -/
def delSlice (c : LinqSet α) (s : Slice) : Res α (LinqSet α) :=
  match sliceIdx s c.len with
  | none => (c, .err .value)
  | some idxs =>
    match unlinkEach c.chain [] idxs c.table c.len with
    | (c', none) => (c', .ok .unit)
    | (c', some e) => (c', .err e)

/-- `__setitem__` with an int (l.357 + `_assign`, fix_C18_1): `_link_at`; `_hook_check`
    (Duplicate unless the arriving member is the one leaving); `del table[old]`;
    `link.value = v`; `table[v] = link` -/
def setIdx (c : LinqSet α) (i : Int) (v : α) : Res α (LinqSet α) :=
  match normIdx c.len i with
  | none => (c, .err .index)
  | some p => match c.chain[p]? with
    | none => (c, .err .attr)
    | some old =>
      if has c v && v != old then (c, .err .duplicate) else
      if old ∉ c.table then (c, .err .key) else
      ({ chain := c.chain.set p v, table := sadd (sdel c.table old) v, len := c.len }, .ok .unit)

/-- `__setitem__` with an int as it is WITHOUT fix_C18_1: `departure.value = arrival`, the
    table is not touched.  Kept only to state the defect (Props/C18); not used by `prims`. -/
def setIdxUnfixed (c : LinqSet α) (i : Int) (v : α) : Res α (LinqSet α) :=
  match normIdx c.len i with
  | none => (c, .err .index)
  | some p => match c.chain[p]? with
    | none => (c, .err .attr)
    | some old =>
      if has c v && v != old then (c, .err .duplicate) else
      ({ c with chain := c.chain.set p v }, .ok .unit)

/-- `del table[k]` for each key in order; `error t` = KeyError with the table as left behind -/
def delKeys : List α → List α → Except (List α) (List α)
  | t, [] => .ok t
  | t, k :: ks => if k ∈ t then delKeys (sdel t k) ks else .error t

/-- `__setitem__` with a slice (l.365): slicerange (ValueError); empty range → return;
    `_hook_check(arrivals, self[slice])` (Duplicate: an arriving member that is not leaving;
    a value arriving twice, fix_C18_3); `_assign` (fix_C18_1): drop all leaving keys, assign,
    index all arrivals -/
def setSlice (c : LinqSet α) (s : Slice) (vs : List α) : Res α (LinqSet α) :=
  match sliceIdx s c.len with
  | none => (c, .err .value)
  | some idxs =>
    if idxs.length ≠ vs.length then (c, .err .value) else
    if idxs.isEmpty then (c, .ok .unit) else
    let leaving := pickAt c.chain idxs
    if vs.any (fun v => has c v && !(leaving.contains v)) then (c, .err .duplicate) else
    if (firstRepeat [] vs).isSome then (c, .err .duplicate) else
    match delKeys c.table leaving with
    | .error t => ({ c with table := t }, .err .key)
    | .ok t => ({ chain := assignAt c.chain idxs vs, table := supdate t vs, len := c.len }, .ok .unit)

/-- `linkseq.reverse` (l.388): every link inverted, first/last swapped; the table is untouched -/
def reverse (c : LinqSet α) : Res α (LinqSet α) := ({ c with chain := c.chain.reverse }, .ok .unit)

/-- `wedge` (l.493): `LinkRel(rel)` (ValueError, also for 0); `_link_of(neighbor)` (Missing);
    `value in self` (Duplicate); `_spot` -/
def wedge (c : LinqSet α) (v nb : α) (rel : Int) : Res α (LinqSet α) :=
  if rel ≠ 1 ∧ rel ≠ -1 then (c, .err .value) else
  if !has c nb then (c, .err .missing) else
  if has c v then (c, .err .duplicate) else
  let p := c.chain.idxOf nb
  ({ chain := c.chain.insertIdx (if rel = 1 then p + 1 else p) v, table := sadd c.table v,
     len := c.len + 1 }, .ok .unit)

def clear (_ : LinqSet α) : Res α (LinqSet α) := (empty, .ok .unit)

/-- `copy` (l.291, l.557): fresh links from iteration, the counter copied, the table rebuilt
    from the new links -/
def copy (c : LinqSet α) : Res α (LinqSet α) :=
  ({ chain := c.chain, table := supdate [] c.chain, len := c.len }, .ok .unit)

def prims : Prims (LinqSet α) α α where
  empty := empty
  len c := c.len
  has := has
  iter c := c.chain
  riter c := c.chain.reverse
  getIdx := getIdx
  insert := insert
  remove := remove
  delIdx := delIdx
  delSlice := delSlice
  setIdx := setIdx
  setSlice := setSlice
  reverse := reverse
  clear := clear
  copy := copy
  sort := none
  wedge := some wedge
  toRef v := v
  rawRef v := v
  refEq r v := r == v

end LinqSet
end Ptx.Cont
