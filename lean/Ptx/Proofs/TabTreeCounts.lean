/-
  Ptx.Proofs.TabTreeCounts — whatever `Tree._build` returns (on ANY list of branch records), its
  counters are the recomputed ones: width = number of leaf structures, descendant / structure node
  counts = node totals, depth = number of ancestors, left/right = pre-order numbering, and the
  `distinct_nodes` memo = total number of nodes over all structures.
-/
import Ptx.Tab.Tree
namespace Ptx
namespace TabTree

theorem countsOK_info : ∀ (c : Tree), c.CountsOK →
    c.info.width = c.leafCount ∧ c.info.nodes.length + c.info.dnc = c.nodeTotal ∧ c.info.snc = c.nodeTotal ∧
    c.info.right = c.info.left + 2 * c.size - 1 ∧ 1 ≤ c.size
  | .mk i kids, h => by
    simp only [Tree.CountsOK] at h
    obtain ⟨h1, h2, h3, h4, _⟩ := h
    refine ⟨h1, ?_, h3, h4, ?_⟩
    · simp only [Tree.info, Tree.nodeTotal, h2]
    · simp only [Tree.size]; omega

/-- what one child build is required to deliver -/
def KidQ (D p di : Nat) (c : Tree) (p1 d1 : Nat) : Prop :=
  c.CountsOK ∧ c.info.depth = D ∧ c.info.left = p ∧ c.info.right = p1 ∧ c.info.root = false ∧
    d1 = di + c.nodeTotal

theorem kidsWith_counts {f : List TB → Nat → Nat → Except TreeErr (Tree × Nat × Nat)} {D : Nat}
    (hf : ∀ g p di c p1 d1, f g p di = .ok (c, p1, d1) → KidQ D p di c p1 d1) :
    ∀ (gs : List (List TB)) (pos dist : Nat) (cs : List Tree) (p2 d2 : Nat),
      kidsWith f gs pos dist = .ok (cs, p2, d2) →
      Tree.CountsOKL D (pos + 1) cs ∧ p2 = pos + 2 * Tree.sizeL cs ∧ d2 = dist + Tree.nodeTotalL cs ∧
      (cs.map (·.info.width)).sum = Tree.leafCountL cs ∧
      (cs.map (fun c => c.info.nodes.length + c.info.dnc)).sum = Tree.nodeTotalL cs ∧
      cs.length = gs.length
  | [], pos, dist, cs, p2, d2, h => by
      simp only [kidsWith, Except.ok.injEq, Prod.mk.injEq] at h
      obtain ⟨rfl, rfl, rfl⟩ := h
      simp [Tree.CountsOKL, Tree.sizeL, Tree.nodeTotalL, Tree.leafCountL]
  | g :: gs, pos, dist, cs, p2, d2, h => by
      simp only [kidsWith] at h
      split at h
      · cases h
      · next c p1 d1 hc =>
        split at h
        · cases h
        · next cs' p2' d2' hcs =>
          simp only [Except.ok.injEq, Prod.mk.injEq] at h
          obtain ⟨rfl, rfl, rfl⟩ := h
          obtain ⟨hok, hdep, hleft, hright, hroot, hd1⟩ := hf g (pos + 1) dist c p1 d1 hc
          obtain ⟨ih1, ih2, ih3, ih4, ih5, ih6⟩ := kidsWith_counts hf gs p1 d1 cs' p2' d2' hcs
          obtain ⟨c1, c2, _, c4, c5⟩ := countsOK_info c hok
          refine ⟨?_, ?_, ?_, ?_, ?_, ?_⟩
          · simp only [Tree.CountsOKL]
            refine ⟨hok, hdep, hleft, hroot, ?_⟩
            rw [hright]; exact ih1
          · simp only [Tree.sizeL]
            rw [hleft] at c4; rw [c4] at hright
            omega
          · simp only [Tree.nodeTotalL]; omega
          · simp only [List.map_cons, List.sum_cons, Tree.leafCountL, ih4, c1]
          · simp only [List.map_cons, List.sum_cons, Tree.nodeTotalL, ih5, c2]
          · simp [ih6]

/-- the counters of every structure `_build` returns are the recomputed ones -/
theorem buildF_counts : ∀ (f : Nat) (brs : List TB) (d sd pos dist : Nat) (root : Bool) (tr : Tree) (pos' dist' : Nat),
    buildF f brs d sd pos dist root = .ok (tr, pos', dist') →
    tr.CountsOK ∧ tr.info.depth = sd ∧ tr.info.left = pos ∧ tr.info.right = pos' ∧ tr.info.root = root ∧
      dist' = dist + tr.nodeTotal ∧ tr.info.distinctNodes = (if root then some dist' else none)
  | 0, _, _, _, _, _, _, _, _, _, h => by simp [buildF] at h
  | f + 1, brs, d, sd, pos, dist, root, tr, pos', dist', h => by
      simp only [buildF] at h
      split at h
      · cases h
      · next sc hsc =>
        split at h
        · -- leaf
          next b =>
          simp only [Except.ok.injEq, Prod.mk.injEq] at h
          obtain ⟨rfl, rfl, rfl⟩ := h
          simp [Tree.CountsOK, Tree.CountsOKL, Tree.leafCount, Tree.leafCountL, Tree.nodeTotal, Tree.nodeTotalL,
            Tree.size, Tree.sizeL, Tree.info]
        · split at h
          · cases h
          · split at h
            · cases h
            · next kids p2 d2 hk =>
              split at h
              · cases h
              · simp only [Except.ok.injEq, Prod.mk.injEq] at h
                obtain ⟨rfl, rfl, rfl⟩ := h
                have hf : ∀ g p di c p1 d1,
                    (fun g p di => buildF f g sc.depth (sd + 1) p di false) g p di = .ok (c, p1, d1) →
                    KidQ (sd + 1) p di c p1 d1 := by
                  intro g p di c p1 d1 hc
                  obtain ⟨a1, a2, a3, a4, a5, a6, _⟩ := buildF_counts f g sc.depth (sd + 1) p di false c p1 d1 hc
                  exact ⟨a1, a2, a3, a4, a5, a6⟩
                obtain ⟨k1, k2, k3, k4, k5, _⟩ := kidsWith_counts hf _ _ _ _ _ _ hk
                refine ⟨?_, rfl, rfl, rfl, rfl, ?_, rfl⟩
                · simp only [Tree.CountsOK, Tree.leafCount, Tree.nodeTotal, Tree.size]
                  refine ⟨by simp [k4], k5, by rw [k5]; omega, by omega, k1⟩
                · simp only [Tree.nodeTotal]; omega

theorem build_counts {bk : Book} {tr : Tree} (h : Tree.build bk = .ok tr) :
    tr.CountsOK ∧ tr.info.depth = 0 ∧ tr.info.left = 1 ∧ tr.info.root = true ∧
      tr.info.distinctNodes = some tr.nodeTotal := by
  unfold Tree.build at h
  split at h
  · cases h
  · next t p d hb =>
    cases h
    obtain ⟨a1, a2, a3, _, a5, a6, a7⟩ := buildF_counts _ _ _ _ _ _ _ _ _ _ hb
    refine ⟨a1, a2, a3, a5, ?_⟩
    rw [a7, a6]; simp

mutual
/-- as many leaf paths as leaf structures -/
theorem leafPaths_length : ∀ (t : Tree), t.leafPaths.length = t.leafCount
  | .mk i kids => by
    simp only [Tree.leafPaths, Tree.leafCount, List.length_append, List.length_map, leafPathsL_length kids]
    split <;> simp
theorem leafPathsL_length : ∀ (ts : List Tree), (Tree.leafPathsL ts).length = Tree.leafCountL ts
  | [] => rfl
  | c :: cs => by
    simp only [Tree.leafPathsL, Tree.leafCountL, List.length_append, leafPaths_length c, leafPathsL_length cs]
end

end TabTree
end Ptx
