/-
  C12, standard notation: `StandardParser` reads back every rendering (`Renders`) of a sentence
  of its language.  Core Lean only.

    scanParen_rendersIn   the paren scan-ahead passes over an inner rendering at any depth ≥ 1
    readStd_renders       the generalised induction statement (continuation `rest`, binders,
                          store) for `_read`
    parseStandard_renders the public entry point, with the `drop_parens` retry
-/
import Ptx.Proofs.LangStdRender
namespace Ptx.Parse
open Ptx Ptx.Sym Ptx.Write

/-! ### the scan-ahead of `_read_from_paren_open` -/

/-- no character of `x` is a parenthesis or a binary operator -/
def Plain (t : ParseTable) (x : List Chr) : Prop :=
  ∀ c ∈ x, t.lookup c ≠ some .parenOpen ∧ t.lookup c ≠ some .parenClose ∧ ∀ o, t.lookup c ≠ some (.op2 o)

def Tok.isPlain : Tok → Bool
  | .parenOpen | .parenClose | .op2 _ => false
  | _ => true

theorem Plain.nil (t : ParseTable) : Plain t [] := by intro c h; cases h

theorem Plain.cons {t : ParseTable} {c : Chr} {k : Tok} {x : List Chr} (hk : t.lookup c = some k)
    (hp : Tok.isPlain k = true) (hx : Plain t x) : Plain t (c :: x) := by
  intro c' hc'
  simp only [List.mem_cons] at hc'
  rcases hc' with rfl | h
  · rw [hk]
    cases k <;> simp_all [Tok.isPlain]
  · exact hx c' h

theorem Plain.append {t : ParseTable} {x y : List Chr} (hx : Plain t x) (hy : Plain t y) : Plain t (x ++ y) := by
  intro c hc
  simp only [List.mem_append] at hc
  rcases hc with h | h
  · exact hx c h
  · exact hy c h

theorem Ws.plain {t : ParseTable} {w : List Chr} (hw : Ws t w) : Plain t w := by
  intro c hc
  rw [hw c hc]
  simp

theorem DigitsR.plain {t : ParseTable} {ds : List Nat} {x : List Chr} (h : DigitsR t ds x) : Plain t x := by
  induction h with
  | nil => exact Plain.nil t
  | cons hc hw _ ih => exact Plain.cons hc rfl (hw.plain.append ih)

theorem SubR.plain {t : ParseTable} {limit n : Nat} {x : List Chr} (h : SubR t limit n x) : Plain t x := by
  cases h with
  | mk hd _ => exact hd.plain

theorem ParamR.plain {t : ParseTable} {limit : Nat} {p : Param} {x : List Chr} (h : ParamR t limit p x) :
    Plain t x := by
  cases h with
  | const hc hw hs => exact Plain.cons hc rfl (hw.plain.append hs.plain)
  | var hc hw hs => exact Plain.cons hc rfl (hw.plain.append hs.plain)

theorem ParamsR.plain {t : ParseTable} {limit : Nat} {ps : List Param} {x : List Chr}
    (h : ParamsR t limit ps x) : Plain t x := by
  induction h with
  | nil => exact Plain.nil t
  | cons hp _ ih => exact hp.plain.append ih

theorem PredSymR.plain {t : ParseTable} {limit : Nat} {p : Pred} {x : List Chr} (h : PredSymR t limit p x) :
    Plain t x := by
  cases h with
  | sys hc hw => exact Plain.cons hc rfl hw.plain
  | user hc hw hs => exact Plain.cons hc rfl (hw.plain.append hs.plain)

theorem scanParen_plain {t : ParseTable} {x : List Chr} (hx : Plain t x) (d : Nat) (f : Option (Op2 × Nat))
    (r : List Chr) : scanParen t d f (x ++ r) = scanParen t d f r := by
  induction x with
  | nil => rfl
  | cons c x ih =>
    have hc := hx c (by simp)
    have hx' : Plain t x := fun a ha => hx a (by simp [ha])
    simp only [List.cons_append]
    rw [scanParen.eq_def]
    simp only
    split
    · rename_i h; exact absurd h hc.2.1
    · rename_i h; exact absurd h hc.1
    · rename_i o h; exact absurd h (hc.2.2 o)
    · exact ih hx'

theorem scanParen_cons_plain {t : ParseTable} {c : Chr} {k : Tok} (hk : t.lookup c = some k)
    (hp : Tok.isPlain k = true) (d : Nat) (f : Option (Op2 × Nat)) (r : List Chr) :
    scanParen t d f (c :: r) = scanParen t d f r :=
  scanParen_plain (Plain.cons hk hp (Plain.nil t)) d f r

/-- the scan passes over an inner rendering at any depth ≥ 1: its parentheses are balanced and
    all its binary operators are at depth ≥ 2 -/
theorem scanParen_rendersIn {t : ParseTable} {limit : Nat} {s : Sent} {x : List Chr}
    (h : RendersIn t limit s x) : ∀ (d : Nat) (f : Option (Op2 × Nat)) (r : List Chr), 1 ≤ d →
    scanParen t d f (x ++ r) = scanParen t d f r := by
  induction h with
  | atom hc hw hs =>
    intro d f r _
    exact scanParen_plain (Plain.cons hc rfl (hw.plain.append hs.plain)) d f r
  | predPrefix hp hps =>
    intro d f r _
    exact scanParen_plain (hp.plain.append hps.plain) d f r
  | predInfix _ ha hw hp hps =>
    intro d f r _
    exact scanParen_plain (ha.plain.append (hw.plain.append (hp.plain.append hps.plain))) d f r
  | quant hc hw hcv hw' hs _ ih =>
    intro d f r hd
    simp only [List.cons_append, List.append_assoc]
    rw [scanParen_cons_plain hc rfl, scanParen_plain hw.plain, scanParen_cons_plain hcv rfl,
      scanParen_plain hw'.plain, scanParen_plain hs.plain, ih d f r hd]
  | op1 hc hw _ ih =>
    intro d f r hd
    simp only [List.cons_append, List.append_assoc]
    rw [scanParen_cons_plain hc rfl, scanParen_plain hw.plain, ih d f r hd]
  | op2 hpo hw0 _ hw1 hco hw2 _ hw3 hpc hw4 iha ihb =>
    rename_i po co pc o a b w0 x w1 w2 y w3 w4 _ _
    intro d f r hd
    simp only [List.cons_append, List.append_assoc]
    have e1 : ∀ r', scanParen t d f (po :: r') = scanParen t (d + 1) f r' := by
      intro r'; rw [scanParen.eq_def]; simp only [hpo]
    rw [e1, scanParen_plain hw0.plain, iha (d + 1) f _ (by omega), scanParen_plain hw1.plain]
    have e2 : ∀ r', scanParen t (d + 1) f (co :: r') = scanParen t (d + 1) f r' := by
      intro r'; rw [scanParen.eq_def]; simp only [hco]
      rw [if_neg (by omega)]
    rw [e2, scanParen_plain hw2.plain, ihb (d + 1) f _ (by omega), scanParen_plain hw3.plain]
    have e3 : ∀ r', scanParen t (d + 1) f (pc :: r') = scanParen t d f r' := by
      intro r'; rw [scanParen.eq_def]; simp only [hpc]
      rw [if_neg (by omega), Nat.add_sub_cancel]
    rw [e3, scanParen_plain hw4.plain]

/-! ### heads -/

/-- the characters an inner rendering can start with -/
def Tok.isStdStart : Tok → Bool
  | .op1 _ | .quant _ | .sysPred _ | .pred _ | .atom _ | .const _ | .var _ | .parenOpen => true
  | _ => false

theorem predSymR_head {t : ParseTable} {limit : Nat} {p : Pred} {x : List Chr} (h : PredSymR t limit p x) :
    ∃ c tl k, x = c :: tl ∧ t.lookup c = some k ∧ k.isPred = true := by
  cases h with
  | sys hc _ => exact ⟨_, _, _, rfl, hc, rfl⟩
  | user hc _ _ => exact ⟨_, _, _, rfl, hc, rfl⟩

theorem rendersIn_head {t : ParseTable} {limit : Nat} {s : Sent} {x : List Chr} (h : RendersIn t limit s x) :
    ∃ c tl k, x = c :: tl ∧ t.lookup c = some k ∧ Tok.isStdStart k = true := by
  cases h with
  | atom hc _ _ => exact ⟨_, _, _, rfl, hc, rfl⟩
  | predPrefix hp _ =>
    obtain ⟨c, tl, k, h1, h2, h3⟩ := predSymR_head hp
    refine ⟨c, _, k, by rw [h1]; rfl, h2, ?_⟩
    cases k <;> simp_all [Tok.isPred, Tok.isStdStart]
  | predInfix _ ha _ _ _ =>
    obtain ⟨c, tl, k, h1, h2, h3⟩ := paramR_head ha
    refine ⟨c, _, k, by rw [h1]; rfl, h2, ?_⟩
    cases k <;> simp_all [Tok.isParam, Tok.isStdStart]
  | quant hc _ _ _ _ _ => exact ⟨_, _, _, rfl, hc, rfl⟩
  | op1 hc _ _ => exact ⟨_, _, _, rfl, hc, rfl⟩
  | op2 hc _ _ _ _ _ _ _ _ _ => exact ⟨_, _, _, rfl, hc, rfl⟩

theorem chomp_rendersIn {t : ParseTable} {limit : Nat} {s : Sent} {x : List Chr} (h : RendersIn t limit s x)
    (r : List Chr) : chomp t (x ++ r) = x ++ r := by
  obtain ⟨c, tl, k, h1, h2, h3⟩ := rendersIn_head h
  rw [h1]
  apply chomp_cons_of_ne
  rw [h2]
  intro e
  cases e
  simp [Tok.isStdStart] at h3

theorem stopsD_rendersIn {t : ParseTable} {limit : Nat} {s : Sent} {x : List Chr} (h : RendersIn t limit s x)
    (r : List Chr) : StopsD t (x ++ r) := by
  obtain ⟨c, tl, k, h1, h2, h3⟩ := rendersIn_head h
  rw [h1]
  apply stopsD_cons _ h2
  · intro e; subst e; simp [Tok.isStdStart] at h3
  · cases k <;> simp_all [Tok.isStdStart, Tok.isDigit]

theorem stopsD_predSymR {t : ParseTable} {limit : Nat} {p : Pred} {x : List Chr} (h : PredSymR t limit p x)
    (r : List Chr) : StopsD t (x ++ r) := by
  obtain ⟨c, tl, k, h1, h2, h3⟩ := predSymR_head h
  rw [h1]
  apply stopsD_cons _ h2
  · intro e; subst e; simp [Tok.isPred] at h3
  · cases k <;> simp_all [Tok.isPred, Tok.isDigit]

theorem chomp_predSymR {t : ParseTable} {limit : Nat} {p : Pred} {x : List Chr} (h : PredSymR t limit p x)
    (r : List Chr) : chomp t (x ++ r) = x ++ r := by
  obtain ⟨c, tl, k, h1, h2, h3⟩ := predSymR_head h
  rw [h1]
  apply chomp_cons_of_ne
  rw [h2]
  intro e
  cases e
  simp [Tok.isPred] at h3

/-! ### predications -/

/-- `_read_predicate` on a predicate symbol of a well-formed predication -/
theorem readPredicate_R {cfg : Cfg} {p : Pred} {x : List Chr}
    (h : PredSymR cfg.table cfg.intMaxDigits p x) (r : List Chr) (b : List Var) (store : Store)
    (hr : StopsD cfg.table r) :
    readPredicate cfg ⟨x ++ r, b, store⟩ =
      .ok (if p.index < 0 then .inl p else
            match store.get p.index.toNat p.sub with
            | some q => .inl q
            | none => .inr (p.index.toNat, p.sub))
        ⟨chomp cfg.table r, b, store⟩ := by
  cases h with
  | sys hc hw =>
    rename_i c sp w
    have hneg : sp.toPred.index < 0 := by cases sp <;> simp [SysPred.toPred, Pred.identity, Pred.existence]
    simp only [List.cons_append, readPredicate, hc, advance, List.tail_cons, chomp_ws hw, hneg, if_true]
  | user hc hw hs =>
    rename_i c i u a w x
    have hneg : ¬ ((i : Int) < 0) := by omega
    simp only [List.cons_append, List.append_assoc, readPredicate, hc,
      readCoords_R hc rfl hw hs r b store hr, Res.andThen_ok, hneg, if_false, Int.toNat_natCast]
    cases store.get i u <;> rfl

/-- the store part shared by prefix and infix predications: what `readPredicate` finds for the
    predicate of a predication the store is compatible with -/
theorem predicate_found {cfg : Cfg} {p : Pred} {ps : List Param} {store : Store}
    (hst : StoreCompat cfg store (.pred p ps)) :
    (p.index < 0) ∨ (¬ p.index < 0 ∧ store.get p.index.toNat p.sub = some p) ∨
      (¬ p.index < 0 ∧ store.get p.index.toNat p.sub = none ∧ cfg.autoPreds = true ∧ store.frozen = false) := by
  simp only [StoreCompat] at hst
  by_cases hneg : p.index < 0
  · exact Or.inl hneg
  · rcases hst with h | h | h
    · exact absurd h hneg
    · exact Or.inr (Or.inl ⟨hneg, h⟩)
    · exact Or.inr (Or.inr ⟨hneg, h⟩)

theorem declare_ok {cfg : Cfg} (p : Pred) (ps : List Param) (st : PState)
    (hidx : 0 ≤ p.index ∧ p.index ≤ (cfg.maxi.pred : Int)) (hlen : ps.length = p.arity) (hpos : 0 < p.arity)
    (hnone : st.store.get p.index.toNat p.sub = none) (hfro : st.store.frozen = false) :
    declare cfg (p.index.toNat, p.sub) ps st
      = .ok (.pred p ps) { st with store := { st.store with preds := st.store.preds ++ [p] } } := by
  have hl0 : ¬ (ps.length = 0 ∨ p.index.toNat > cfg.maxi.pred) := by
    intro hh
    rcases hh with hh | hh <;> omega
  have hfind : st.store.preds.find? (fun q => q.index == ((p.index.toNat : Nat) : Int) && q.sub == p.sub) = none := hnone
  have hpe : (⟨((p.index.toNat : Nat) : Int), p.sub, ps.length⟩ : Pred) = p := by
    cases p with
    | mk i u a =>
      simp only at hlen hidx ⊢
      rw [hlen]
      congr
      omega
  simp only [declare, hl0, if_false, Store.add, hfro, hfind, Bool.false_eq_true, hpe]

theorem predOK_user {m : MaxIdx} {p : Pred} (h : predOK m p = true) (hneg : ¬ p.index < 0) :
    0 ≤ p.index ∧ p.index ≤ (m.pred : Int) ∧ 0 < p.arity := by
  rcases predOK_cases h with h | h | h
  · subst h; simp [Pred.identity] at hneg
  · subst h; simp [Pred.existence] at hneg
  · exact h

theorem readPredicated_R {cfg : Cfg} {p : Pred} {ps : List Param} {x y : List Chr}
    (hx : PredSymR cfg.table cfg.intMaxDigits p x) (hy : ParamsR cfg.table cfg.intMaxDigits ps y)
    (r : List Chr) (b : List Var) (store : Store)
    (hwf : wfIn cfg.maxi b (.pred p ps) = true) (hst : StoreCompat cfg store (.pred p ps))
    (hr : Stops cfg.table r) :
    readPredicated cfg ⟨(x ++ y) ++ r, b, store⟩
      = .ok (.pred p ps) ⟨chomp cfg.table r, b, storeAfter store (.pred p ps)⟩ := by
  simp only [wfIn, Bool.and_eq_true, beq_iff_eq] at hwf
  obtain ⟨⟨hpok, hlen⟩, hps⟩ := hwf
  have hstD := stopsD_paramsR hy r hr.stopsD
  have hrp := readParams_R hy r b store hr.stopsD hps
  rw [hlen] at hrp
  simp only [readPredicated, List.append_assoc, readPredicate_R hx (y ++ r) b store hstD, Res.andThen_ok]
  rcases predicate_found hst with hneg | ⟨hneg, hget⟩ | ⟨hneg, hget, hauto, hfro⟩
  · simp [hneg, hrp, storeAfter]
  · simp [hneg, hget, hrp, storeAfter]
  · have hu := predOK_user hpok hneg
    have hauto' := readParamsAuto_R hy r b store hr hps (chomp cfg.table (y ++ r)).length (by
      by_cases hne : ps = []
      · subst hne; simp
      · rw [chomp_paramsR hy hne]
        have := paramsR_length hy
        simp only [List.length_append]
        omega)
    simp only [hneg, if_false, hget, hauto, Bool.not_true, Bool.false_eq_true, hauto', Res.andThen_ok]
    rw [declare_ok p ps _ ⟨hu.1, hu.2.1⟩ hlen hu.2.2 hget hfro]
    simp [storeAfter, hneg, hget]

theorem readInfix_R {cfg : Cfg} {p : Pred} {a : Param} {ps : List Param} {x w y z : List Chr}
    (hne : ps ≠ []) (ha : ParamR cfg.table cfg.intMaxDigits a x) (hw : Ws cfg.table w)
    (hy : PredSymR cfg.table cfg.intMaxDigits p y) (hz : ParamsR cfg.table cfg.intMaxDigits ps z)
    (r : List Chr) (b : List Var) (store : Store)
    (hwf : wfIn cfg.maxi b (.pred p (a :: ps)) = true) (hst : StoreCompat cfg store (.pred p (a :: ps)))
    (hr : Stops cfg.table r) :
    readInfix cfg ⟨(x ++ (w ++ (y ++ z))) ++ r, b, store⟩
      = .ok (.pred p (a :: ps)) ⟨chomp cfg.table r, b, storeAfter store (.pred p (a :: ps))⟩ := by
  simp only [wfIn, Bool.and_eq_true, beq_iff_eq, List.all_cons, List.length_cons] at hwf
  obtain ⟨⟨hpok, hlen⟩, hpa, hps⟩ := hwf
  have hstD := stopsD_paramsR hz r hr.stopsD
  have hrp := readParams_R hz r b store hr.stopsD hps
  have hpl : 0 < ps.length := by
    cases ps with
    | nil => contradiction
    | cons _ _ => simp
  have hl1 : ps.length = p.arity - 1 := by omega
  rw [hl1] at hrp
  obtain ⟨cy, tly, ky, hy1, hy2, hy3⟩ := predSymR_head hy
  have hsd : StopsD cfg.table (w ++ (y ++ (z ++ r))) := stopsD_ws hw (stopsD_predSymR hy _)
  have hch : chomp cfg.table (w ++ (y ++ (z ++ r))) = y ++ (z ++ r) := by
    rw [chomp_ws hw, chomp_predSymR hy]
  have hrd := readPredicate_R hy (z ++ r) b store hstD
  simp only [readInfix, List.append_assoc, readParameter_R ha _ b store hpa hsd, Res.andThen_ok, hch]
  rw [hy1] at hrd ⊢
  simp only [List.cons_append] at hrd ⊢
  simp only [hy2, hy3, if_true, hrd, Res.andThen_ok]
  rcases predicate_found hst with hneg | ⟨hneg, hget⟩ | ⟨hneg, hget, hauto, hfro⟩
  · have : ¬ p.arity < 2 := by omega
    simp [hneg, this, hrp, storeAfter]
  · have : ¬ p.arity < 2 := by omega
    simp [hneg, hget, this, hrp, storeAfter]
  · have hu := predOK_user hpok hneg
    have hauto' := readParamsAuto_R hz r b store hr hps (chomp cfg.table (z ++ r)).length (by
      rw [chomp_paramsR hz hne]
      have := paramsR_length hz
      simp only [List.length_append]
      omega)
    have h2 : ¬ ps.length + 1 < 2 := by omega
    simp only [hneg, if_false, hget, hauto, Bool.not_true, Bool.false_eq_true, hauto', Res.andThen_ok, h2]
    rw [declare_ok p (a :: ps) _ ⟨hu.1, hu.2.1⟩ (by simpa using hlen) hu.2.2 hget hfro]
    simp [storeAfter, hneg, hget]

/-! ### sentences -/

/-- THE standard round-trip lemma: reading an inner rendering of a sentence of the language,
    followed by anything that does not continue a subscript or a parameter list, returns the
    sentence, consumes exactly the rendering (and following whitespace), restores `bound`, and
    declares the new predicates. -/
theorem readStd_renders {cfg : Cfg} {s : Sent} {x : List Chr}
    (h : RendersIn cfg.table cfg.intMaxDigits s x) :
    ∀ (fuel : Nat) (b : List Var) (store : Store) (r : List Chr),
    depth s ≤ fuel → wfIn cfg.maxi b s = true → StoreCompat cfg store s → Stops cfg.table r →
    readStd cfg fuel ⟨x ++ r, b, store⟩ = .ok s ⟨chomp cfg.table r, b, storeAfter store s⟩ := by
  induction h with
  | atom hc hw hs =>
    rename_i c i u w x
    intro fuel b store r hf hwf _ hr
    cases fuel with
    | zero => simp [depth] at hf
    | succ f =>
      have hi : ¬ i > cfg.maxi.atom := by simp [wfIn] at hwf; omega
      simp only [List.cons_append, List.append_assoc, readStd, hc, readAtomic,
        readCoords_R hc rfl hw hs r b store hr.stopsD, Res.andThen_ok]
      simp [hi, storeAfter]
  | predPrefix hp hps =>
    intro fuel b store r hf hwf hst hr
    cases fuel with
    | zero => simp [depth] at hf
    | succ f =>
      have hrd := readPredicated_R hp hps r b store hwf hst hr
      obtain ⟨c, tl, k, h1, h2, h3⟩ := predSymR_head hp
      rw [h1] at hrd ⊢
      simp only [List.cons_append] at hrd ⊢
      cases k <;> simp [Tok.isPred] at h3 <;> simp only [readStd, h2] <;> exact hrd
  | predInfix hne ha hw hp hps =>
    intro fuel b store r hf hwf hst hr
    cases fuel with
    | zero => simp [depth] at hf
    | succ f =>
      have hrd := readInfix_R hne ha hw hp hps r b store hwf hst hr
      obtain ⟨c, tl, k, h1, h2, h3⟩ := paramR_head ha
      rw [h1] at hrd ⊢
      simp only [List.cons_append] at hrd ⊢
      cases k <;> simp [Tok.isParam] at h3 <;> simp only [readStd, h2] <;> exact hrd
  | quant hc hw hcv hw' hs hbody ih =>
    rename_i c cv q vi vs body w w' x y
    intro fuel b store r hf hwf hst hr
    cases fuel with
    | zero => simp [depth] at hf
    | succ f =>
      simp only [wfIn, Bool.and_eq_true, decide_eq_true_eq, Bool.not_eq_true', decide_eq_false_iff_not] at hwf
      obtain ⟨⟨⟨hvi, hnb⟩, hocc⟩, hwfb⟩ := hwf
      have hstopB := stopsD_rendersIn hbody r
      have hchB := chomp_rendersIn hbody r
      have hco := readCoords_R hcv rfl hw' hs (y ++ r) b store hstopB
      have hcv' : chomp cfg.table (w ++ (cv :: (w' ++ (x ++ (y ++ r))))) = cv :: (w' ++ (x ++ (y ++ r))) := by
        rw [chomp_ws hw]; apply chomp_cons_of_ne; rw [hcv]; simp
      have hih := ih f ((vi, vs) :: b) store r (by simp [depth] at hf; omega) hwfb hst hr
      have hvi' : ¬ vi > cfg.maxi.var := by omega
      simp only [List.cons_append, List.append_assoc, readStd, hc, readQuantified, advance, List.tail_cons,
        hcv', hcv, hco, Res.andThen_ok, hchB, hih]
      simp [hvi', hnb, hocc, storeAfter]
  | op1 hc hw ha ih =>
    rename_i c o a w x
    intro fuel b store r hf hwf hst hr
    cases fuel with
    | zero => simp [depth] at hf
    | succ f =>
      have hwfa : wfIn cfg.maxi b a = true := by simpa [wfIn] using hwf
      have hih := ih f b store r (by simp [depth] at hf; omega) hwfa hst hr
      simp only [List.cons_append, List.append_assoc, readStd, hc, advance, List.tail_cons, chomp_ws hw,
        chomp_rendersIn ha, hih, Res.andThen_ok, storeAfter]
  | op2 hpo hw0 ha hw1 hco hw2 hb hw3 hpc hw4 iha ihb =>
    rename_i po co pc o a c w0 x w1 w2 y w3 w4
    intro fuel b store r hf hwf hst hr
    cases fuel with
    | zero => simp [depth] at hf
    | succ f =>
      simp only [wfIn, Bool.and_eq_true] at hwf
      simp only [StoreCompat] at hst
      have hda : depth a ≤ f := by simp [depth] at hf; omega
      have hdc : depth c ≤ f := by simp [depth] at hf; omega
      -- the scan-ahead finds the operator
      have hscan : scanParen cfg.table 1 none
          (w0 ++ (x ++ (w1 ++ (co :: (w2 ++ (y ++ (w3 ++ (pc :: (w4 ++ r)))))))))
          = .done (some (o, (w2 ++ (y ++ (w3 ++ (pc :: (w4 ++ r))))).length + 1)) := by
        rw [scanParen_plain hw0.plain, scanParen_rendersIn ha 1 _ _ (Nat.le_refl 1), scanParen_plain hw1.plain]
        rw [scanParen.eq_def]
        simp only [hco, if_true]
        rw [scanParen_plain hw2.plain, scanParen_rendersIn hb 1 _ _ (Nat.le_refl 1), scanParen_plain hw3.plain]
        rw [scanParen.eq_def]
        simp only [hpc, Nat.le_refl, if_true]
      have hcoK : ∀ tl, Stops cfg.table (co :: tl) := fun tl =>
        stops_cons tl hco (by simp) rfl rfl
      have hpcK : ∀ tl, Stops cfg.table (pc :: tl) := fun tl =>
        stops_cons tl hpc (by simp) rfl rfl
      have hcoC : ∀ tl, chomp cfg.table (co :: tl) = co :: tl := fun tl => by
        apply chomp_cons_of_ne; rw [hco]; simp
      have hpcC : ∀ tl, chomp cfg.table (pc :: tl) = pc :: tl := fun tl => by
        apply chomp_cons_of_ne; rw [hpc]; simp
      have hiha := iha f b store (w1 ++ (co :: (w2 ++ (y ++ (w3 ++ (pc :: (w4 ++ r)))))))
        hda hwf.1 hst.1 (stops_ws hw1 (hcoK _))
      have hihb := ihb f b (storeAfter store a) (w3 ++ (pc :: (w4 ++ r))) hdc hwf.2 hst.2
        (stops_ws hw3 (hpcK _))
      simp only [List.cons_append, List.append_assoc, readStd, hpo, hscan, advance, List.tail_cons,
        chomp_ws hw0, chomp_rendersIn ha, hiha, Res.andThen_ok, chompSt, chomp_ws hw1, hcoC,
        List.length_cons, chomp_ws hw2, chomp_rendersIn hb, hihb, chomp_ws hw3, hpcC, chomp_ws hw4]
      simp [hpc, storeAfter]

/-! ### `StandardParser.__call__` -/

/-- a predicate symbol that the store knows stays known, and nothing is appended for it -/
theorem storeAfter_get_mono (s : Sent) : ∀ (st : Store) (i u : Nat),
    (st.get i u).isSome = true → ((storeAfter st s).get i u).isSome = true := by
  induction s with
  | atom _ _ => intro st i u h; exact h
  | pred p ps =>
    intro st i u h
    simp only [storeAfter]
    split
    · exact h
    · split
      · exact h
      · simp only [Store.get, List.find?_append, Option.isSome_or, Bool.or_eq_true] at h ⊢
        exact Or.inl h
  | quant _ _ _ b ih => intro st i u h; exact ih st i u h
  | op1 _ a ih => intro st i u h; exact ih st i u h
  | op2 _ a c iha ihc => intro st i u h; exact ihc _ i u (iha st i u h)

/-- all user predicate symbols of `s` are known to the store -/
def KnownPreds (st : Store) : Sent → Prop
  | .atom _ _ => True
  | .pred p _ => p.index < 0 ∨ (st.get p.index.toNat p.sub).isSome = true
  | .quant _ _ _ b => KnownPreds st b
  | .op1 _ a => KnownPreds st a
  | .op2 _ a c => KnownPreds st a ∧ KnownPreds st c

theorem storeAfter_of_known (s : Sent) : ∀ st : Store, KnownPreds st s → storeAfter st s = st := by
  induction s with
  | atom _ _ => intro st _; rfl
  | pred p ps =>
    intro st h
    simp only [KnownPreds] at h
    simp only [storeAfter]
    rcases h with h | h
    · simp [h]
    · split
      · rfl
      · cases hg : st.get p.index.toNat p.sub with
        | none => rw [hg] at h; cases h
        | some q => rfl
  | quant _ _ _ b ih => intro st h; exact ih st h
  | op1 _ a ih => intro st h; exact ih st h
  | op2 _ a c iha ihc =>
    intro st h
    simp only [storeAfter]
    rw [iha st h.1, ihc st h.2]

theorem knownPreds_mono (s t : Sent) : ∀ st : Store, KnownPreds st s → KnownPreds (storeAfter st t) s := by
  induction s with
  | atom _ _ => intro st _; trivial
  | pred p ps =>
    intro st h
    simp only [KnownPreds] at h ⊢
    rcases h with h | h
    · exact Or.inl h
    · exact Or.inr (storeAfter_get_mono t st _ _ h)
  | quant _ _ _ b ih => intro st h; exact ih st h
  | op1 _ a ih => intro st h; exact ih st h
  | op2 _ a c iha ihc => intro st h; exact ⟨iha st h.1, ihc st h.2⟩

theorem knownPreds_storeAfter (s : Sent) : ∀ st : Store, KnownPreds (storeAfter st s) s := by
  induction s with
  | atom _ _ => intro st; trivial
  | pred p ps =>
    intro st
    simp only [KnownPreds, storeAfter]
    by_cases hneg : p.index < 0
    · exact Or.inl hneg
    · right
      simp only [hneg, if_false]
      cases hg : st.get p.index.toNat p.sub with
      | some q => simp [hg]
      | none =>
        simp only [Store.get, List.find?_append, Option.isSome_or, Bool.or_eq_true]
        right
        have : ((p.index.toNat : Nat) : Int) = p.index := by omega
        simp [this]
  | quant _ _ _ b ih => intro st; exact ih st
  | op1 _ a ih => intro st; exact ih st
  | op2 _ a c iha ihc =>
    intro st
    exact ⟨knownPreds_mono a c _ (iha st), ihc _⟩

/-- reading a sentence a second time declares nothing new -/
theorem storeAfter_idem (s : Sent) (st : Store) : storeAfter (storeAfter st s) s = storeAfter st s :=
  storeAfter_of_known s _ (knownPreds_storeAfter s st)

/-- the parse table has characters for both parentheses (what `table.reversed[...]` finds) and
    they are read back as parentheses -/
def ParensOK (t : ParseTable) : Bool :=
  match t.charOf? .parenOpen, t.charOf? .parenClose with
  | some po, some pc => t.lookup po == some .parenOpen && t.lookup pc == some .parenClose
  | _, _ => false

theorem callDefault_rendersIn {cfg : Cfg} {s : Sent} {x w w' : List Chr}
    (h : RendersIn cfg.table cfg.intMaxDigits s x) (hw : Ws cfg.table w) (hw' : Ws cfg.table w')
    (fuel : Nat) (store : Store)
    (hf : depth s ≤ fuel) (hwf : WF cfg.maxi s = true) (hst : StoreCompat cfg store s) :
    callDefault cfg (readStd cfg) fuel store (w ++ (x ++ w')) = .ok s (storeAfter store s) := by
  have hch : chomp cfg.table w' = [] := by
    have := chomp_ws hw' []
    simpa [chomp] using this
  have hstop : Stops cfg.table w' := by simp [Stops, hch]
  simp only [callDefault, chomp_ws hw, chomp_rendersIn h,
    readStd_renders h fuel [] store w' hf hwf hst hstop, exitCtx, hch, chomp, if_true, guard]

/-- an inner rendering (all parentheses written), leading and trailing whitespace: read at the
    first attempt, whatever the parser's `drop_parens` option -/
theorem parseStandard_rendersIn {cfg : Cfg} {s : Sent} {x w w' : List Chr}
    (h : RendersIn cfg.table cfg.intMaxDigits s x) (hw : Ws cfg.table w) (hw' : Ws cfg.table w')
    (hauto : cfg.autoPreds = true)
    (fuel : Nat) (store : Store) (hf : depth s ≤ fuel) (hwf : WF cfg.maxi s = true)
    (hfro : store.frozen = false) (hcons : ConsistentPreds (store.preds ++ userPreds s)) :
    parseStandard cfg fuel store (w ++ (x ++ w')) = .ok s (storeAfter store s) := by
  have hst := (storeCompat_of_consistent cfg hauto s store hfro hcons).1
  simp only [parseStandard, callDefault_rendersIn h hw hw' fuel store hf hwf hst]

/-- C12, standard notation, any parse table: every rendering of a sentence of the language is
    parsed back to the sentence.  With the outer parentheses dropped the first attempt fails
    after having read (and declared the predicates of) the left operand; the retry reads
    `(` + input + `)` on the store the first attempt left. -/
theorem parseStandard_renders {cfg : Cfg} {s : Sent} {str : List Chr}
    (h : Renders cfg.table cfg.intMaxDigits s str) (hparens : ParensOK cfg.table = true)
    (hdrop : cfg.dropParens = true) (hauto : cfg.autoPreds = true)
    (fuel : Nat) (store : Store) (hf : depth s ≤ fuel) (hwf : WF cfg.maxi s = true)
    (hfro : store.frozen = false) (hcons : ConsistentPreds (store.preds ++ userPreds s)) :
    parseStandard cfg fuel store str = .ok s (storeAfter store s) := by
  cases h with
  | inner hw hx =>
    have hst := (storeCompat_of_consistent cfg hauto s store hfro hcons).1
    have := callDefault_rendersIn hx hw (Ws.nil _) fuel store hf hwf hst
    simp only [List.append_nil] at this
    simp only [parseStandard, this]
  | dropped hw hx hw1 hco hw2 hy =>
    rename_i co o a c w x w1 w2 y
    simp only [userPreds] at hcons
    obtain ⟨hsta, hfroa, hsuba⟩ := storeCompat_of_consistent cfg hauto a store hfro
      (hcons.mono (by intro p hp; simp at hp ⊢; grind))
    have hwf' : wfIn cfg.maxi [] a = true ∧ wfIn cfg.maxi [] c = true := by
      simpa [WF, wfIn] using hwf
    have hda : depth a ≤ fuel := by simp [depth] at hf; omega
    -- first attempt: reads `a`, then `close()` finds the operator
    have hstop : Stops cfg.table (w1 ++ (co :: (w2 ++ y))) :=
      stops_ws hw1 (stops_cons _ hco (by simp) rfl rfl)
    have hch1 : chomp cfg.table (w1 ++ (co :: (w2 ++ y))) = co :: (w2 ++ y) := by
      rw [chomp_ws hw1]; apply chomp_cons_of_ne; rw [hco]; simp
    have h1 : callDefault cfg (readStd cfg) fuel store (w ++ (x ++ (w1 ++ (co :: (w2 ++ y)))))
        = .perr (storeAfter store a) := by
      simp only [callDefault, chomp_ws hw, chomp_rendersIn hx,
        readStd_renders hx fuel [] store _ hda hwf'.1 hsta hstop, exitCtx, hch1]
      have hcc : chomp cfg.table (co :: (w2 ++ y)) = co :: (w2 ++ y) := by
        apply chomp_cons_of_ne; rw [hco]; simp
      simp [guard, hcc]
    -- the retry
    unfold ParensOK at hparens
    cases hpo : cfg.table.charOf? .parenOpen with
    | none => simp [hpo] at hparens
    | some po =>
      cases hpc : cfg.table.charOf? .parenClose with
      | none => simp [hpo, hpc] at hparens
      | some pc =>
        simp only [hpo, hpc, Bool.and_eq_true, beq_iff_eq] at hparens
        have hcons2 : ConsistentPreds ((storeAfter store a).preds ++ userPreds (.op2 o a c)) := by
          apply hcons.mono
          intro p hp
          simp only [List.mem_append, userPreds] at hp ⊢
          rcases hp with hp | hp | hp
          · have := hsuba p hp
            simp only [List.mem_append] at this
            rcases this with h | h
            · exact Or.inl h
            · exact Or.inr (Or.inl h)
          · exact Or.inr (Or.inl hp)
          · exact Or.inr (Or.inr hp)
        have hst2 := (storeCompat_of_consistent cfg hauto (.op2 o a c) (storeAfter store a) hfroa hcons2).1
        have hin : RendersIn cfg.table cfg.intMaxDigits (.op2 o a c)
            (po :: (w ++ (x ++ (w1 ++ (co :: (w2 ++ (y ++ ([] ++ (pc :: [])))))))))  :=
          RendersIn.op2 hparens.1 hw hx hw1 hco hw2 hy (Ws.nil _) hparens.2 (Ws.nil _)
        have h2 := callDefault_rendersIn hin (Ws.nil _) (Ws.nil _) fuel (storeAfter store a) hf hwf hst2
        simp only [List.nil_append, List.append_nil] at h2
        have hshape : po :: ((w ++ (x ++ (w1 ++ (co :: (w2 ++ y))))) ++ [pc])
            = po :: (w ++ (x ++ (w1 ++ (co :: (w2 ++ (y ++ [pc])))))) := by
          simp
        simp only [parseStandard, h1, hdrop, if_true, hpo, hpc, hshape, h2]
        simp only [storeAfter, storeAfter_idem]

end Ptx.Parse
