/-
  Ptx.Proofs.LibModelOrderFin — the order of successful calls does not matter, part 2:
  `_complete_frames` maps models with the same content to models with the same content (the content
  of the completed model is a function of the content before: `cfHas`).
-/
import Ptx.Proofs.LibModelOrder
namespace Ptx.LibModel
open Ptx

/-! ### association lists -/

section assoc
variable {κ β : Type} [DecidableEq κ] [BEq κ] [LawfulBEq κ]

theorem lookup_none_iff_not_mem : ∀ {l : List (κ × β)} {k : κ}, l.lookup k = none ↔ k ∉ akeys l
  | [], k => by simp [akeys]
  | (k', v) :: r, k => by
      simp only [List.lookup, akeys, List.map_cons, List.mem_cons, not_or]
      by_cases h : k = k'
      · subst h; simp
      · have : (k == k') = false := by simpa using h
        simp only [this, h, not_false_eq_true, true_and]
        exact lookup_none_iff_not_mem (l := r)

theorem mem_akeys_iff_lookup {l : List (κ × β)} {k : κ} : k ∈ akeys l ↔ ∃ v, l.lookup k = some v := by
  constructor
  · intro h
    cases hl : l.lookup k with
    | none => exact absurd h (lookup_none_iff_not_mem.1 hl)
    | some v => exact ⟨v, rfl⟩
  · rintro ⟨v, hv⟩; exact mem_akeys_of_lookup hv

theorem lookup_ainsNew {l : List (κ × β)} {k k' : κ} {d v : β} :
    (ainsNew l k d).lookup k' = some v ↔ l.lookup k' = some v ∨ (k' ∉ akeys l ∧ k' = k ∧ v = d) := by
  unfold ainsNew
  split
  · next h =>
    have hk : k ∈ akeys l := lookup_isSome_iff.1 h
    constructor
    · exact Or.inl
    · rintro (h1 | ⟨h1, rfl, _⟩)
      · exact h1
      · exact absurd hk h1
  · next h =>
    have hk : k ∉ akeys l := fun hm => h (lookup_isSome_iff.2 hm)
    rw [List.lookup_append]
    cases hl : l.lookup k' with
    | some x =>
      have := mem_akeys_of_lookup hl
      simp only [Option.some_or, Option.some.injEq]
      constructor
      · exact Or.inl
      · rintro (h1 | ⟨h1, _⟩)
        · exact h1
        · exact absurd this h1
    | none =>
      have hn := lookup_none_iff_not_mem.1 hl
      by_cases hkk : k' = k
      · subst hkk
        simp only [Option.none_or, List.lookup, beq_self_eq_true, Option.some.injEq, reduceCtorEq, false_or, hn,
          not_false_eq_true, true_and]
        exact eq_comm
      · have : (k' == k) = false := by simpa using hkk
        simp [List.lookup, this, hkk]

theorem lookup_foldl_ainsNew (d : β) : ∀ (ks : List κ) (l : List (κ × β)) (k' : κ) (v : β),
    (ks.foldl (fun l k => ainsNew l k d) l).lookup k' = some v ↔
      l.lookup k' = some v ∨ (k' ∉ akeys l ∧ k' ∈ ks ∧ v = d)
  | [], l, k', v => by simp
  | k :: ks, l, k', v => by
      simp only [List.foldl_cons]
      rw [lookup_foldl_ainsNew d ks, lookup_ainsNew, mem_akeys_ainsNew]
      simp only [List.mem_cons, not_or]
      constructor
      · rintro ((h | ⟨h1, h2, h3⟩) | ⟨⟨h1, _⟩, h2, h3⟩)
        · exact Or.inl h
        · exact Or.inr ⟨h1, Or.inl h2, h3⟩
        · exact Or.inr ⟨h1, Or.inr h2, h3⟩
      · rintro (h | ⟨h1, h2 | h2, h3⟩)
        · exact Or.inl (Or.inl h)
        · exact Or.inl (Or.inr ⟨h1, h2, h3⟩)
        · by_cases hk : k' = k
          · exact Or.inl (Or.inr ⟨h1, hk, h3⟩)
          · exact Or.inr ⟨⟨h1, hk⟩, h2, h3⟩

theorem getD_lookup_foldl_ainsNew (d : β) (ks : List κ) (l : List (κ × β)) (k' : κ) :
    ((ks.foldl (fun l k => ainsNew l k d) l).lookup k').getD d = (l.lookup k').getD d := by
  cases h : (ks.foldl (fun l k => ainsNew l k d) l).lookup k' with
  | some v =>
    rcases (lookup_foldl_ainsNew d ks l k' v).1 h with h1 | ⟨h1, _, h3⟩
    · simp [h1]
    · simp [lookup_none_iff_not_mem.2 h1, h3]
  | none =>
    cases h' : l.lookup k' with
    | none => rfl
    | some v =>
      have := (lookup_foldl_ainsNew d ks l k' v).2 (Or.inl h')
      rw [h] at this; cases this

theorem lookup_map_snd {γ : Type} (g : β → γ) : ∀ (l : List (κ × β)) (k : κ),
    (l.map fun wf => (wf.1, g wf.2)).lookup k = (l.lookup k).map g
  | [], _ => rfl
  | (k', v) :: r, k => by
      cases h : (k == k') <;> simp [List.lookup, h, lookup_map_snd g r k]

theorem lookup_of_mem_nodup : ∀ {l : List (κ × β)} {k : κ} {v : β}, (akeys l).Nodup → (k, v) ∈ l → l.lookup k = some v
  | [], _, _, _, hm => by cases hm
  | (k', v') :: r, k, v, hnd, hm => by
      simp only [akeys, List.map_cons, List.nodup_cons] at hnd
      rcases List.mem_cons.1 hm with h | h
      · cases h; simp [List.lookup]
      · have hk : k ∈ akeys r := List.mem_map.2 ⟨(k, v), h, rfl⟩
        have hne : k ≠ k' := fun e => hnd.1 (e ▸ hk)
        have : (k == k') = false := by simpa using hne
        simp only [List.lookup, this]
        exact lookup_of_mem_nodup hnd.2 h

omit [BEq κ] [LawfulBEq κ] in
theorem sub_foldl_ainsNew (d : β) : ∀ (ks : List κ) (l : List (κ × β)) (x : κ × β),
    x ∈ l → x ∈ ks.foldl (fun l k => ainsNew l k d) l
  | [], _, _, h => h
  | k :: ks, l, x, h => by
      simp only [List.foldl_cons]
      apply sub_foldl_ainsNew d ks
      unfold ainsNew
      split
      · exact h
      · exact List.mem_append_left _ h

end assoc

theorem mem_foldl_uni {α γ : Type} [DecidableEq α] (g : γ → List α) : ∀ (l : List γ) (init : List α) (x : α),
    x ∈ l.foldl (fun acc y => uni acc (g y)) init ↔ x ∈ init ∨ ∃ y ∈ l, x ∈ g y
  | [], init, x => by simp
  | y :: l, init, x => by
      simp only [List.foldl_cons, List.mem_cons, exists_eq_or_imp]
      rw [mem_foldl_uni g l, mem_uni, or_assoc]

theorem opt_ext {α : Type} {a b : Option α} (h : ∀ v, a = some v ↔ b = some v) : a = b := by
  cases a with
  | none =>
    cases b with
    | none => rfl
    | some y => have := (h y).2 rfl; cases this
  | some x => exact ((h x).1 rfl).symm

theorem empty_has (ψ : FFact) : ¬ ({} : Frame).has ψ := by
  cases ψ <;> simp [Frame.has, Frame.interp, akeys]

theorem frameD_of_not_mem {m : Model} {w : Nat} (h : w ∉ akeys m.frames) : frameD m w = {} := by
  unfold frameD
  rw [lookup_none_iff_not_mem.2 h]; rfl

/-! ### `_complete_frames`, piece by piece -/

def cfFrames0 (m : Model) : List (Nat × Frame) := m.R.keys.foldl (fun fs w => ainsNew fs w ({} : Frame)) m.frames
def cfAtoms (m : Model) : List (Nat × Nat) := (cfFrames0 m).foldl (fun acc wf => uni acc (akeys wf.2.atomics)) m.sAtoms
def cfOpaques (m : Model) : List Sent := (cfFrames0 m).foldl (fun acc wf => uni acc (akeys wf.2.opaques)) ([] : List Sent)
def cfPreds (m : Model) : List Pred := (cfFrames0 m).foldl (fun acc wf => uni acc (akeys wf.2.preds)) m.sPreds
def cfFrame (L : LogicData) (m : Model) (f : Frame) : Frame :=
  { atomics := fillMissing (cfAtoms m) L.T.unassigned f.atomics
    opaques := fillMissing (cfOpaques m) L.T.unassigned f.opaques
    preds := (cfPreds m).foldl (fun ps p => ainsNew ps p []) f.preds }

theorem completeFrames_eq {L : LogicData} {m m' : Model} (hfc : m.frameComplete = false)
    (h : completeFrames L m = .ok m') :
    m' = { m with frames := (cfFrames0 m).map fun wf => (wf.1, cfFrame L m wf.2),
                  R := (akeys (cfFrames0 m)).foldl Acc.touch m.R, frameComplete := true } := by
  unfold completeFrames at h
  simp only [hfc, Bool.false_eq_true, ↓reduceIte] at h
  split at h
  · cases h
  simp only [Except.ok.injEq] at h
  subst h
  rfl

theorem mem_akeys_cfFrames0 (m : Model) (w : Nat) : w ∈ akeys (cfFrames0 m) ↔ w ∈ akeys m.frames ∨ w ∈ m.R.keys :=
  mem_akeys_foldl_ainsNew ({} : Frame) m.R.keys m.frames w

theorem lookup_cfFrames0 {m : Model} {w : Nat} {g : Frame} (h : (cfFrames0 m).lookup w = some g) : g = frameD m w := by
  rcases (lookup_foldl_ainsNew ({} : Frame) m.R.keys m.frames w g).1 h with h1 | ⟨h1, _, h3⟩
  · simp [frameD, h1]
  · rw [frameD_of_not_mem h1, h3]

/-- a frame property that the empty frame lacks holds of a frame of `cfFrames0` iff it holds of a frame the
    model has somewhere -/
theorem exists_cfFrames0 {m : Model} (hFK : m.FK) (P : Frame → Prop) (hP : ¬ P {}) :
    (∃ wf ∈ cfFrames0 m, P wf.2) ↔ ∃ w, P (frameD m w) := by
  constructor
  · rintro ⟨wf, hwf, hp⟩
    rcases mem_foldl_ainsNew ({} : Frame) _ _ wf hwf with h | h
    · refine ⟨wf.1, ?_⟩
      have := lookup_of_mem_nodup hFK (k := wf.1) (v := wf.2) h
      simp only [frameD, this, Option.getD_some]
      exact hp
    · rw [h] at hp; exact absurd hp hP
  · rintro ⟨w, hp⟩
    cases hl : m.frames.lookup w with
    | none =>
      simp only [frameD, hl, Option.getD_none] at hp
      exact absurd hp hP
    | some f =>
      simp only [frameD, hl, Option.getD_some] at hp
      exact ⟨(w, f), sub_foldl_ainsNew _ _ _ _ (lookup_mem hl), hp⟩

theorem mem_cfAtoms {m : Model} (hFK : m.FK) (a : Nat × Nat) :
    a ∈ cfAtoms m ↔ m.has (.sAtom a) ∨ ∃ w v, m.has (.at w (.atom a v)) := by
  unfold cfAtoms
  rw [mem_foldl_uni, exists_cfFrames0 hFK (fun f => a ∈ akeys f.atomics) (by simp [akeys])]
  simp only [Model.has, Frame.has, mem_akeys_iff_lookup]

theorem mem_cfOpaques {m : Model} (hFK : m.FK) (s : Sent) :
    s ∈ cfOpaques m ↔ ∃ w v, m.has (.at w (.opq s v)) := by
  unfold cfOpaques
  rw [mem_foldl_uni, exists_cfFrames0 hFK (fun f => s ∈ akeys f.opaques) (by simp [akeys])]
  simp only [Model.has, Frame.has, mem_akeys_iff_lookup, List.not_mem_nil, false_or]

theorem mem_cfPreds {m : Model} (hFK : m.FK) (p : Pred) :
    p ∈ cfPreds m ↔ m.has (.sPred p) ∨ ∃ w, m.has (.at w (.hasPred p)) := by
  unfold cfPreds
  rw [mem_foldl_uni, exists_cfFrames0 hFK (fun f => p ∈ akeys f.preds) (by simp [akeys])]
  simp only [Model.has, Frame.has]

/-- the content of the completed model as a function of the content before -/
def cfHas (m : Model) (un : V) : Fact → Prop
  | .frame w => m.has (.frame w) ∨ m.has (.key w)
  | .key w => m.has (.frame w) ∨ m.has (.key w)
  | .at w (.atom a v) => m.has (.at w (.atom a v)) ∨
      ((m.has (.frame w) ∨ m.has (.key w)) ∧ (∀ v', ¬ m.has (.at w (.atom a v'))) ∧
        (m.has (.sAtom a) ∨ ∃ w' v', m.has (.at w' (.atom a v'))) ∧ v = un)
  | .at w (.opq s v) => m.has (.at w (.opq s v)) ∨
      ((m.has (.frame w) ∨ m.has (.key w)) ∧ (∀ v', ¬ m.has (.at w (.opq s v'))) ∧
        (∃ w' v', m.has (.at w' (.opq s v'))) ∧ v = un)
  | .at w (.hasPred p) => m.has (.at w (.hasPred p)) ∨
      ((m.has (.frame w) ∨ m.has (.key w)) ∧ (m.has (.sPred p) ∨ ∃ w', m.has (.at w' (.hasPred p))))
  | .at w (.pred p t v) => m.has (.at w (.pred p t v))
  | .const c => m.has (.const c)
  | .sAtom a => m.has (.sAtom a)
  | .sPred p => m.has (.sPred p)
  | .pair p => m.has (.pair p)

theorem cfHas_congr {m₁ m₂ : Model} (h : ∀ φ, m₁.has φ ↔ m₂.has φ) (un : V) (φ : Fact) :
    cfHas m₁ un φ ↔ cfHas m₂ un φ := by
  cases φ with
  | «at» w ψ => cases ψ <;> simp only [cfHas, h]
  | _ => simp only [cfHas, h]

theorem frameD_complete {L : LogicData} {m m' : Model} (hfc : m.frameComplete = false)
    (h : completeFrames L m = .ok m') (w : Nat) :
    frameD m' w = if w ∈ akeys m.frames ∨ w ∈ m.R.keys then cfFrame L m (frameD m w) else {} := by
  rw [completeFrames_eq hfc h]
  simp only [frameD, lookup_map_snd]
  cases hl : (cfFrames0 m).lookup w with
  | some g =>
    have hw := (mem_akeys_cfFrames0 m w).1 (mem_akeys_of_lookup hl)
    have hg := lookup_cfFrames0 hl
    simp only [hw, ↓reduceIte, Option.map_some, Option.getD_some, hg, frameD]
  | none =>
    have hw : ¬ (w ∈ akeys m.frames ∨ w ∈ m.R.keys) := fun h' =>
      lookup_none_iff_not_mem.1 hl ((mem_akeys_cfFrames0 m w).2 h')
    simp only [hw, ↓reduceIte, Option.map_none, Option.getD_none]

theorem cfFrame_has {L : LogicData} {m : Model} (hFK : m.FK) (w : Nat) (ψ : FFact) :
    (cfFrame L m (frameD m w)).has ψ ↔
      match ψ with
      | .atom a v => m.has (.at w (.atom a v)) ∨ ((∀ v', ¬ m.has (.at w (.atom a v'))) ∧
          (m.has (.sAtom a) ∨ ∃ w' v', m.has (.at w' (.atom a v'))) ∧ v = L.T.unassigned)
      | .opq s v => m.has (.at w (.opq s v)) ∨ ((∀ v', ¬ m.has (.at w (.opq s v'))) ∧
          (∃ w' v', m.has (.at w' (.opq s v'))) ∧ v = L.T.unassigned)
      | .hasPred p => m.has (.at w (.hasPred p)) ∨ (m.has (.sPred p) ∨ ∃ w', m.has (.at w' (.hasPred p)))
      | .pred p t v => m.has (.at w (.pred p t v)) := by
  cases ψ with
  | atom a v =>
    simp only [Frame.has, cfFrame, fillMissing, Model.has]
    rw [lookup_foldl_ainsNew, mem_cfAtoms hFK]
    simp only [mem_akeys_iff_lookup, not_exists, Model.has, Frame.has]
  | opq s v =>
    simp only [Frame.has, cfFrame, fillMissing, Model.has]
    rw [lookup_foldl_ainsNew, mem_cfOpaques hFK]
    simp only [mem_akeys_iff_lookup, not_exists, Model.has, Frame.has]
  | hasPred p =>
    simp only [Frame.has, cfFrame, Model.has]
    rw [mem_akeys_foldl_ainsNew, mem_cfPreds hFK]
    simp only [Model.has, Frame.has]
  | pred p t v =>
    simp only [Frame.has, cfFrame, Model.has, Frame.interp]
    rw [getD_lookup_foldl_ainsNew]

/-- the content of the model `_complete_frames` produces -/
theorem completeFrames_has {L : LogicData} {m m' : Model} (hfc : m.frameComplete = false) (hFK : m.FK)
    (h : completeFrames L m = .ok m') :
    (∀ φ, m'.has φ ↔ cfHas m L.T.unassigned φ) ∧ m'.finished = m.finished ∧ m'.frameComplete = true := by
  obtain ⟨k1, k2, k3⟩ := completeFrames_keys h hfc
  refine ⟨?_, (completeFrames_consts h).2, by rw [completeFrames_eq hfc h]⟩
  intro φ
  cases φ with
  | frame w => simp only [Model.has, cfHas]; exact k1 w
  | key w => simp only [Model.has, cfHas]; rw [k2, k1]
  | pair p => simp only [Model.has, cfHas]; rw [k3]
  | const c => simp only [Model.has, cfHas]; rw [(completeFrames_consts h).1]
  | sAtom a => simp only [Model.has, cfHas]; rw [completeFrames_eq hfc h]
  | sPred p => simp only [Model.has, cfHas]; rw [completeFrames_eq hfc h]
  | «at» w ψ =>
    have hD := frameD_complete hfc h w
    show (frameD m' w).has ψ ↔ _
    rw [hD]
    by_cases hw : w ∈ akeys m.frames ∨ w ∈ m.R.keys
    · simp only [hw, ↓reduceIte]
      rw [cfFrame_has hFK]
      cases ψ <;> simp only [cfHas, Model.has, hw, true_and]
    · simp only [hw, ↓reduceIte]
      have hno : ∀ ψ', ¬ m.has (.at w ψ') := by
        intro ψ'
        simp only [Model.has]
        rw [frameD_of_not_mem (fun h' => hw (Or.inl h'))]
        exact empty_has ψ'
      have hw' : ¬ (m.has (.frame w) ∨ m.has (.key w)) := hw
      constructor
      · intro h'; exact absurd h' (empty_has ψ)
      · intro h'
        exfalso
        cases ψ <;> simp only [cfHas, hno, hw', false_and, or_false] at h'

/-- `_complete_frames` respects sameness of content -/
theorem completeFrames_eqv {L : LogicData} {m₁ m₂ m₁' : Model} (heq : m₁.Eqv m₂) (hFK₁ : m₁.FK) (hFK₂ : m₂.FK)
    (h : completeFrames L m₁ = .ok m₁') : ∃ m₂', completeFrames L m₂ = .ok m₂' ∧ m₁'.Eqv m₂' := by
  cases hfc : m₁.frameComplete with
  | true =>
    have hfc₂ : m₂.frameComplete = true := heq.frameComplete ▸ hfc
    unfold completeFrames at h ⊢
    simp only [hfc, ↓reduceIte, Except.ok.injEq] at h
    subst h
    exact ⟨m₂, by simp [hfc₂], heq⟩
  | false =>
    have hfc₂ : m₂.frameComplete = false := heq.frameComplete ▸ hfc
    have hany : (m₂.R.keys.any (· != 0)) = (m₁.R.keys.any (· != 0)) := by
      rw [Bool.eq_iff_iff]
      simp only [List.any_eq_true]
      constructor
      · rintro ⟨x, hx, h'⟩; exact ⟨x, (heq.has (.key x)).2 hx, h'⟩
      · rintro ⟨x, hx, h'⟩; exact ⟨x, (heq.has (.key x)).1 hx, h'⟩
    have hex : ∃ m₂', completeFrames L m₂ = .ok m₂' := by
      unfold completeFrames at h ⊢
      simp only [hfc, hfc₂, Bool.false_eq_true, ↓reduceIte, hany] at h ⊢
      split at h
      · cases h
      · next hc => simp only [hc, Bool.false_eq_true, ↓reduceIte]; exact ⟨_, rfl⟩
    obtain ⟨m₂', h₂⟩ := hex
    obtain ⟨a1, a2, a3⟩ := completeFrames_has hfc hFK₁ h
    obtain ⟨b1, b2, b3⟩ := completeFrames_has hfc₂ hFK₂ h₂
    refine ⟨m₂', h₂, ?_, a3.trans b3.symm, ?_⟩
    · rw [a2, b2]; exact heq.finished
    · intro φ
      rw [a1, b1]
      exact cfHas_congr heq.has _ φ

end Ptx.LibModel
