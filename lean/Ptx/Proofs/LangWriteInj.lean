/-
  Token-level injectivity of the Polish writer (C12).  Core Lean only.
  A sentence is *constructible* when Python can build it: predicates applied to exactly their
  arity of parameters and `predOK` (system predicates are exactly Identity / Existence).
-/
import Ptx.Lang.Write
import Ptx.Lang.ParseWF
namespace Ptx.Write
open Ptx Ptx.Sym Ptx.Parse

def WTok.isCont : WTok → Bool
  | .sub _ | .const _ | .var _ => true
  | _ => false

def WTok.isSub : WTok → Bool
  | .sub _ => true
  | _ => false

/-- the rest does not continue a parameter list or a subscript -/
def TStops (r : List WTok) : Prop := ∀ t ∈ r.head?, WTok.isCont t = false
def NoSub (r : List WTok) : Prop := ∀ t ∈ r.head?, WTok.isSub t = false

theorem TStops.noSub {r : List WTok} (h : TStops r) : NoSub r := by
  intro t ht
  have := h t ht
  cases t <;> simp_all [WTok.isCont, WTok.isSub]

theorem subToks_inj {u1 u2 : Nat} {r1 r2 : List WTok} (h : subToks u1 ++ r1 = subToks u2 ++ r2)
    (h1 : NoSub r1) (h2 : NoSub r2) : u1 = u2 ∧ r1 = r2 := by
  unfold subToks at h
  by_cases a : u1 = 0 <;> by_cases b : u2 = 0 <;> simp only [a, b, if_true, if_false] at h
  · exact ⟨by omega, by simpa using h⟩
  · simp at h
    subst h
    have := h1 (.sub u2) (by simp)
    simp [WTok.isSub] at this
  · simp at h
    subst h
    have := h2 (.sub u1) (by simp)
    simp [WTok.isSub] at this
  · simp at h
    exact h

theorem paramToks_inj {p1 p2 : Param} {r1 r2 : List WTok} (h : paramToks p1 ++ r1 = paramToks p2 ++ r2)
    (h1 : NoSub r1) (h2 : NoSub r2) : p1 = p2 ∧ r1 = r2 := by
  cases p1 <;> cases p2 <;> simp only [paramToks, List.cons_append, List.cons.injEq, WTok.const.injEq,
    WTok.var.injEq, reduceCtorEq, false_and] at h
  · obtain ⟨hi, ht⟩ := h
    obtain ⟨hu, hr⟩ := subToks_inj ht h1 h2
    exact ⟨by rw [hi, hu], hr⟩
  · obtain ⟨hi, ht⟩ := h
    obtain ⟨hu, hr⟩ := subToks_inj ht h1 h2
    exact ⟨by rw [hi, hu], hr⟩

theorem paramToks_head (p : Param) : ∃ t tl, paramToks p = t :: tl ∧ WTok.isCont t = true ∧ WTok.isSub t = false := by
  cases p <;> exact ⟨_, _, rfl, rfl, rfl⟩

theorem paramsToks_cons' (p : Param) (ps : List Param) : paramsToks (p :: ps) = paramToks p ++ paramsToks ps := by
  simp [paramsToks]

theorem noSub_params (ps : List Param) (r : List WTok) (h : NoSub r) : NoSub (paramsToks ps ++ r) := by
  cases ps with
  | nil => simpa [paramsToks] using h
  | cons p ps =>
    obtain ⟨t, tl, h1, _, h3⟩ := paramToks_head p
    rw [paramsToks_cons', h1]
    intro t' ht'
    simp at ht'
    subst ht'
    exact h3

theorem paramsToks_inj : ∀ (ps1 ps2 : List Param) (r1 r2 : List WTok),
    paramsToks ps1 ++ r1 = paramsToks ps2 ++ r2 → TStops r1 → TStops r2 → ps1 = ps2 ∧ r1 = r2 := by
  intro ps1
  induction ps1 with
  | nil =>
    intro ps2 r1 r2 h h1 h2
    cases ps2 with
    | nil => exact ⟨rfl, by simpa [paramsToks] using h⟩
    | cons p ps =>
      obtain ⟨t, tl, ht, hc, _⟩ := paramToks_head p
      rw [paramsToks_cons', ht] at h
      simp [paramsToks] at h
      subst h
      have := h1 t (by simp)
      rw [hc] at this
      cases this
  | cons p1 ps1 ih =>
    intro ps2 r1 r2 h h1 h2
    cases ps2 with
    | nil =>
      obtain ⟨t, tl, ht, hc, _⟩ := paramToks_head p1
      rw [paramsToks_cons', ht] at h
      simp [paramsToks] at h
      subst h
      have := h2 t (by simp)
      rw [hc] at this
      cases this
    | cons p2 ps2 =>
      rw [paramsToks_cons', paramsToks_cons', List.append_assoc, List.append_assoc] at h
      obtain ⟨hp, ht⟩ := paramToks_inj h (noSub_params ps1 r1 h1.noSub) (noSub_params ps2 r2 h2.noSub)
      obtain ⟨hps, hr⟩ := ih ps2 r1 r2 ht h1 h2
      exact ⟨by rw [hp, hps], hr⟩

/-- constructible: arities applied exactly, predicates constructible -/
def Constructible (m : MaxIdx) (s : Sent) : Prop := arityOK s = true ∧ indexOK m s = true

theorem predToks_inj {m : MaxIdx} {p1 p2 : Pred} {x1 x2 : List WTok}
    (h : predToks p1 ++ x1 = predToks p2 ++ x2) (hp1 : predOK m p1 = true) (hp2 : predOK m p2 = true)
    (h1 : NoSub x1) (h2 : NoSub x2) :
    p1.index = p2.index ∧ p1.sub = p2.sub ∧ (p1.index < 0 → p1 = p2) ∧ x1 = x2 := by
  have e1 : ∀ p : Pred, predOK m p = true →
      (p = Pred.identity ∧ predToks p = [.identity]) ∨ (p = Pred.existence ∧ predToks p = [.existence]) ∨
      (0 ≤ p.index ∧ predToks p = .pred p.index.toNat :: subToks p.sub) := by
    intro p hp
    simp only [predOK, Bool.or_eq_true, beq_iff_eq, Bool.and_eq_true, decide_eq_true_eq] at hp
    rcases hp with (hp | hp) | hp
    · left; subst hp; exact ⟨rfl, rfl⟩
    · right; left; subst hp; exact ⟨rfl, rfl⟩
    · right; right
      have a : p.index ≠ -1 := by omega
      have b : p.index ≠ -2 := by omega
      exact ⟨hp.1.1, by simp [predToks, a, b]⟩
  rcases e1 p1 hp1 with ⟨ha, hb⟩ | ⟨ha, hb⟩ | ⟨ha, hb⟩ <;>
    rcases e1 p2 hp2 with ⟨hc, hd⟩ | ⟨hc, hd⟩ | ⟨hc, hd⟩ <;>
    rw [hb, hd] at h <;> simp only [List.cons_append, List.nil_append, List.cons.injEq, reduceCtorEq,
      false_and, true_and, WTok.pred.injEq] at h
  · subst ha hc; exact ⟨rfl, rfl, fun _ => rfl, h⟩
  · subst ha hc; exact ⟨rfl, rfl, fun _ => rfl, h⟩
  · obtain ⟨hi, ht⟩ := h
    obtain ⟨hu, hr⟩ := subToks_inj ht h1 h2
    exact ⟨by omega, hu, fun hn => by omega, hr⟩

theorem polishToks_head (s : Sent) : ∃ t tl, polishToks s = t :: tl ∧ WTok.isCont t = false := by
  cases s with
  | atom i u => exact ⟨_, _, rfl, rfl⟩
  | pred p ps =>
    simp only [polishToks, predToks]
    split
    · exact ⟨_, _, rfl, rfl⟩
    · split <;> exact ⟨_, _, rfl, rfl⟩
  | quant q vi vs b => exact ⟨_, _, rfl, rfl⟩
  | op1 o a => exact ⟨_, _, rfl, rfl⟩
  | op2 o a b => exact ⟨_, _, rfl, rfl⟩

theorem tstops_polish (s : Sent) (r : List WTok) : TStops (polishToks s ++ r) := by
  obtain ⟨t, tl, h1, h2⟩ := polishToks_head s
  rw [h1]
  intro t' ht'
  simp at ht'
  subst ht'
  exact h2

theorem pred_head_cases (p : Pred) :
    ∃ t tl, predToks p = t :: tl ∧ (t = .identity ∨ t = .existence ∨ ∃ i, t = .pred i) := by
  unfold predToks
  split
  · exact ⟨_, _, rfl, Or.inl rfl⟩
  · split
    · exact ⟨_, _, rfl, Or.inr (Or.inl rfl)⟩
    · exact ⟨_, _, rfl, Or.inr (Or.inr ⟨_, rfl⟩)⟩

/-- Polish token streams are uniquely readable -/
theorem polishToks_inj (m : MaxIdx) : ∀ (s1 s2 : Sent) (r1 r2 : List WTok),
    polishToks s1 ++ r1 = polishToks s2 ++ r2 → Constructible m s1 → Constructible m s2 →
    TStops r1 → TStops r2 → s1 = s2 ∧ r1 = r2 := by
  intro s1
  induction s1 with
  | atom i u =>
    intro s2 r1 r2 h c1 c2 h1 h2
    cases s2 with
    | atom i2 u2 =>
      simp only [polishToks, List.cons_append, List.cons.injEq, WTok.atom.injEq] at h
      obtain ⟨hu, hr⟩ := subToks_inj h.2 h1.noSub h2.noSub
      exact ⟨by rw [h.1, hu], hr⟩
    | pred p ps =>
      obtain ⟨t, tl, ht, hh⟩ := pred_head_cases p
      simp only [polishToks, ht, List.cons_append, List.cons.injEq] at h
      rcases hh with rfl | rfl | ⟨i', rfl⟩ <;> simp at h
    | quant => simp [polishToks] at h
    | op1 => simp [polishToks] at h
    | op2 => simp [polishToks] at h
  | pred p ps =>
    intro s2 r1 r2 h c1 c2 h1 h2
    cases s2 with
    | pred p2 ps2 =>
      simp only [polishToks, List.append_assoc] at h
      simp only [Constructible, arityOK, indexOK, Bool.and_eq_true, beq_iff_eq] at c1 c2
      obtain ⟨hi, hs, hsys, hx⟩ := predToks_inj h c1.2.1 c2.2.1 (noSub_params ps r1 h1.noSub) (noSub_params ps2 r2 h2.noSub)
      obtain ⟨hps, hr⟩ := paramsToks_inj ps ps2 r1 r2 hx h1 h2
      subst hps
      refine ⟨?_, hr⟩
      have : p = p2 := by
        cases p with
        | mk a b c =>
          cases p2 with
          | mk a2 b2 c2' =>
            simp only at hi hs c1 c2
            rw [hi, hs, ← c1.1, ← c2.1]
      rw [this]
    | atom i2 u2 =>
      obtain ⟨t, tl, ht, hh⟩ := pred_head_cases p
      simp only [polishToks, ht, List.cons_append, List.cons.injEq] at h
      rcases hh with rfl | rfl | ⟨i', rfl⟩ <;> simp at h
    | quant =>
      obtain ⟨t, tl, ht, hh⟩ := pred_head_cases p
      simp only [polishToks, ht, List.cons_append, List.cons.injEq] at h
      rcases hh with rfl | rfl | ⟨i', rfl⟩ <;> simp at h
    | op1 =>
      obtain ⟨t, tl, ht, hh⟩ := pred_head_cases p
      simp only [polishToks, ht, List.cons_append, List.cons.injEq] at h
      rcases hh with rfl | rfl | ⟨i', rfl⟩ <;> simp at h
    | op2 =>
      obtain ⟨t, tl, ht, hh⟩ := pred_head_cases p
      simp only [polishToks, ht, List.cons_append, List.cons.injEq] at h
      rcases hh with rfl | rfl | ⟨i', rfl⟩ <;> simp at h
  | quant q vi vs b ih =>
    intro s2 r1 r2 h c1 c2 h1 h2
    cases s2 with
    | quant q2 vi2 vs2 b2 =>
      simp only [polishToks, List.cons_append, List.cons.injEq, WTok.quant.injEq, WTok.var.injEq,
        List.append_assoc] at h
      obtain ⟨hq, hv, ht⟩ := h
      obtain ⟨hu, hr⟩ := subToks_inj ht (tstops_polish b r1).noSub (tstops_polish b2 r2).noSub
      simp only [Constructible, arityOK, indexOK, Bool.and_eq_true] at c1 c2
      obtain ⟨hb, hr'⟩ := ih b2 r1 r2 hr ⟨c1.1, c1.2.2⟩ ⟨c2.1, c2.2.2⟩ h1 h2
      exact ⟨by rw [hq, hv, hu, hb], hr'⟩
    | pred p ps =>
      obtain ⟨t, tl, ht, hh⟩ := pred_head_cases p
      simp only [polishToks, ht, List.cons_append, List.cons.injEq] at h
      rcases hh with rfl | rfl | ⟨i', rfl⟩ <;> simp at h
    | atom => simp [polishToks] at h
    | op1 => simp [polishToks] at h
    | op2 => simp [polishToks] at h
  | op1 o a ih =>
    intro s2 r1 r2 h c1 c2 h1 h2
    cases s2 with
    | op1 o2 a2 =>
      simp only [polishToks, List.cons_append, List.cons.injEq, WTok.op1.injEq] at h
      simp only [Constructible, arityOK, indexOK] at c1 c2
      obtain ⟨ha, hr⟩ := ih a2 r1 r2 h.2 c1 c2 h1 h2
      exact ⟨by rw [h.1, ha], hr⟩
    | pred p ps =>
      obtain ⟨t, tl, ht, hh⟩ := pred_head_cases p
      simp only [polishToks, ht, List.cons_append, List.cons.injEq] at h
      rcases hh with rfl | rfl | ⟨i', rfl⟩ <;> simp at h
    | atom => simp [polishToks] at h
    | quant => simp [polishToks] at h
    | op2 => simp [polishToks] at h
  | op2 o a b iha ihb =>
    intro s2 r1 r2 h c1 c2 h1 h2
    cases s2 with
    | op2 o2 a2 b2 =>
      simp only [polishToks, List.cons_append, List.cons.injEq, WTok.op2.injEq, List.append_assoc] at h
      simp only [Constructible, arityOK, indexOK, Bool.and_eq_true] at c1 c2
      obtain ⟨ha, hr⟩ := iha a2 _ _ h.2 ⟨c1.1.1, c1.2.1⟩ ⟨c2.1.1, c2.2.1⟩ (tstops_polish b r1) (tstops_polish b2 r2)
      obtain ⟨hb, hr'⟩ := ihb b2 r1 r2 hr ⟨c1.1.2, c1.2.2⟩ ⟨c2.1.2, c2.2.2⟩ h1 h2
      exact ⟨by rw [h.1, ha, hb], hr'⟩
    | pred p ps =>
      obtain ⟨t, tl, ht, hh⟩ := pred_head_cases p
      simp only [polishToks, ht, List.cons_append, List.cons.injEq] at h
      rcases hh with rfl | rfl | ⟨i', rfl⟩ <;> simp at h
    | atom => simp [polishToks] at h
    | quant => simp [polishToks] at h
    | op1 => simp [polishToks] at h

end Ptx.Write
