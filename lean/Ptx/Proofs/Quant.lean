/-
  Ptx.Proofs.Quant — quantifier rules: from the finite check on value profiles to arbitrary
  domains.  The value of a quantified sentence is a function of the SET of values its body takes
  over the domain, so exactness / soundness over all domains reduces to the ≤ 15 nonempty subsets
  of the value set.
-/
import Ptx.Proofs.Subst
import Ptx.Proofs.Sound
namespace Ptx
variable {L : LogicData} {M : Struct}

theorem evalPt_instRaw (body : Sent) (e : Env M.D) (w : M.W) :
    ∀ (tm : Tm) (s' : Sent) (v : V), tm.instRaw body = some s' →
      Tm.evalPt L.T (some (eval L M e w body)) none tm = some v → eval L M e w s' = v := by
  intro tm
  induction tm with
  | lhs => intro s' v hi; simp [Tm.instRaw] at hi
  | rhs => intro s' v hi; simp [Tm.instRaw] at hi
  | whole => intro s' v hi; simp [Tm.instRaw] at hi
  | raw => intro s' v hi hv; simp [Tm.instRaw] at hi; simp [Tm.evalPt] at hv; subst hi; exact hv
  | bind q t _ => intro s' v hi; simp [Tm.instRaw] at hi
  | op1 o t ih =>
      intro s' v hi hv
      simp only [Tm.instRaw, Option.map_eq_some_iff] at hi
      obtain ⟨s1, hs1, rfl⟩ := hi
      simp only [Tm.evalPt] at hv
      split at hv
      · cases hv
      · next hmo =>
        simp only [Option.map_eq_some_iff] at hv
        obtain ⟨v1, hv1, rfl⟩ := hv
        rw [eval_op1_nonmodal _ _ _ (by simpa using hmo), ih s1 v1 hs1 hv1]
  | op2 o t u iht ihu =>
      intro s' v hi hv
      simp only [Tm.instRaw, Option.bind_eq_bind] at hi
      cases h1 : t.instRaw body with
      | none => simp [h1] at hi
      | some s1 =>
        cases h2 : u.instRaw body with
        | none => simp [h1, h2] at hi
        | some s2 =>
          simp [h1, h2] at hi; subst hi
          simp only [Tm.evalPt, Option.bind_eq_bind] at hv
          cases g1 : Tm.evalPt L.T (some (eval L M e w body)) none t with
          | none => simp [g1] at hv
          | some v1 =>
            cases g2 : Tm.evalPt L.T (some (eval L M e w body)) none u with
            | none => simp [g1, g2] at hv
            | some v2 =>
              simp [g1, g2] at hv; subst hv
              simp [eval, iht s1 v1 h1 g1, ihu s2 v2 h2 g2]

/-- the value profile of a quantified body over the domain -/
noncomputable def qProfile (L : LogicData) (M : Struct) (e : Env M.D) (w : M.W) (vi vs : Nat) (body : Sent) : List V :=
  profile L.T (fun _ : M.D => True) (fun d => eval L M (e.updVar vi vs d) w body)

theorem eval_quant (hq : L.quantified = true) (e : Env M.D) (w : M.W) (q : Quant) (vi vs : Nat) (body : Sent) :
    eval L M e w (.quant q vi vs body) = L.T.qfold q (qProfile L M e w vi vs body) := by
  simp [eval, hq, qProfile]

/-- templates of a quantifier rule -/
theorem evalQ_inst (hT : L.tablesTotalB = true) (hM : M.Interp L) (hq : L.quantified = true)
    (q : Quant) (vi vs : Nat) (body l : Sent) (e : Env M.D) (w : M.W) (pt : Option V)
    (hpt : ∀ v, pt = some v → eval L M e w l = v) :
    ∀ (tm : Tm) (s' : Sent) (v : V),
      tm.inst (.quant q vi vs body) l none (some body) (vi, vs) = some s' →
      Tm.evalQ L.T q (qProfile L M e w vi vs body) pt tm = some v → eval L M e w s' = v := by
  intro tm
  induction tm with
  | lhs => intro s' v hi hv; simp [Tm.inst] at hi; simp [Tm.evalQ] at hv; subst hi; exact hpt v hv
  | rhs => intro s' v hi; simp [Tm.inst] at hi
  | whole =>
      intro s' v hi hv
      simp [Tm.inst] at hi; subst hi
      simp [Tm.evalQ] at hv; subst hv
      exact eval_quant hq e w q vi vs body
  | raw => intro s' v hi; simp [Tm.inst] at hi
  | bind q' t _ =>
      intro s' v hi hv
      simp only [Tm.inst, Option.bind_eq_bind, Option.bind_some, Option.map_eq_some_iff] at hi
      obtain ⟨s1, hs1, rfl⟩ := hi
      simp only [Tm.evalQ, Option.map_eq_some_iff, Tm.mapProfile] at hv
      obtain ⟨Q, hQ, rfl⟩ := hv
      rw [eval_quant hq]
      unfold Tables.qfold
      congr 3
      apply Tables.canon_congr
      intro v hv
      unfold qProfile
      rw [mem_profile]
      constructor
      · rintro ⟨_, d, _, rfl⟩
        have hx : eval L M (e.updVar vi vs d) w body ∈ qProfile L M e w vi vs body :=
          mem_profile.2 ⟨eval_mem_vals L hT M hM body _ w, d, trivial, rfl⟩
        obtain ⟨vx, hvx, hf⟩ := mapOpt_mem_fwd hQ _ hx
        rw [evalPt_instRaw (L := L) (M := M) body (e.updVar vi vs d) w t s1 vx hs1 hf]
        exact hvx
      · intro hvQ
        obtain ⟨x, hx, hf⟩ := mapOpt_mem_bwd hQ v hvQ
        obtain ⟨_, d, _, rfl⟩ := mem_profile.1 hx
        exact ⟨hv, d, trivial, evalPt_instRaw (L := L) (M := M) body (e.updVar vi vs d) w t s1 v hs1 hf⟩
  | op1 o t ih =>
      intro s' v hi hv
      simp only [Tm.inst, Option.map_eq_some_iff] at hi
      obtain ⟨s1, hs1, rfl⟩ := hi
      simp only [Tm.evalQ] at hv
      split at hv
      · cases hv
      · next hmo =>
        simp only [Option.map_eq_some_iff] at hv
        obtain ⟨v1, hv1, rfl⟩ := hv
        rw [eval_op1_nonmodal _ _ _ (by simpa using hmo), ih s1 v1 hs1 hv1]
  | op2 o t u iht ihu =>
      intro s' v hi hv
      simp only [Tm.inst, Option.bind_eq_bind] at hi
      cases h1 : t.inst (.quant q vi vs body) l none (some body) (vi, vs) with
      | none => simp [h1] at hi
      | some s1 =>
        cases h2 : u.inst (.quant q vi vs body) l none (some body) (vi, vs) with
        | none => simp [h1, h2] at hi
        | some s2 =>
          simp [h1, h2] at hi; subst hi
          simp only [Tm.evalQ, Option.bind_eq_bind] at hv
          generalize qProfile L M e w vi vs body = P at *
          cases g1 : Tm.evalQ L.T q P pt t with
          | none => simp [g1] at hv
          | some v1 =>
            cases g2 : Tm.evalQ L.T q P pt u with
            | none => simp [g1, g2] at hv
            | some v2 =>
              simp [g1, g2] at hv; subst hv
              simp [eval, iht s1 v1 h1 g1, ihu s2 v2 h2 g2]

/-- nodes produced for a satisfied quantifier-rule branch -/
theorem qBranch_nodes_sat (hT : L.tablesTotalB = true) (hM : M.Interp L) (hq : L.quantified = true)
    (k : RuleKey) (q : Quant) (vi vs : Nat) (body l : Sent) (e : Env M.D) (σ : Nat → M.W) (w : Option Nat)
    (pt : Option V) (hpt : ∀ v, pt = some v → eval L M e (σ (w.getD 0)) l = v)
    (br : List AddT) (g : List Node)
    (hbr : L.qBranchSat q k (qProfile L M e (σ (w.getD 0)) vi vs body) pt br = true)
    (hi : instAdds (.quant q vi vs body) l none (some body) (vi, vs) w none br = some g) :
    ∀ n ∈ g, satNode L M e σ n := by
  intro n hn
  obtain ⟨ad, had, hf⟩ := mapOpt_mem_bwd hi n hn
  simp only [LogicData.qBranchSat, List.all_eq_true] at hbr
  have h1 := hbr ad had
  cases ad with
  | access => simp at h1
  | node nt =>
    simp only [Bool.and_eq_true, Bool.not_eq_true'] at h1
    obtain ⟨hoth, hsat⟩ := h1
    obtain ⟨v, hv, hsv⟩ := satOpt_some hsat
    simp only at hf
    split at hf
    · cases hf
    · next s' hs' =>
      simp [hoth] at hf
      subst hf
      have := evalQ_inst (L := L) (M := M) hT hM hq q vi vs body l e (σ (w.getD 0)) pt hpt nt.tm s' v hs' hv
      simp [satNode, this, hsv]

theorem qProfile_mem (hM : M.Interp L) (hT : L.tablesTotalB = true) (e : Env M.D) (w : M.W) (vi vs : Nat) (body : Sent) :
    qProfile L M e w vi vs body ∈ L.nonemptyProfiles := by
  unfold LogicData.nonemptyProfiles
  rw [List.mem_filter]
  refine ⟨profile_mem_profiles _ _ _, ?_⟩
  have : eval L M (e.updVar vi vs M.dflt) w body ∈ qProfile L M e w vi vs body :=
    mem_profile.2 ⟨eval_mem_vals L hT M hM body _ w, M.dflt, trivial, rfl⟩
  cases h : qProfile L M e w vi vs body with
  | nil => rw [h] at this; cases this
  | cons _ _ => rfl

theorem consts_subset_branch {b : Branch} {s : Sent} {d : Option Bool} {w : Option Nat}
    (h : Node.sent s d w ∈ b.nodes) : ∀ c ∈ s.consts, c ∈ b.consts := by
  intro c hc
  exact List.mem_flatMap.2 ⟨_, h, hc⟩

theorem decomp_consts {s whole : Sent} {sh : Shape} {ng : Bool} (h : s.decomp = some (sh, ng, whole)) :
    whole.consts = s.consts := by
  have := decomp_eq h
  cases ng <;> simp at this <;> subst this <;> simp [Sent.neg, Sent.consts]

theorem satB_updConst_fresh (e : Env M.D) (σ : Nat → M.W) (b : Branch) (ci cs : Nat) (d : M.D)
    (hf : (ci, cs) ∉ b.consts) (h : SatB L M e σ b) : SatB L M (e.updConst ci cs d) σ b := by
  intro n hn
  refine (satNode_updConst ci cs d n ?_).2 (h n hn)
  cases n with
  | sent s dd w => exact fun hc => hf (consts_subset_branch hn _ hc)
  | _ => trivial

/-- quantifier rules: a satisfied target node has a satisfied extension, possibly after
    interpreting a fresh constant suitably -/
theorem quant_rule_sound (hT : L.tablesTotalB = true) (hM : M.Interp L) (hq : L.quantified = true)
    {s : Sent} {d : Option Bool} {w : Option Nat} {q : Quant} {ng : Bool} {vi vs : Nat} {body : Sent} {r : Rule}
    (hd : s.decomp = some (.quant q, ng, .quant q vi vs body))
    (hok : (Sent.quant q vi vs body).quantOK L = true)
    (hr : L.ruleSoundB ⟨.quant q, ng, d⟩ r = true)
    (b : Branch) (hnode : Node.sent s d w ∈ b.nodes) (c : Option (Nat × Nat))
    {gs : List (List Node)}
    (hgs : match r.witness with
      | .none => mapOpt (instAdds (.quant q vi vs body) body none (some body) (vi, vs) w none) r.branches = some gs
      | .newConst => ∃ ci cs, c = some (ci, cs) ∧ (ci, cs) ∉ b.consts ∧
          mapOpt (instAdds (.quant q vi vs body) (body.psubst (.const ci cs) (.var vi vs)) none (some body) (vi, vs) w none) r.branches = some gs
      | .eachConst => ∃ ci cs, c = some (ci, cs) ∧
          mapOpt (instAdds (.quant q vi vs body) (body.psubst (.const ci cs) (.var vi vs)) none (some body) (vi, vs) w none) r.branches = some gs
      | _ => True)
    (e : Env M.D) (σ : Nat → M.W) (hsb : SatB L M e σ b) :
    ∃ e' : Env M.D, SatB L M e' σ b ∧ ∃ g ∈ gs, ∀ n ∈ g, satNode L M e' σ n := by
  have hn := hsb _ hnode
  simp only [satNode] at hn
  rw [eval_decomp hd, eval_quant hq] at hn
  have hPm := qProfile_mem hM hT e (σ (w.getD 0)) vi vs body
  have hns : L.nodeSatQ q ⟨.quant q, ng, d⟩ (qProfile L M e (σ (w.getD 0)) vi vs body) = true := by
    simpa [LogicData.nodeSatQ] using hn
  simp only [Sent.quantOK, Bool.and_eq_true] at hok
  simp only [LogicData.ruleSoundB, List.all_eq_true, Bool.or_eq_true, Bool.not_eq_true'] at hr
  have hr := hr _ hPm
  rcases hr with hr | hr
  · rw [hr] at hns; cases hns
  cases hw : r.witness with
  | none =>
    simp only [hw] at hgs hr
    obtain ⟨br, hbr, hsat⟩ := List.any_eq_true.1 hr
    obtain ⟨g, hg, hig⟩ := mapOpt_mem_fwd hgs br hbr
    exact ⟨e, hsb, g, hg, qBranch_nodes_sat hT hM hq _ q vi vs body body e σ w none (by intro v h; cases h) br g hsat hig⟩
  | newConst =>
    simp only [hw] at hgs hr
    obtain ⟨ci, cs, _, hfresh, hgs⟩ := hgs
    obtain ⟨br, hbr, hsat⟩ := List.any_eq_true.1 hr
    obtain ⟨v, hvP, hvsat⟩ := List.any_eq_true.1 hsat
    obtain ⟨g, hg, hig⟩ := mapOpt_mem_fwd hgs br hbr
    obtain ⟨_, dd, _, hdv⟩ := mem_profile.1 hvP
    have hcb : (ci, cs) ∉ body.consts := by
      intro hc
      apply hfresh
      have h1 : (ci, cs) ∈ (Sent.quant q vi vs body).consts := by simpa [Sent.consts] using hc
      rw [decomp_consts hd] at h1
      exact consts_subset_branch hnode _ h1
    -- interpret the fresh constant as the witness
    have hprof : qProfile L M (e.updConst ci cs dd) (σ (w.getD 0)) vi vs body = qProfile L M e (σ (w.getD 0)) vi vs body := by
      unfold qProfile
      congr 1
      funext x
      have : (e.updConst ci cs dd).updVar vi vs x = (e.updVar vi vs x).updConst ci cs dd := rfl
      rw [this, eval_updConst ci cs dd body hcb]
    refine ⟨e.updConst ci cs dd, satB_updConst_fresh e σ b ci cs dd hfresh hsb, g, hg, ?_⟩
    refine qBranch_nodes_sat hT hM hq ⟨.quant q, ng, d⟩ q vi vs body _ (e.updConst ci cs dd) σ w (some v) ?_ br g
      (by rw [hprof]; exact hvsat) hig
    intro v' hv'
    simp at hv'; subst hv'
    rw [eval_psubst hq vi vs ci cs body hok.1 hok.2]
    have : ((e.updConst ci cs dd).updVar vi vs ((e.updConst ci cs dd).c ci cs)) = (e.updVar vi vs dd).updConst ci cs dd := by
      simp [Env.updConst, Env.updVar]
    rw [this, eval_updConst ci cs dd body hcb]
    exact hdv
  | eachConst =>
    simp only [hw] at hgs hr
    obtain ⟨ci, cs, _, hgs⟩ := hgs
    split at hr
    · next br hbr' =>
      have hbr : br ∈ r.branches := by rw [hbr']; simp
      obtain ⟨g, hg, hig⟩ := mapOpt_mem_fwd hgs br hbr
      have hvP : eval L M (e.updVar vi vs (e.c ci cs)) (σ (w.getD 0)) body ∈ qProfile L M e (σ (w.getD 0)) vi vs body :=
        mem_profile.2 ⟨eval_mem_vals L hT M hM body _ _, e.c ci cs, trivial, rfl⟩
      have hsat := (List.all_eq_true.1 hr) _ hvP
      refine ⟨e, hsb, g, hg, ?_⟩
      refine qBranch_nodes_sat hT hM hq ⟨.quant q, ng, d⟩ q vi vs body _ e σ w (some _) ?_ br g hsat hig
      intro v' hv'
      simp at hv'; subst hv'
      exact eval_psubst hq vi vs ci cs body hok.1 hok.2 e _
    · cases hr
  | newWorld => simp [hw] at hr
  | eachWorld => simp [hw] at hr

end Ptx
