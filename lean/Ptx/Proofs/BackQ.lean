/-
  Ptx.Proofs.BackQ — backward lift for QUANTIFIER rules, for every (nonempty) domain: satisfied
  instantiated extensions — as is, for SOME constant, or, for every domain element, for a constant
  whose instance has the same body value — make the quantified node satisfied.
-/
import Ptx.Proofs.Back
import Ptx.Proofs.Quant
namespace Ptx
variable {L : LogicData} {M : Struct}

/-- satisfied instantiated nodes of a quantifier-rule branch make the template branch (possibly)
    satisfied on the body's value profile, with `pt` the value of the instantiated body -/
theorem qBranch_back (hT : L.tablesTotalB = true) (hM : M.Interp L) (hq : L.quantified = true)
    (q : Quant) (vi vs : Nat) (body l : Sent) (e : Env M.D) (σ : Nat → M.W) (w : Option Nat)
    (pt : Option V) (hpt : ∀ v, pt = some v → eval L M e (σ (w.getD 0)) l = v)
    (br : List AddT) (g : List Node)
    (hi : instAdds (.quant q vi vs body) l none (some body) (vi, vs) w none br = some g)
    (hsat : ∀ n ∈ g, satNode L M e σ n) :
    L.qBranchMay q (qProfile L M e (σ (w.getD 0)) vi vs body) pt br = true := by
  simp only [LogicData.qBranchMay, List.all_eq_true]
  intro ad had
  obtain ⟨n, hn, hf⟩ := mapOpt_mem_fwd hi ad had
  cases ad with
  | access => rfl
  | node nt =>
    simp only at hf
    split at hf
    · cases hf
    · next s' hs' =>
      by_cases hoth : nt.other = true
      · simp [hoth] at hf
      · simp [hoth] at hf
        subst hf
        have hs := hsat _ hn
        simp only [satNode] at hs
        simp only
        cases hv : Tm.evalQ L.T q (qProfile L M e (σ (w.getD 0)) vi vs body) pt nt.tm with
        | none => rfl
        | some v =>
          have := evalQ_inst (L := L) (M := M) hT hM hq q vi vs body l e (σ (w.getD 0)) pt hpt nt.tm s' v hs' hv
          simpa [LogicData.maySat, this] using hs

/-- what saturation provides for a quantified node, by witness kind -/
def QuantDone (L : LogicData) (M : Struct) (e : Env M.D) (σ : Nat → M.W) (q : Quant) (vi vs : Nat) (body : Sent)
    (w : Option Nat) (r : Rule) : Prop :=
  match r.witness with
  | .none => ∃ gs, mapOpt (instAdds (.quant q vi vs body) body none (some body) (vi, vs) w none) r.branches = some gs ∧
      ∃ g ∈ gs, ∀ n ∈ g, satNode L M e σ n
  | .newConst => ∃ ci cs gs,
      mapOpt (instAdds (.quant q vi vs body) (body.psubst (.const ci cs) (.var vi vs)) none (some body) (vi, vs) w none)
        r.branches = some gs ∧ ∃ g ∈ gs, ∀ n ∈ g, satNode L M e σ n
  | .eachConst => ∀ x : M.D, ∃ ci cs,
      eval L M (e.updVar vi vs x) (σ (w.getD 0)) body = eval L M (e.updVar vi vs (e.c ci cs)) (σ (w.getD 0)) body ∧
      ∃ gs, mapOpt (instAdds (.quant q vi vs body) (body.psubst (.const ci cs) (.var vi vs)) none (some body) (vi, vs) w none)
        r.branches = some gs ∧ ∃ g ∈ gs, ∀ n ∈ g, satNode L M e σ n
  | _ => False

/-- quantifier rules: satisfied extensions (as the rule's kind requires) make the target node satisfied -/
theorem quant_rule_back (hT : L.tablesTotalB = true) (hM : M.Interp L) (hq : L.quantified = true)
    {s : Sent} {d : Option Bool} {w : Option Nat} {q : Quant} {ng : Bool} {vi vs : Nat} {body : Sent} {r : Rule}
    (hd : s.decomp = some (.quant q, ng, .quant q vi vs body))
    (hok : (Sent.quant q vi vs body).quantOK L = true)
    (hr : L.ruleCompleteB ⟨.quant q, ng, d⟩ r = true)
    (e : Env M.D) (σ : Nat → M.W) (hdone : QuantDone L M e σ q vi vs body w r) :
    satNode L M e σ (.sent s d w) := by
  simp only [satNode]
  rw [eval_decomp hd, eval_quant hq]
  have hPm := qProfile_mem hM hT e (σ (w.getD 0)) vi vs body
  simp only [Sent.quantOK, Bool.and_eq_true] at hok
  simp only [LogicData.ruleCompleteB, List.all_eq_true] at hr
  have hr := hr _ hPm
  suffices hns : L.nodeSatQ q ⟨.quant q, ng, d⟩ (qProfile L M e (σ (w.getD 0)) vi vs body) = true by
    simpa [LogicData.nodeSatQ] using hns
  unfold QuantDone at hdone
  unfold LogicData.qRuleCompleteAt at hr
  cases hw : r.witness with
  | none =>
    simp only [hw] at hdone hr
    obtain ⟨gs, hgs, g, hg, hsat⟩ := hdone
    obtain ⟨br, hbr, hig⟩ := mapOpt_mem_bwd hgs g hg
    have hb := qBranch_back hT hM hq q vi vs body body e σ w none (by intro v h; cases h) br g hig hsat
    simp only [Bool.or_eq_true, Bool.not_eq_true'] at hr
    rcases hr with hr | hr
    · have : r.branches.any (L.qBranchMay q (qProfile L M e (σ (w.getD 0)) vi vs body) none) = true :=
        List.any_eq_true.2 ⟨br, hbr, hb⟩
      rw [this] at hr; cases hr
    · exact hr
  | newConst =>
    simp only [hw] at hdone hr
    obtain ⟨ci, cs, gs, hgs, g, hg, hsat⟩ := hdone
    obtain ⟨br, hbr, hig⟩ := mapOpt_mem_bwd hgs g hg
    have hval := eval_psubst (L := L) (M := M) hq vi vs ci cs body hok.1 hok.2 e (σ (w.getD 0))
    have hb := qBranch_back hT hM hq q vi vs body (body.psubst (.const ci cs) (.var vi vs)) e σ w
      (some (eval L M (e.updVar vi vs (e.c ci cs)) (σ (w.getD 0)) body))
      (by intro v h; simp at h; subst h; exact hval) br g hig hsat
    have hvP : eval L M (e.updVar vi vs (e.c ci cs)) (σ (w.getD 0)) body ∈ qProfile L M e (σ (w.getD 0)) vi vs body :=
      mem_profile.2 ⟨eval_mem_vals L hT M hM body _ _, e.c ci cs, trivial, rfl⟩
    simp only [Bool.or_eq_true, Bool.not_eq_true'] at hr
    rcases hr with hr | hr
    · have : (r.branches.any fun br => (qProfile L M e (σ (w.getD 0)) vi vs body).any fun v =>
          L.qBranchMay q (qProfile L M e (σ (w.getD 0)) vi vs body) (some v) br) = true :=
        List.any_eq_true.2 ⟨br, hbr, List.any_eq_true.2 ⟨_, hvP, hb⟩⟩
      rw [this] at hr; cases hr
    · exact hr
  | eachConst =>
    simp only [hw] at hdone hr
    split at hr
    · next br hbr' =>
      simp only [Bool.or_eq_true, Bool.not_eq_true'] at hr
      rcases hr with hr | hr
      · have : ((qProfile L M e (σ (w.getD 0)) vi vs body).all fun v =>
            L.qBranchMay q (qProfile L M e (σ (w.getD 0)) vi vs body) (some v) br) = true := by
          rw [List.all_eq_true]
          intro v hv
          obtain ⟨_, x, _, hxv⟩ := mem_profile.1 hv
          obtain ⟨ci, cs, hsame, gs, hgs, g, hg, hsat⟩ := hdone x
          obtain ⟨br', hbr'', hig⟩ := mapOpt_mem_bwd hgs g hg
          have : br' = br := by rw [hbr'] at hbr''; simpa using hbr''
          subst this
          have hval := eval_psubst (L := L) (M := M) hq vi vs ci cs body hok.1 hok.2 e (σ (w.getD 0))
          refine qBranch_back hT hM hq q vi vs body (body.psubst (.const ci cs) (.var vi vs)) e σ w (some v) ?_ br' g hig hsat
          intro v' hv'
          simp at hv'; subst hv'
          rw [hval, ← hsame]; exact hxv
        rw [this] at hr; cases hr
      · exact hr
    · cases hr
  | newWorld => simp [hw] at hr
  | eachWorld => simp [hw] at hr

end Ptx
