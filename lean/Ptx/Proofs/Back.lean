/-
  Ptx.Proofs.Back — the BACKWARD lift (completeness direction): if all nodes of an instantiated
  extension of a rule are satisfied in a structure — with an accessible witness world / at every
  accessible world, as the rule's kind says — then the target node is satisfied.  Mirror of the
  forward lemmas of Ptx/Proofs/Sound.lean; the finite content is `ruleCompleteB` (Ptx/Sem/Complete.lean).
-/
import Ptx.Proofs.Sound
import Ptx.Sem.Complete
namespace Ptx
variable {L : LogicData} {M : Struct}

theorem ruleComplete_of_nil (h : L.incompleteRules = []) {k : RuleKey} {r : Rule} (hr : L.rule? k = some r) :
    L.ruleCompleteB k r = true := by
  have hm := lookup_mem (show L.rules.lookup k = some r from hr)
  unfold LogicData.incompleteRules at h
  have : (k, r) ∉ L.rules.filter (fun (k, r) => !L.ruleCompleteB k r) := by
    intro hc
    have : k ∈ (L.rules.filter (fun (k, r) => !L.ruleCompleteB k r)).map (·.1) := List.mem_map.2 ⟨_, hc, rfl⟩
    rw [h] at this; cases this
  simp [List.mem_filter, hm] at this
  exact this

/-- satisfied instantiated nodes make the template branch (possibly) satisfied on the operand values -/
theorem opBranch_back (k : RuleKey) (whole A : Sent) (raw : Option Sent) (var : Nat × Nat)
    (e : Env M.D) (σ : Nat → M.W) (w : Option Nat) (bv : V)
    (hwhole : ∀ v, Tm.wholeOp L.T k.shape (eval L M e (σ (w.getD 0)) A) bv = some v →
        eval L M e (σ (w.getD 0)) whole = v)
    (hB : ∀ B', whole.rhs? = some B' → k.shape.isOp2 = true →
        eval L M e (σ (w.getD 0)) B' = bv)
    (br : List AddT) (g : List Node)
    (hi : instAdds whole A whole.rhs? raw var w none br = some g)
    (hsat : ∀ n ∈ g, satNode L M e σ n) :
    L.opBranchMay k (eval L M e (σ (w.getD 0)) A) bv br = true := by
  simp only [LogicData.opBranchMay, List.all_eq_true]
  intro ad had
  obtain ⟨n, hn, hf⟩ := mapOpt_mem_fwd hi ad had
  cases ad with
  | access => rfl
  | node nt =>
    simp only at hf
    split at hf
    · cases hf
    · next s' hs' =>
      by_cases hoth : nt.other = true
      · simp [hoth] at hf
      · simp [hoth] at hf
        subst hf
        have hs := hsat _ hn
        simp only [satNode] at hs
        simp only
        cases hv : Tm.evalOp L.T k.shape (eval L M e (σ (w.getD 0)) A) bv nt.tm with
        | none => rfl
        | some v =>
          have := evalOp_inst (L := L) (M := M) k.shape whole A whole.rhs? raw var e (σ (w.getD 0)) bv hwhole hB
            nt.tm s' v hs' hv
          simpa [LogicData.maySat, this] using hs

/-- operator rules (non-modal unary, binary): a satisfied extension makes the target node satisfied -/
theorem op_rule_back (hT : L.tablesTotalB = true) (hM : M.Interp L)
    {s : Sent} {d : Option Bool} {w : Option Nat} {sh : Shape} {ng : Bool} {whole : Sent} {r : Rule}
    (hd : s.decomp = some (sh, ng, whole))
    (hsh : sh.isTF = true)
    (hr : L.ruleCompleteB ⟨sh, ng, d⟩ r = true)
    {A : Sent} (hA : whole.lhs? = some A) (raw : Option Sent) (var : Nat × Nat)
    {gs : List (List Node)} (hgs : mapOpt (instAdds whole A whole.rhs? raw var w none) r.branches = some gs)
    (e : Env M.D) (σ : Nat → M.W) {g : List Node} (hg : g ∈ gs) (hsat : ∀ n ∈ g, satNode L M e σ n) :
    satNode L M e σ (.sent s d w) := by
  have hsp := decomp_shape hd
  simp only [satNode]
  have ha := eval_mem_vals L hT M hM A e (σ (w.getD 0))
  obtain ⟨br, hbr, hig⟩ := mapOpt_mem_bwd hgs g hg
  cases sh with
  | quant q => simp [Shape.isTF] at hsh
  | op1 o =>
    simp [Shape.isTF] at hsh
    cases whole <;> simp [Shape.of] at hsp
    rename_i o' a'
    obtain rfl := hsp.symm
    simp [Sent.lhs?] at hA; subst hA
    simp only [LogicData.ruleCompleteB, hsh, Bool.false_eq_true, ↓reduceIte, Bool.and_eq_true, List.all_eq_true,
      beq_iff_eq] at hr
    obtain ⟨_, hr⟩ := hr
    have hmay := opBranch_back (L := L) (M := M) ⟨.op1 o, ng, d⟩ (.op1 o a') a' raw var e σ w
      (eval L M e (σ (w.getD 0)) a') (by
        intro v hv
        simp [Tm.wholeOp, hsh] at hv
        rw [eval_op1_nonmodal _ _ _ hsh]; exact hv) (by
        intro B' hB' h2; simp [Shape.isOp2] at h2) br g hig hsat
    have h1 := hr _ ha
    simp only [LogicData.opRuleCompleteAt, Bool.or_eq_true, Bool.not_eq_true'] at h1
    rcases h1 with h1 | h1
    · have : r.branches.any (L.opBranchMay ⟨.op1 o, ng, d⟩ (eval L M e (σ (w.getD 0)) a') (eval L M e (σ (w.getD 0)) a')) = true :=
        List.any_eq_true.2 ⟨br, hbr, hmay⟩
      rw [this] at h1; cases h1
    · rw [eval_decomp hd, eval_op1_nonmodal _ _ _ hsh]
      simpa [LogicData.nodeSatOp, Tm.wholeOp, hsh, LogicData.satOpt] using h1
  | op2 o =>
    cases whole <;> simp [Shape.of] at hsp
    rename_i o' a' b'
    obtain rfl := hsp.symm
    simp [Sent.lhs?] at hA; subst hA
    have hb := eval_mem_vals L hT M hM b' e (σ (w.getD 0))
    simp only [LogicData.ruleCompleteB, Bool.and_eq_true, List.all_eq_true, beq_iff_eq] at hr
    obtain ⟨_, hr⟩ := hr
    have hmay := opBranch_back (L := L) (M := M) ⟨.op2 o, ng, d⟩ (.op2 o a' b') a' raw var e σ w
      (eval L M e (σ (w.getD 0)) b') (by
        intro v hv
        simp [Tm.wholeOp] at hv
        simp [eval]; exact hv) (by
        intro B' hB' _; simp [Sent.rhs?] at hB'; subst hB'; rfl) br g hig hsat
    have h1 := hr _ ha _ hb
    simp only [LogicData.opRuleCompleteAt, Bool.or_eq_true, Bool.not_eq_true'] at h1
    rcases h1 with h1 | h1
    · have : r.branches.any (L.opBranchMay ⟨.op2 o, ng, d⟩ (eval L M e (σ (w.getD 0)) a') (eval L M e (σ (w.getD 0)) b')) = true :=
        List.any_eq_true.2 ⟨br, hbr, hmay⟩
      rw [this] at h1; cases h1
    · rw [eval_decomp hd]
      simp only [LogicData.nodeSatOp, Tm.wholeOp, LogicData.satOpt, Option.map_some] at h1
      simpa [eval] using h1

/-! ### modal rules -/

/-- satisfied instantiated nodes of a modal rule branch: the same-world part is (possibly)
    satisfied on the profile, the other-world part at the witness world's value; an access node in
    the template gives accessibility of the witness world -/
theorem mBranch_back (hT : L.tablesTotalB = true) (hM : M.Interp L) (hm : L.modal = true)
    (mo : Op1) (hmo : mo.isModal = true) (A : Sent) (var : Nat × Nat) (e : Env M.D)
    (σ : Nat → M.W) (w0 : Nat) (wo : Option Nat) (br : List AddT) (g : List Node)
    (hi : instAdds (.op1 mo A) A none none var (some w0) wo br = some g)
    (hsat : ∀ n ∈ g, satNode L M e σ n) :
    L.mBranchSameMay mo (profile L.T (fun w' => M.R (σ w0) w') (fun w' => eval L M e w' A)) br = true ∧
    (∀ w', wo = some w' → L.mBranchOtherMay (eval L M e (σ w') A) br = true ∧
        (AddT.access ∈ br → M.R (σ w0) (σ w'))) := by
  refine ⟨?_, ?_⟩
  · simp only [LogicData.mBranchSameMay, List.all_eq_true]
    intro ad had
    obtain ⟨n, hn, hf⟩ := mapOpt_mem_fwd hi ad had
    cases ad with
    | access => rfl
    | node nt =>
      simp only at hf
      split at hf
      · cases hf
      · next s' hs' =>
        by_cases hoth : nt.other = true
        · simp [hoth]
        · simp [hoth] at hf
          subst hf
          have hs := hsat _ hn
          simp only [satNode, Option.getD_some] at hs
          simp only [hoth, Bool.false_or]
          cases hv : Tm.evalMSame L.T mo (profile L.T (fun w' => M.R (σ w0) w') (fun w' => eval L M e w' A)) nt.tm with
          | none => rfl
          | some v =>
            have := evalMSame_inst (L := L) (M := M) hT hM hm mo hmo A var e (σ w0) nt.tm s' v hs' hv
            simpa [LogicData.maySat, this] using hs
  · intro w' hwo
    subst hwo
    refine ⟨?_, ?_⟩
    · simp only [LogicData.mBranchOtherMay, List.all_eq_true]
      intro ad had
      obtain ⟨n, hn, hf⟩ := mapOpt_mem_fwd hi ad had
      cases ad with
      | access => rfl
      | node nt =>
        simp only at hf
        split at hf
        · cases hf
        · next s' hs' =>
          by_cases hoth : nt.other = true
          · simp [hoth] at hf
            subst hf
            have hs := hsat _ hn
            simp only [satNode, Option.getD_some] at hs
            simp only [hoth, Bool.not_true, Bool.false_or]
            cases hv : Tm.evalPt L.T (some (eval L M e (σ w') A)) none nt.tm with
            | none => rfl
            | some v =>
              have := evalPt_inst (L := L) (M := M) (.op1 mo A) A var e (σ w') nt.tm s' v hs' hv
              simpa [LogicData.maySat, this] using hs
          · simp [hoth]
    · intro hacc
      obtain ⟨n, hn, hf⟩ := mapOpt_mem_fwd hi _ hacc
      simp at hf
      subst hf
      exact hsat _ hn

/-- what saturation provides for a modal node, by witness kind: a satisfied instantiated group at
    the node's own world / at SOME witness world / at EVERY accessible world -/
def ModalDone (L : LogicData) (M : Struct) (e : Env M.D) (σ : Nat → M.W) (mo : Op1) (A : Sent) (var : Nat × Nat)
    (w0 : Nat) (r : Rule) : Prop :=
  match r.witness with
  | .none => ∃ gs, mapOpt (instAdds (.op1 mo A) A none none var (some w0) none) r.branches = some gs ∧
      ∃ g ∈ gs, ∀ n ∈ g, satNode L M e σ n
  | .newWorld => ∃ w' gs, mapOpt (instAdds (.op1 mo A) A none none var (some w0) (some w')) r.branches = some gs ∧
      ∃ g ∈ gs, ∀ n ∈ g, satNode L M e σ n
  | .eachWorld => ∀ x : M.W, M.R (σ w0) x → ∃ w', σ w' = x ∧
      ∃ gs, mapOpt (instAdds (.op1 mo A) A none none var (some w0) (some w')) r.branches = some gs ∧
      ∃ g ∈ gs, ∀ n ∈ g, satNode L M e σ n
  | _ => False

/-- modal rules: satisfied extensions (as the rule's kind requires) make the target node satisfied -/
theorem modal_rule_back (hT : L.tablesTotalB = true) (hM : M.Interp L) (hm : L.modal = true)
    {s : Sent} {d : Option Bool} {w0 : Nat} {mo : Op1} {ng : Bool} {A : Sent} {r : Rule}
    (hmo : mo.isModal = true)
    (hd : s.decomp = some (.op1 mo, ng, .op1 mo A))
    (hr : L.ruleCompleteB ⟨.op1 mo, ng, d⟩ r = true) (var : Nat × Nat)
    (e : Env M.D) (σ : Nat → M.W) (hdone : ModalDone L M e σ mo A var w0 r) :
    satNode L M e σ (.sent s d (some w0)) := by
  simp only [satNode, Option.getD_some]
  rw [eval_decomp hd, eval_modal hm e _ mo hmo A]
  generalize hP : profile L.T (fun w' => M.R (σ w0) w') (fun w' => eval L M e w' A) = P
  have hPm : P ∈ L.mProfiles := hP ▸ mProfiles_mem hM hT e (σ w0) A
  simp only [LogicData.ruleCompleteB, hmo, ↓reduceIte, List.all_eq_true] at hr
  have hr := hr P hPm
  suffices hns : L.nodeSatM mo ⟨.op1 mo, ng, d⟩ P = true by simpa [LogicData.nodeSatM] using hns
  unfold ModalDone at hdone
  unfold LogicData.mRuleCompleteAt at hr
  cases hw : r.witness with
  | none =>
    simp only [hw] at hdone hr
    obtain ⟨gs, hgs, g, hg, hsat⟩ := hdone
    obtain ⟨br, hbr, hig⟩ := mapOpt_mem_bwd hgs g hg
    have hb := (mBranch_back hT hM hm mo hmo A var e σ w0 none br g hig hsat).1
    rw [hP] at hb
    simp only [Bool.or_eq_true, Bool.not_eq_true'] at hr
    rcases hr with hr | hr
    · have : r.branches.any (L.mBranchSameMay mo P) = true := List.any_eq_true.2 ⟨br, hbr, hb⟩
      rw [this] at hr; cases hr
    · exact hr
  | newWorld =>
    simp only [hw] at hdone hr
    obtain ⟨w', gs, hgs, g, hg, hsat⟩ := hdone
    obtain ⟨br, hbr, hig⟩ := mapOpt_mem_bwd hgs g hg
    obtain ⟨hsame, hoth⟩ := mBranch_back hT hM hm mo hmo A var e σ w0 (some w') br g hig hsat
    obtain ⟨hother, hacc⟩ := hoth w' rfl
    rw [hP] at hsame
    simp only [Bool.and_eq_true, List.all_eq_true, Bool.or_eq_true, Bool.not_eq_true'] at hr
    obtain ⟨hall, hr⟩ := hr
    rcases hr with hr | hr
    · have : (r.branches.any fun br => L.mBranchSameMay mo P br &&
          (!LogicData.brHasOtherNode br || P.any fun v => L.mBranchOtherMay v br)) = true := by
        refine List.any_eq_true.2 ⟨br, hbr, ?_⟩
        simp only [Bool.and_eq_true, Bool.or_eq_true, Bool.not_eq_true']
        refine ⟨hsame, ?_⟩
        cases hon : LogicData.brHasOtherNode br with
        | false => exact Or.inl rfl
        | true =>
          right
          have hacc' : AddT.access ∈ br := by
            rcases hall br hbr with h | h
            · rw [hon] at h; cases h
            · simpa using h
          have hR : M.R (σ w0) (σ w') := hacc hacc'
          have hvP : eval L M e (σ w') A ∈ P :=
            hP ▸ mem_profile.2 ⟨eval_mem_vals L hT M hM A e _, σ w', hR, rfl⟩
          exact List.any_eq_true.2 ⟨_, hvP, hother⟩
      rw [this] at hr; cases hr
    · exact hr
  | eachWorld =>
    simp only [hw] at hdone hr
    split at hr
    · next br hbr' =>
      simp only [Bool.and_eq_true, Bool.or_eq_true, Bool.not_eq_true'] at hr
      obtain ⟨_, hr⟩ := hr
      rcases hr with hr | hr
      · have : (P.all fun v => L.mBranchOtherMay v br) = true := by
          rw [List.all_eq_true]
          intro v hv
          rw [← hP] at hv
          obtain ⟨_, x, hRx, hxv⟩ := mem_profile.1 hv
          obtain ⟨w', hσ, gs, hgs, g, hg, hsat⟩ := hdone x hRx
          obtain ⟨br', hbr'', hig⟩ := mapOpt_mem_bwd hgs g hg
          have : br' = br := by rw [hbr'] at hbr''; simpa using hbr''
          subst this
          have := ((mBranch_back hT hM hm mo hmo A var e σ w0 (some w') br' g hig hsat).2 w' rfl).1
          rw [hσ, hxv] at this
          exact this
        rw [this] at hr; cases hr
      · exact hr
    · cases hr
  | newConst => simp [hw] at hr
  | eachConst => simp [hw] at hr

end Ptx
