/-
  Ptx.Proofs.ContList — list-level facts about the position arithmetic and edits of
  Ptx.Cont.Basic (subscripts, slices, delete / pick / assign at positions, key sets).
-/
import Ptx.Cont.Basic
namespace Ptx.Cont
set_option linter.unusedSectionVars false
variable {α : Type} [DecidableEq α]

/-! ### key sets -/

@[simp] theorem mem_sadd {s : List α} {v x : α} : x ∈ sadd s v ↔ x = v ∨ x ∈ s := by
  unfold sadd; split <;> simp_all <;> grind

@[simp] theorem mem_sdel {s : List α} {v x : α} : x ∈ sdel s v ↔ x ∈ s ∧ x ≠ v := by
  simp [sdel]

@[simp] theorem mem_sdiff {s vs : List α} {x : α} : x ∈ sdiff s vs ↔ x ∈ s ∧ x ∉ vs := by
  simp [sdiff]

@[simp] theorem mem_supdate {vs s : List α} {x : α} : x ∈ supdate s vs ↔ x ∈ s ∨ x ∈ vs := by
  unfold supdate
  induction vs generalizing s with
  | nil => simp
  | cons v vs ih => simp only [List.foldl_cons, ih, mem_sadd, List.mem_cons]; grind

/-! ### subscripts -/

theorem normIdx_lt {n p : Nat} {i : Int} (h : normIdx n i = some p) : p < n := by
  unfold normIdx at h
  split at h <;> split at h <;> simp at h <;> omega

theorem normIdx_ofNat {n p : Nat} (h : p < n) : normIdx n (p : Int) = some p := by
  unfold normIdx
  have : ¬ ((p : Int) < 0) := by omega
  simp [this, h]

theorem clampIdx_le (n : Nat) (i : Int) : clampIdx n i ≤ n := by
  unfold clampIdx; split <;> omega

theorem clampIdx_len (n : Nat) : clampIdx n (n : Int) = n := by
  unfold clampIdx
  have : ¬ ((n : Int) < 0) := by omega
  simp [this]

/-! ### firstRepeat -/

theorem firstRepeat_none {seen vs : List α} :
    firstRepeat seen vs = none ↔ vs.Nodup ∧ ∀ v ∈ vs, v ∉ seen := by
  induction vs generalizing seen with
  | nil => simp [firstRepeat]
  | cons v vs ih =>
    unfold firstRepeat
    split
    · simp_all
    · rw [ih]; simp only [List.nodup_cons, List.mem_cons]; grind

theorem firstRepeat_isSome {vs : List α} : (firstRepeat [] vs).isSome = true ↔ ¬ vs.Nodup := by
  have := firstRepeat_none (seen := ([] : List α)) (vs := vs)
  cases h : firstRepeat [] vs <;> simp_all

/-! ### pickAt / delAt -/

theorem mem_pickAt {l : List α} {idxs : List Nat} {x : α} :
    x ∈ pickAt l idxs ↔ ∃ p ∈ idxs, l[p]? = some x := by
  simp [pickAt, List.mem_filterMap]

theorem pickAt_length {l : List α} {idxs : List Nat} (h : ∀ p ∈ idxs, p < l.length) :
    (pickAt l idxs).length = idxs.length := by
  induction idxs with
  | nil => simp [pickAt]
  | cons p ps ih =>
    have hp : p < l.length := h p (by simp)
    have : l[p]? = some l[p] := by simp [hp]
    simp only [pickAt, List.filterMap_cons, this, List.length_cons]
    simp only [pickAt] at ih
    rw [ih (fun q hq => h q (by simp [hq]))]

theorem mem_delAtAux {idxs : List Nat} {l : List α} {k : Nat} {x : α} :
    x ∈ delAtAux idxs k l ↔ ∃ p, l[p]? = some x ∧ k + p ∉ idxs := by
  induction l generalizing k with
  | nil => simp [delAtAux]
  | cons y ys ih =>
    unfold delAtAux
    constructor
    · intro h
      split at h
      · obtain ⟨p, hp, hk⟩ := ih.mp h
        exact ⟨p + 1, by simpa using hp, by rw [← Nat.add_assoc, Nat.add_right_comm]; exact hk⟩
      · rcases List.mem_cons.mp h with rfl | h
        · exact ⟨0, by simp, by simpa⟩
        · obtain ⟨p, hp, hk⟩ := ih.mp h
          exact ⟨p + 1, by simpa using hp, by rw [← Nat.add_assoc, Nat.add_right_comm]; exact hk⟩
    · rintro ⟨p, hp, hk⟩
      cases p with
      | zero =>
        simp at hp; subst hp
        simp at hk; simp [hk]
      | succ p =>
        have : x ∈ delAtAux idxs (k + 1) ys :=
          ih.mpr ⟨p, by simpa using hp, by rw [Nat.add_right_comm, Nat.add_assoc]; exact hk⟩
        split
        · exact this
        · exact List.mem_cons_of_mem _ this

theorem mem_delAt {idxs : List Nat} {l : List α} {x : α} :
    x ∈ delAt l idxs ↔ ∃ p, l[p]? = some x ∧ p ∉ idxs := by
  simp [delAt, mem_delAtAux]

theorem delAtAux_sublist (idxs : List Nat) (k : Nat) (l : List α) : (delAtAux idxs k l).Sublist l := by
  induction l generalizing k with
  | nil => simp [delAtAux]
  | cons y ys ih =>
    unfold delAtAux
    split
    · exact (ih _).cons _
    · exact (ih _).cons_cons _

theorem delAt_sublist (idxs : List Nat) (l : List α) : (delAt l idxs).Sublist l := delAtAux_sublist _ _ _

theorem delAt_nodup {idxs : List Nat} {l : List α} (h : l.Nodup) : (delAt l idxs).Nodup :=
  h.sublist (delAt_sublist _ _)

/-- with no duplicates: what is deleted are exactly the picked values -/
theorem mem_delAt_iff {idxs : List Nat} {l : List α} (h : l.Nodup) {x : α} :
    x ∈ delAt l idxs ↔ x ∈ l ∧ x ∉ pickAt l idxs := by
  rw [mem_delAt, mem_pickAt]
  constructor
  · rintro ⟨p, hp, hk⟩
    refine ⟨List.mem_of_getElem? hp, ?_⟩
    rintro ⟨q, hq, hqx⟩
    have hpl : p < l.length := by
      rcases Nat.lt_or_ge p l.length with h' | h'
      · exact h'
      · simp [List.getElem?_eq_none h'] at hp
    have : p = q := (List.getElem?_inj hpl h).mp (hp.trans hqx.symm)
    exact hk (this ▸ hq)
  · rintro ⟨hx, hn⟩
    obtain ⟨p, hp⟩ := List.getElem?_of_mem hx
    exact ⟨p, hp, fun hk => hn ⟨p, hk, hp⟩⟩

theorem delAt_nil (l : List α) : delAt l [] = l := by
  unfold delAt
  generalize 0 = k
  induction l generalizing k with
  | nil => simp [delAtAux]
  | cons y ys ih => simp [delAtAux, ih]

/-! ### assignAt -/

theorem assignAt_length : ∀ (l : List α) (idxs : List Nat) (vs : List α), (assignAt l idxs vs).length = l.length
  | l, [], _ => by simp [assignAt]
  | l, _ :: _, [] => by simp [assignAt]
  | l, i :: is, v :: vs => by simp [assignAt, assignAt_length (l.set i v) is vs]

/-- positions outside `idxs` keep their value -/
theorem getElem?_assignAt_of_not_mem : ∀ (l : List α) (idxs : List Nat) (vs : List α) {p : Nat},
    p ∉ idxs → (assignAt l idxs vs)[p]? = l[p]?
  | l, [], _, _, _ => by simp [assignAt]
  | l, _ :: _, [], _, _ => by simp [assignAt]
  | l, i :: is, v :: vs, p, hp => by
    have h1 : p ≠ i := fun h => hp (by simp [h])
    have h2 : p ∉ is := fun h => hp (by simp [h])
    rw [assignAt, getElem?_assignAt_of_not_mem _ is vs h2, List.getElem?_set]
    simp [Ne.symm h1]

/-- the `k`-th position of a duplicate-free in-range `idxs` receives the `k`-th value -/
theorem getElem?_assignAt_of_mem : ∀ (l : List α) (idxs : List Nat) (vs : List α),
    idxs.Nodup → (∀ p ∈ idxs, p < l.length) → idxs.length = vs.length →
    ∀ (k : Nat) (p : Nat), idxs[k]? = some p → (assignAt l idxs vs)[p]? = vs[k]?
  | l, [], _, _, _, _, k, p, hk => by simp at hk
  | l, _ :: _, [], _, _, hlen, _, _, _ => by simp at hlen
  | l, i :: is, v :: vs, hnd, hb, hlen, k, p, hk => by
    rw [assignAt]
    have hnd' := (List.nodup_cons.mp hnd)
    have hb' : ∀ q ∈ is, q < (l.set i v).length := fun q hq => by
      simpa using hb q (by simp [hq])
    cases k with
    | zero =>
      simp at hk; subst hk
      rw [getElem?_assignAt_of_not_mem _ is vs hnd'.1, List.getElem?_set]
      have : i < l.length := hb i (by simp)
      simp [this]
    | succ k =>
      simp at hk
      simpa using getElem?_assignAt_of_mem (l.set i v) is vs hnd'.2 hb' (by simpa using hlen) k p hk


/-- `assignAt` at a position: either untouched, or the value paired with that position -/
theorem getElem?_assignAt_cases (l : List α) (idxs : List Nat) (vs : List α)
    (hnd : idxs.Nodup) (hb : ∀ p ∈ idxs, p < l.length) (hlen : idxs.length = vs.length) (p : Nat) :
    (p ∉ idxs ∧ (assignAt l idxs vs)[p]? = l[p]?) ∨
    (∃ k : Nat, idxs[k]? = some p ∧ (assignAt l idxs vs)[p]? = vs[k]?) := by
  by_cases hp : p ∈ idxs
  · obtain ⟨k, hk⟩ := List.getElem?_of_mem hp
    exact .inr ⟨k, hk, getElem?_assignAt_of_mem l idxs vs hnd hb hlen k p hk⟩
  · exact .inl ⟨hp, getElem?_assignAt_of_not_mem l idxs vs hp⟩

private theorem getElem?_inj_of_nodup {l : List α} (h : l.Nodup) {i j : Nat} {x : α}
    (hi : l[i]? = some x) (hj : l[j]? = some x) : i = j := by
  have hil : i < l.length := by
    rcases Nat.lt_or_ge i l.length with h' | h'
    · exact h'
    · simp [List.getElem?_eq_none h'] at hi
  exact (List.getElem?_inj hil h).mp (hi.trans hj.symm)

/-- the heart of slice assignment: with a duplicate-free list and duplicate-free in-range
    positions, the result is duplicate-free exactly when no value arrives twice and every
    arriving value that is already a member is one of those leaving -/
theorem assignAt_nodup_iff {l : List α} {idxs : List Nat} {vs : List α}
    (hl : l.Nodup) (hnd : idxs.Nodup) (hb : ∀ p ∈ idxs, p < l.length) (hlen : idxs.length = vs.length) :
    (assignAt l idxs vs).Nodup ↔ vs.Nodup ∧ ∀ v ∈ vs, v ∈ l → v ∈ pickAt l idxs := by
  have hcase := getElem?_assignAt_cases l idxs vs hnd hb hlen
  have hrl := assignAt_length l idxs vs
  constructor
  · intro hr
    refine ⟨?_, ?_⟩
    · -- two equal arrivals sit at two different positions of the result
      rw [List.nodup_iff_pairwise_ne, List.pairwise_iff_getElem]
      intro i j hi hj hij heq
      have hi' : i < idxs.length := hlen ▸ hi
      have hj' : j < idxs.length := hlen ▸ hj
      have e1 := getElem?_assignAt_of_mem l idxs vs hnd hb hlen i idxs[i] (by simp [hi'])
      have e2 := getElem?_assignAt_of_mem l idxs vs hnd hb hlen j idxs[j] (by simp [hj'])
      have : (assignAt l idxs vs)[idxs[i]]? = (assignAt l idxs vs)[idxs[j]]? := by
        rw [e1, e2]; simp [hi, hj, heq]
      have hlt : idxs[i] < (assignAt l idxs vs).length := by rw [hrl]; exact hb _ (List.getElem_mem _)
      have := (List.getElem?_inj hlt hr).mp this
      have := (List.getElem?_inj hi' hnd).mp (by simp [hi', hj', this] : idxs[i]? = idxs[j]?)
      omega
    · intro v hv hvl
      obtain ⟨k, hk⟩ := List.getElem?_of_mem hv
      obtain ⟨q, hq⟩ := List.getElem?_of_mem hvl
      have hkl : k < idxs.length := by
        rcases Nat.lt_or_ge k vs.length with h' | h'
        · exact hlen ▸ h'
        · simp [List.getElem?_eq_none h'] at hk
      have e1 := getElem?_assignAt_of_mem l idxs vs hnd hb hlen k idxs[k] (by simp [hkl])
      by_cases hqi : q ∈ idxs
      · exact mem_pickAt.mpr ⟨q, hqi, hq⟩
      · exfalso
        have e2 := getElem?_assignAt_of_not_mem l idxs vs hqi
        have : idxs[k] = q := getElem?_inj_of_nodup hr (e1.trans hk) (e2.trans hq)
        exact hqi (this ▸ List.getElem_mem _)
  · rintro ⟨hvs, hin⟩
    rw [List.nodup_iff_pairwise_ne, List.pairwise_iff_getElem]
    intro i j hi hj hij heq
    have gi : (assignAt l idxs vs)[i]? = some (assignAt l idxs vs)[i] := by simp [hi]
    have gj : (assignAt l idxs vs)[j]? = some (assignAt l idxs vs)[j] := by simp [hj]
    rw [heq] at gi
    -- a value of the result at a position in idxs is an arriving value, hence (if a member) leaving
    have key : ∀ p q x, (∃ k : Nat, idxs[k]? = some p ∧ (assignAt l idxs vs)[p]? = vs[k]?) →
        (assignAt l idxs vs)[p]? = some x → q ∉ idxs → l[q]? = some x → False := by
      intro p q x ⟨k, hk, hpk⟩ hpx hq hqx
      have hxv : x ∈ vs := List.mem_of_getElem? (hpk.symm.trans hpx)
      obtain ⟨q', hq', hq'x⟩ := mem_pickAt.mp (hin x hxv (List.mem_of_getElem? hqx))
      exact hq (getElem?_inj_of_nodup hl hq'x hqx ▸ hq')
    rcases hcase i with ⟨hi1, hi2⟩ | hi2 <;> rcases hcase j with ⟨hj1, hj2⟩ | hj2
    · have := getElem?_inj_of_nodup hl (hi2.symm.trans gi) (hj2.symm.trans gj); omega
    · exact key j i _ hj2 gj hi1 (hi2.symm.trans gi)
    · exact key i j _ hi2 gi hj1 (hj2.symm.trans gj)
    · obtain ⟨k, hk, hpk⟩ := hi2
      obtain ⟨k', hk', hpk'⟩ := hj2
      have : k = k' := getElem?_inj_of_nodup hvs (hpk.symm.trans gi) (hpk'.symm.trans gj)
      subst this
      have : i = j := by simpa using hk.symm.trans hk'
      omega

/-- membership in the result of a slice assignment (duplicate-free positions in range) -/
theorem mem_assignAt {l : List α} {idxs : List Nat} {vs : List α}
    (hl : l.Nodup) (hnd : idxs.Nodup) (hb : ∀ p ∈ idxs, p < l.length) (hlen : idxs.length = vs.length) {x : α} :
    x ∈ assignAt l idxs vs ↔ (x ∈ l ∧ x ∉ pickAt l idxs) ∨ x ∈ vs := by
  have hcase := getElem?_assignAt_cases l idxs vs hnd hb hlen
  constructor
  · intro hx
    obtain ⟨p, hp⟩ := List.getElem?_of_mem hx
    rcases hcase p with ⟨h1, h2⟩ | ⟨k, hk, hpk⟩
    · left
      have hpl := h2.symm.trans hp
      refine ⟨List.mem_of_getElem? hpl, fun hpick => ?_⟩
      obtain ⟨q, hq, hqx⟩ := mem_pickAt.mp hpick
      exact h1 (getElem?_inj_of_nodup hl hqx hpl ▸ hq)
    · right; exact List.mem_of_getElem? (hpk.symm.trans hp)
  · rintro (⟨hx, hn⟩ | hx)
    · obtain ⟨p, hp⟩ := List.getElem?_of_mem hx
      have hpi : p ∉ idxs := fun h => hn (mem_pickAt.mpr ⟨p, h, hp⟩)
      exact List.mem_of_getElem? ((getElem?_assignAt_of_not_mem l idxs vs hpi).trans hp)
    · obtain ⟨k, hk⟩ := List.getElem?_of_mem hx
      have hkl : k < idxs.length := by
        rcases Nat.lt_or_ge k vs.length with h' | h'
        · exact hlen ▸ h'
        · simp [List.getElem?_eq_none h'] at hk
      have e1 := getElem?_assignAt_of_mem l idxs vs hnd hb hlen k idxs[k] (by simp [hkl])
      exact List.mem_of_getElem? (e1.trans hk)

theorem pickAt_subset {l : List α} {idxs : List Nat} : ∀ x ∈ pickAt l idxs, x ∈ l := by
  intro x hx
  obtain ⟨p, _, hp⟩ := mem_pickAt.mp hx
  exact List.mem_of_getElem? hp

/-! ### slices -/

theorem rangeLen_spec {a b st : Int} {k : Nat} (hst : st ≠ 0) (hk : k < rangeLen a b st) :
    (0 < st → a + k * st < b) ∧ (st < 0 → b < a + k * st) := by
  unfold rangeLen at hk
  constructor
  · intro hpos
    simp only [hpos, gt_iff_lt, ↓reduceIte] at hk
    split at hk
    · have h0 : 0 ≤ (b - a - 1) / st := Int.ediv_nonneg (by omega) (by omega)
      have : (k : Int) ≤ (b - a - 1) / st := by omega
      have := (Int.le_ediv_iff_mul_le hpos).mp this
      omega
    · omega
  · intro hneg
    have hnp : ¬ (0 < st) := by omega
    simp only [gt_iff_lt, hnp, ↓reduceIte] at hk
    split at hk
    · have hpos : 0 < -st := by omega
      have h0 : 0 ≤ (a - b - 1) / (-st) := Int.ediv_nonneg (by omega) (by omega)
      have : (k : Int) ≤ (a - b - 1) / (-st) := by omega
      have := (Int.le_ediv_iff_mul_le hpos).mp this
      have e : (k : Int) * -st = -((k : Int) * st) := by rw [Int.mul_neg]
      omega
    · omega

theorem Slice.indices_spec {s : Slice} {n : Nat} {a b st : Int} (h : s.indices n = some (a, b, st)) :
    st ≠ 0 ∧ (0 < st → 0 ≤ a ∧ b ≤ n) ∧ (st < 0 → a ≤ (n : Int) - 1 ∧ -1 ≤ b) := by
  unfold Slice.indices at h
  simp only at h
  split at h
  · simp at h
  · rename_i hst
    simp only [Option.some.injEq, Prod.mk.injEq] at h
    obtain ⟨ha, hb, hs⟩ := h
    subst hs
    refine ⟨hst, ?_, ?_⟩
    · intro hpos
      have hnn : ¬ (s.step.getD 1 < 0) := by omega
      simp only [hnn, ↓reduceIte] at ha hb
      constructor
      · subst ha; cases s.start <;> simp only <;> (repeat' split) <;> omega
      · subst hb; cases s.stop <;> simp only <;> (repeat' split) <;> omega
    · intro hneg
      simp only [hneg, ↓reduceIte] at ha hb
      constructor
      · subst ha; cases s.start <;> simp only <;> (repeat' split) <;> omega
      · subst hb; cases s.stop <;> simp only <;> (repeat' split) <;> omega

/-- the positions of a slice are in range and pairwise different -/
theorem sliceIdx_spec {s : Slice} {n : Nat} {idxs : List Nat} (h : sliceIdx s n = some idxs) :
    idxs.Nodup ∧ ∀ p ∈ idxs, p < n := by
  unfold sliceIdx at h
  split at h
  · simp at h
  · rename_i a b st hind
    simp only [Option.some.injEq] at h
    subst h
    obtain ⟨hst, hpos, hneg⟩ := Slice.indices_spec hind
    have hval : ∀ k, k < rangeLen a b st → 0 ≤ a + (k : Int) * st ∧ a + (k : Int) * st < n := by
      intro k hk
      obtain ⟨h1, h2⟩ := rangeLen_spec (a := a) (b := b) hst hk
      rcases Int.lt_or_gt_of_ne hst with hs | hs
      · have := h2 hs
        have := hneg hs
        have hk0 : (k : Int) * st ≤ 0 := Int.mul_nonpos_of_nonneg_of_nonpos (by omega) (by omega)
        omega
      · have := h1 hs
        have := hpos hs
        have hk0 : 0 ≤ (k : Int) * st := Int.mul_nonneg (by omega) (by omega)
        omega
    constructor
    · rw [List.nodup_iff_pairwise_ne, List.pairwise_map]
      refine List.Pairwise.imp_of_mem ?_ List.pairwise_lt_range
      intro k k' hk hk' hlt heq
      have hk := hval k (List.mem_range.mp hk)
      have hk' := hval k' (List.mem_range.mp hk')
      have e : a + (k : Int) * st = a + (k' : Int) * st := by
        have := congrArg (fun (x : Nat) => (x : Int)) heq
        simp only [Int.toNat_of_nonneg hk.1, Int.toNat_of_nonneg hk'.1] at this
        exact this
      have e2 : ((k : Int) - k') * st = 0 := by rw [Int.sub_mul]; omega
      rcases Int.mul_eq_zero.mp e2 with h0 | h0
      · omega
      · exact hst h0
    · intro p hp
      obtain ⟨k, hk, rfl⟩ := List.mem_map.mp hp
      have := hval k (List.mem_range.mp hk)
      omega

/-! ### `Sequence.index` is `findIdx?` -/

theorem seqScan_eq {ρ : Type} (l : List α) (eq : ρ → α → Bool) (r : ρ) (get : Int → Except Exc α)
    (hget : ∀ p : Nat, get (p : Int) = match l[p]? with | some v => .ok v | none => .error .index) :
    ∀ (i fuel : Nat), i + fuel = l.length →
      seqScan get eq r i fuel =
        match (l.drop i).findIdx? (eq r) with
        | some p => .ok (i + p)
        | none => .error .value
  | i, 0, h => by
    have : l.drop i = [] := List.drop_eq_nil_of_le (by omega)
    simp [seqScan, this]
  | i, fuel + 1, h => by
    have hi : i < l.length := by omega
    have hd : l.drop i = l[i] :: l.drop (i + 1) := List.drop_eq_getElem_cons hi
    rw [seqScan, hget i]
    simp only [List.getElem?_eq_getElem hi, hd, List.findIdx?_cons]
    by_cases he : eq r l[i] = true
    · simp [he]
    · simp only [he, Bool.false_eq_true, ↓reduceIte]
      rw [seqScan_eq l eq r get hget (i + 1) fuel (by omega)]
      cases List.findIdx? (eq r) (List.drop (i + 1) l) with
      | none => simp
      | some p => simp; omega

end Ptx.Cont
