/-
  Ptx.Proofs.SearchInv — soundness of the executable invariant check: `invBad L s = [] → Inv L s`.
  With it the static theorem applies to every state of every real run on which the driver reports no `!inv:`.
-/
import Ptx.Proofs.Search
namespace Ptx.Search
open Ptx

theorem mem_accPairs {b : Branch} {a c : Nat} : (a, c) ∈ accPairs b ↔ Node.access a c ∈ b.nodes := by
  unfold accPairs
  rw [List.mem_filterMap]
  constructor
  · rintro ⟨nd, hnd, hp⟩
    cases nd with
    | access a' c' =>
      simp only [Option.some.injEq, Prod.mk.injEq] at hp
      obtain ⟨rfl, rfl⟩ := hp
      exact hnd
    | sent _ _ _ => simp at hp
    | flag _ => simp at hp
    | ellipsis => simp at hp
  · intro h
    exact ⟨_, h, rfl⟩

theorem matchesRule_iff {r : RuleId} {nd : Node} : matchesRule r nd = true ↔ r ∈ matching nd := by
  unfold matching
  simp only [List.mem_append, List.mem_singleton]
  cases r with
  | closure =>
    cases hk : nodeKey nd <;> by_cases ha : isAccess nd = true <;> by_cases hi : isIdentityNode nd = true <;>
      simp [matchesRule, ha, hi]
  | table k =>
    cases hk : nodeKey nd with
    | none => by_cases ha : isAccess nd = true <;> by_cases hi : isIdentityNode nd = true <;> simp [matchesRule, hk, ha, hi]
    | some k' =>
      by_cases hkk : k' = k
      · subst hkk
        by_cases ha : isAccess nd = true <;> by_cases hi : isIdentityNode nd = true <;> simp [matchesRule, hk, ha, hi]
      · have hkk' : ¬ k = k' := fun h => hkk h.symm
        by_cases ha : isAccess nd = true <;> by_cases hi : isIdentityNode nd = true <;> simp [matchesRule, hk, ha, hi, hkk, hkk']
  | frame fr =>
    cases fr <;> cases hk : nodeKey nd <;> by_cases ha : isAccess nd = true <;> by_cases hi : isIdentityNode nd = true <;>
      simp [matchesRule, ha, hi]
  | ident =>
    cases hk : nodeKey nd <;> by_cases ha : isAccess nd = true <;> by_cases hi : isIdentityNode nd = true <;>
      simp [matchesRule, ha, hi]

theorem aget_mem_key {κ α} [DecidableEq κ] {m : List (κ × List α)} {k : κ} {x : α} (h : x ∈ aget [] m k) :
    ∃ p ∈ m, p.1 = k := by
  induction m with
  | nil => simp [aget] at h
  | cons p m ih =>
    obtain ⟨k', v⟩ := p
    simp only [aget] at h
    split at h
    · next he => exact ⟨(k', v), by simp, he.symm⟩
    · obtain ⟨q, hq, hk⟩ := ih h
      exact ⟨q, List.mem_cons_of_mem _ hq, hk⟩

theorem tickDone_of_B {L : LogicData} {b : Branch} {sn : Sent} {d : Option Bool} {w : Option Nat}
    (h : tickDoneB L b sn d w = true) : tickDone L b sn d w := by
  unfold tickDoneB at h
  split at h
  · next r whole l0 hrf =>
    simp only [Bool.and_eq_true, Bool.or_eq_true] at h
    refine ⟨r, whole, l0, hrf, h.1, ?_⟩
    rcases h.2 with hq | hd
    · exact Or.inl hq
    · right
      split
      · next hw => simpa [hw] using hd
      · next hw =>
        simp only [hw] at hd
        obtain ⟨w', hw', hg⟩ := List.any_eq_true.1 hd
        exact ⟨w', hw', hg⟩
      · trivial
  · cases h

theorem branchInv_of_checks {L : LogicData} {s : SState} {bi : Nat} {b : Branch} {h : BranchH}
    (hc : ∀ p ∈ branchChecks L s bi b h, p.2 = true) : BranchInv L s bi b h := by
  simp only [branchChecks, List.mem_cons, List.not_mem_nil, or_false, forall_eq_or_imp, forall_eq] at hc
  obtain ⟨h1, h2, h3, h4, h5, h6, h7, h8, h9⟩ := hc
  refine { windex := ?_, unserial := ?_, cacheSound := ?_, cacheComplete := ?_, nwDone := ?_, ticked := ?_,
           closeNone := ?_, closeSome := ?_, worlded := ?_, lastSerial := ?_ }
  · intro a c
    simp only [ckWindex, Bool.and_eq_true, List.all_eq_true, List.contains_iff_mem] at h1
    rw [← mem_accPairs]
    exact ⟨fun hm => h1.1 _ hm, fun hm => h1.2 _ hm⟩
  · intro w
    simp only [ckUnserial, Bool.and_eq_true, List.all_eq_true, List.contains_iff_mem, Bool.not_eq_eq_eq_not,
      Bool.not_true, Bool.or_eq_true] at h2
    constructor
    · intro hm; exact h2.1 w hm
    · rintro ⟨hm, hna⟩
      rcases h2.2 w hm with h' | h'
      · rw [hna] at h'; cases h'
      · exact h'
  · intro r i hi
    obtain ⟨p, hp, hk⟩ := aget_mem_key (m := h.caches) (k := r) hi
    simp only [ckCacheSound, List.all_eq_true] at h3
    have := h3 p hp i (by rw [hk]; exact hi)
    split at this
    · next nd hn =>
      simp only [Bool.and_eq_true, Bool.or_eq_true, Bool.not_eq_eq_eq_not, Bool.not_true] at this
      refine ⟨nd, hn, hk ▸ this.1, ?_⟩
      intro hig hmem
      rcases this.2 with h' | h'
      · rw [hk, hig] at h'; cases h'
      · have : b.ticked.contains i = true := by simpa using hmem
        rw [this] at h'; cases h'
    · cases this
  · intro r i nd hn hm hig
    simp only [ckCacheComplete, List.all_eq_true] at h4
    have hz : (nd, i) ∈ b.nodes.zipIdx := by
      rw [List.mem_zipIdx_iff_getElem?]; exact hn
    have := h4 (nd, i) hz r (matchesRule_iff.1 hm)
    simp only [Bool.or_eq_true, Bool.and_eq_true, List.contains_iff_mem] at this
    rcases this with (⟨hi1, hi2⟩ | hl) | hr
    · exact absurd (by simpa using hi2) (hig hi1)
    · exact Or.inl hl
    · exact Or.inr hr
  · intro k i w' hm
    obtain ⟨p, hp, hk⟩ := aget_mem_key (m := h.nws) (k := k) hm
    simp only [ckNw, List.all_eq_true] at h5
    have := h5 p hp (i, w') (by rw [hk]; exact hm)
    simp only at this
    split at this
    · next sn d w hn =>
      split at this
      · next r whole l0 hrf => exact ⟨sn, d, w, r, whole, l0, hn, hrf, this⟩
      · cases this
    · cases this
  · intro i hi
    simp only [ckTicked, List.all_eq_true] at h6
    have := h6 i hi
    split at this
    · next sn d w hn => exact ⟨sn, d, w, hn, tickDone_of_B this⟩
    · cases this
  · intro hnone sn d w hm
    simp only [ckClose, hnone, List.all_eq_true] at h7
    have := h7 _ hm
    simp only [Bool.and_eq_true, Bool.or_eq_true, Bool.not_eq_eq_eq_not, Bool.not_true] at this
    refine ⟨?_, this.2⟩
    intro hneg
    rcases this.1 with h' | h'
    · rw [hneg] at h'; cases h'
    · exact h'
  · intro t ht
    simp only [ckClose, ht] at h7
    cases t with
    | lits sn w =>
      simp only at h7 ⊢
      exact ⟨b, ⟨[], by simp⟩, by simpa using h7⟩
    | ident n =>
      simp only at h7 ⊢
      split at h7
      · next nd hn => exact ⟨nd, hn, h7⟩
      · cases h7
  · intro hmod sn d w hm
    simp only [ckWorlded, hmod, Bool.not_true, Bool.false_or, List.all_eq_true] at h8
    exact h8 _ hm
  · intro w2 hl sn d hm
    simp only [ckLastSerial, hl, List.all_eq_true] at h9
    have := h9 _ hm
    simp at this

/-- SOUNDNESS OF THE RUN-TIME CHECK: a state on which the driver's invariant check reports nothing satisfies `Inv` -/
theorem inv_of_invBad {L : LogicData} {s : SState} (h : invBad L s = []) : Inv L s := by
  unfold invBad at h
  rw [List.append_eq_nil_iff, List.append_eq_nil_iff] at h
  obtain ⟨⟨hl, hg⟩, hb⟩ := h
  have hlen : s.hs.length = s.tab.length := by
    split at hl
    · next he => simpa using he
    · cases hl
  have hgb : ∀ r p, p ∈ s.garbage r → ∃ b, s.tab[p.1]? = some b ∧ p.2 < b.nodes.length := by
    intro r p hp
    split at hg
    · next hc =>
      obtain ⟨q, hq, hk⟩ := aget_mem_key (m := s.garbages) (k := r) hp
      rw [List.all_eq_true] at hc
      have := hc q hq
      rw [List.all_eq_true] at this
      have := this p (by rw [hk]; exact hp)
      split at this
      · next b hb => exact ⟨b, hb, by simpa using this⟩
      · cases this
    · cases hg
  refine ⟨hlen, hgb, ?_⟩
  intro bi b hh htab hhs hopen
  rw [List.flatMap_eq_nil_iff] at hb
  have hz : (b, bi) ∈ s.tab.zipIdx := by
    rw [List.mem_zipIdx_iff_getElem?]; exact htab
  have := hb (b, bi) hz
  simp only [hopen, Bool.false_eq_true, ↓reduceIte, hhs] at this
  apply branchInv_of_checks
  intro p hp
  unfold branchBad at this
  rw [List.filterMap_eq_nil_iff] at this
  have := this p hp
  split at this
  · next hc => exact hc
  · cases this

end Ptx.Search
