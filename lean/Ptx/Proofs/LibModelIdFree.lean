/-
  Ptx.Proofs.LibModelIdFree — the classical `finish()` on a model in which no Identity tuple has the value T:
  in every frame of the finished model the true Identity tuples are exactly the `(c, c)` for the model's
  constants `c` — Identity IS the identity of the domain — and `E!c` is true for every constant.
-/
import Ptx.Proofs.LibModelNoConst
namespace Ptx.LibModel
open Ptx

theorem finish_classical_steps {L : LogicData} (hcl : isClassical L = true) {hints : Hints} {m m' : Model}
    (h : finish L hints m = (m', none)) (hnf : m.finished = false) :
    ∃ c₁ c₂, completeFrames L m = .ok c₁ ∧ cplFrames hints c₁ = .ok c₂ ∧ m' = (finishBase L c₂).1 := by
  unfold finish finishX at h
  simp only [hnf, Bool.false_eq_true, ↓reduceIte, hcl] at h
  split at h
  · simp at h
  next c₁ h1 =>
  split at h
  · simp at h
  next c₂ h2 =>
  simp only [Prod.mk.injEq, and_true] at h
  exact ⟨c₁, c₂, h1, h2, h.symm⟩

theorem cparam_inj {c d : Nat × Nat} (h : cparam c = cparam d) : c = d := by
  cases c; cases d
  simp only [cparam, Param.const.injEq] at h
  rw [h.1, h.2]

theorem finish_identity_free {L : LogicData} (hcl : isClassical L = true) (hints : Hints) {m m' : Model} (hFK : m.FK)
    (hno : ∀ w t, ¬ m.has (.at w (.pred Pred.identity t .T))) (hnf : m.finished = false)
    (h : finish L hints m = (m', none)) :
    m'.finished = true ∧ m'.consts = m.consts ∧
    ∀ w, w ∈ akeys m'.frames →
      (∀ t, ((frameD m' w).interp Pred.identity).lookup t = some .T ↔ ∃ c ∈ m.consts, t = [cparam c, cparam c]) ∧
      (∀ c ∈ m.consts, ((frameD m' w).interp Pred.existence).lookup [cparam c] = some .T) := by
  obtain ⟨c₁, c₂, h1, h2, rfl⟩ := finish_classical_steps hcl h hnf
  have hc1 := (completeFrames_consts h1).1
  have hno₁ : ∀ w t, ¬ c₁.has (.at w (.pred Pred.identity t .T)) := fun w t hh =>
    hno w t ((completeFrames_pred hFK h1 w _ t _).1 hh)
  obtain ⟨a1, a2⟩ := cplFrames_spec hints (completeFrames_FK hFK h1) hno₁
  by_cases hok : cplMOK c₁
  case neg => rw [a2 hok] at h2; cases h2
  obtain ⟨n, e, hhas, _, _, _⟩ := a1 hok
  rw [h2] at e
  cases e
  have hc2 : c₂.consts = c₁.consts := (cplFrames_frames h2).1
  refine ⟨rfl, by simp only [finishBase, hc2, hc1], ?_⟩
  intro w hw
  have hfw : c₁.has (.frame w) := ((hhas (.frame w)).1 hw)
  have hD : frameD (finishBase L c₂).1 w = frameD c₂ w := rfl
  rw [hD]
  constructor
  · intro t
    have := hhas (.at w (.pred Pred.identity t .T))
    rw [has_at] at this
    simp only [Frame.has] at this
    rw [this]
    constructor
    · intro hh
      simp only [cplMHas] at hh
      rcases hh with hh | ⟨_, _, hh | hh | ⟨c, hc, hh⟩ | ⟨c, hc, hh⟩⟩
      · exact absurd hh (hno₁ w t)
      · cases hh
      · cases hh
      · simp only [FFact.pred.injEq, and_true] at hh
        exact ⟨c, hc1 ▸ hc, hh.2⟩
      · simp only [FFact.pred.injEq] at hh
        exact absurd hh.1 identity_ne_existence
    · rintro ⟨c, hc, rfl⟩
      simp only [cplMHas]
      exact Or.inr ⟨hfw, List.ne_nil_of_mem (hc1 ▸ hc), Or.inr (Or.inr (Or.inl ⟨c, hc1 ▸ hc, rfl⟩))⟩
  · intro c hc
    have := hhas (.at w (.pred Pred.existence [cparam c] .T))
    rw [has_at] at this
    simp only [Frame.has] at this
    rw [this]
    simp only [cplMHas]
    right
    refine ⟨hfw, List.ne_nil_of_mem (hc1 ▸ hc), Or.inr (Or.inr (Or.inr ⟨c, hc1 ▸ hc, rfl⟩))⟩

/-- a program of successful public setter calls none of which comes down to `set_predicated_value(Identity(…), 'T')`
    assembles a model without a true Identity tuple -/
theorem run_setter_no_idT {L : LogicData} (hints : Hints) {ops : List MOp} (hset : ∀ op ∈ ops, op.setter = true)
    (hok : ∀ e ∈ (run L hints Model.init ops).2, e = none) (hid : ∀ op ∈ ops, op.setsIdT L = false) :
    ∀ w t, ¬ (run L hints Model.init ops).1.has (.at w (.pred Pred.identity t .T)) := by
  have e := run_reduce (L := L) hints ops Model.init
  have p := reduce_prim_of_ok ops Model.init hset hok
  have k : ∀ e ∈ (run L hints Model.init (ops.map (MOp.reduce L))).2, e = none := by rw [e]; exact hok
  have := run_no_idT p k (by
    intro ps w hm
    obtain ⟨op, ho, hr⟩ := List.mem_map.1 hm
    have := hid op ho
    rw [MOp.setsIdT_of_reduce hr] at this
    cases this)
  rw [e] at this
  exact this

theorem tupInConsts_cparams {m : Model} {cs : List (Nat × Nat)} (h : ∀ c ∈ cs, c ∈ m.consts) :
    tupInConsts m (cs.map cparam) = true := by
  simp only [tupInConsts, tupIn, List.all_map, List.all_eq_true]
  intro c hc
  simpa [cparam] using h c hc

end Ptx.LibModel
