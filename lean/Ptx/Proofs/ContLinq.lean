/-
  Ptx.Proofs.ContLinq — `linqset` simulates the specification list:
  `Sim LinqSet.prims (Spec.prims (plainSig α le false true)) LRel`.
-/
import Ptx.Cont.LinqSet
import Ptx.Cont.Spec
import Ptx.Proofs.ContList
import Ptx.Proofs.ContSim
import Ptx.Proofs.ContQSet
namespace Ptx.Cont
set_option linter.unusedSectionVars false
variable {α : Type} [DecidableEq α]

/-- the `linqset` invariant, tied to the abstraction `abs c = c.chain` -/
structure LRel (c : LinqSet α) (l : List α) : Prop where
  abs : c.chain = l
  nodup : l.Nodup
  table : ∀ x, x ∈ c.table ↔ x ∈ l
  len : c.len = l.length

abbrev linqSig (α : Type) [DecidableEq α] (le : α → α → Bool) : Sig α α := plainSig α le false true

theorem plain_has (le : α → α → Bool) (b1 b2 : Bool) (l : List α) (r : α) :
    Spec.has (plainSig α le b1 b2) l r = decide (r ∈ l) := by
  unfold Spec.has plainSig
  rw [Bool.eq_iff_iff]
  simp only [List.any_eq_true, List.mem_singleton, decide_eq_true_eq]
  constructor
  · rintro ⟨m, hm, rfl⟩; exact hm
  · intro h; exact ⟨r, h, rfl⟩

theorem plain_clashes (le : α → α → Bool) (b1 b2 : Bool) (l a lv : List α) :
    Spec.clashes (plainSig α le b1 b2) l a lv = false := by
  simp [Spec.clashes, plainSig]

theorem findIdx?_beq {l : List α} {v : α} (h : v ∈ l) :
    l.findIdx? (fun x => v == x) = some (l.idxOf v) := by
  induction l with
  | nil => simp at h
  | cons y ys ih =>
    rw [List.findIdx?_cons, List.idxOf_cons]
    by_cases hy : y = v
    · subst hy; simp
    · have hv : v ∈ ys := by
        rcases List.mem_cons.mp h with h | h
        · exact (hy h.symm).elim
        · exact h
      have h1 : (v == y) = false := by simp [Ne.symm hy]
      have h2 : (y == v) = false := by simp [hy]
      simp [h1, h2, ih hv]

variable {le : α → α → Bool}

theorem LinqSet.has_eq {c : LinqSet α} {l : List α} (h : LRel c l) (v : α) :
    LinqSet.has c v = decide (v ∈ l) := by
  unfold LinqSet.has
  rw [Bool.eq_iff_iff]
  simp [h.table]

theorem LinqSet.getIdx_sim {c : LinqSet α} {l : List α} (h : LRel c l) (i : Int) :
    LinqSet.getIdx c i = Spec.getIdx l i := by
  simp only [LinqSet.getIdx, Spec.getIdx, h.abs, h.len]
  cases hn : normIdx l.length i with
  | none => rfl
  | some p =>
    have hp := normIdx_lt hn
    simp [hp]

theorem LinqSet.insert_sim {c : LinqSet α} {l : List α} (h : LRel c l) (i : Int) (v : α) :
    RelRes LRel (LinqSet.insert c i v) (Spec.insert (linqSig α le) l i v) := by
  unfold LinqSet.insert Spec.insert
  rw [LinqSet.has_eq h, plain_clashes, h.abs, h.len]
  by_cases hv : v ∈ l
  · simp only [hv, decide_true, ↓reduceIte]; exact ⟨h, .err _⟩
  · simp only [hv, decide_false, Bool.false_eq_true, ↓reduceIte]
    have hk := clampIdx_le l.length i
    have hpos : (if l.length = 0 then [v]
        else if (if i < 0 then (l.length : Int) + i else i) ≥ (l.length : Int) then l ++ [v]
        else if (if i < 0 then (l.length : Int) + i else i) ≤ 0 then v :: l
        else l.insertIdx (if i < 0 then (l.length : Int) + i else i).toNat v)
        = l.insertIdx (clampIdx l.length i) v := by
      by_cases h0 : l.length = 0
      · have : l = [] := List.eq_nil_of_length_eq_zero h0
        subst this
        have : clampIdx 0 i = 0 := by unfold clampIdx; split <;> omega
        simp [this]
      · simp only [h0, ↓reduceIte]
        unfold clampIdx
        by_cases hi : i < 0
        · simp only [hi, ↓reduceIte]
          have hge : ¬ ((l.length : Int) + i ≥ (l.length : Int)) := by omega
          simp only [hge, ↓reduceIte]
          by_cases hle : (l.length : Int) + i ≤ 0
          · have : l.length - i.natAbs = 0 := by omega
            simp [hle, this]
          · have : ((l.length : Int) + i).toNat = l.length - i.natAbs := by omega
            simp [hle, this]
        · simp only [hi, ↓reduceIte]
          by_cases hge : i ≥ (l.length : Int)
          · have : min i.toNat l.length = l.length := by omega
            simp [hge, this, List.insertIdx_length_self]
          · simp only [hge, ↓reduceIte]
            by_cases hle : i ≤ 0
            · have : min i.toNat l.length = 0 := by omega
              simp [hle, this]
            · have : min i.toNat l.length = i.toNat := by omega
              simp [hle, this]
    rw [hpos]
    have hm : ∀ x, x ∈ l.insertIdx (clampIdx l.length i) v ↔ x = v ∨ x ∈ l := fun x => List.mem_insertIdx hk
    refine ⟨⟨rfl, nodup_insertIdx h.nodup hv hk, ?_, ?_⟩, .ok .unit⟩
    · intro x; simp only [mem_sadd, h.table, hm]
    · simp [List.length_insertIdx, hk]

theorem LinqSet.remove_sim {c : LinqSet α} {l : List α} (h : LRel c l) (v : α) :
    RelRes LRel (LinqSet.remove c v) (Spec.remove (linqSig α le) l v) := by
  unfold LinqSet.remove Spec.remove
  rw [LinqSet.has_eq h, plain_has, h.abs, h.len]
  by_cases hv : v ∈ l
  · simp only [hv, decide_true, Bool.not_true, Bool.false_eq_true, ↓reduceIte]
    have : (plainSig α le false true).refEq v = fun x => v == x := rfl
    rw [this, findIdx?_beq hv]
    simp only
    have he : l.erase v = l.eraseIdx (l.idxOf v) := List.erase_eq_eraseIdx_of_idxOf rfl
    have hlt : l.idxOf v < l.length := List.idxOf_lt_length_of_mem hv
    have hg : l[l.idxOf v]? = some v := by simp [hlt]
    rw [he]
    have hm : ∀ x, x ∈ l.eraseIdx (l.idxOf v) ↔ x ∈ l ∧ x ≠ v := fun x => mem_eraseIdx_nodup h.nodup hg
    refine ⟨⟨rfl, (List.eraseIdx_sublist _ _).nodup h.nodup, ?_, ?_⟩, .ok .unit⟩
    · intro x; simp only [mem_sdel, h.table, hm]
    · simp [List.length_eraseIdx, hlt]
  · simp only [hv, decide_false, Bool.not_false, ↓reduceIte]; exact ⟨h, .err _⟩

theorem LinqSet.delIdx_sim {c : LinqSet α} {l : List α} (h : LRel c l) (i : Int) :
    RelRes LRel (LinqSet.delIdx c i) (Spec.delIdx l i) := by
  unfold LinqSet.delIdx Spec.delIdx
  rw [h.abs, h.len]
  cases hn : normIdx l.length i with
  | none => exact ⟨h, .err _⟩
  | some p =>
    have hp := normIdx_lt hn
    have hg : l[p]? = some l[p] := by simp [hp]
    have hvt : l[p] ∈ c.table := (h.table _).mpr (List.getElem_mem _)
    simp only [hg, hvt, ↓reduceIte]
    have hm : ∀ x, x ∈ l.eraseIdx p ↔ x ∈ l ∧ x ≠ l[p] := fun x => mem_eraseIdx_nodup h.nodup hg
    refine ⟨⟨rfl, (List.eraseIdx_sublist _ _).nodup h.nodup, ?_, ?_⟩, .ok .unit⟩
    · intro x; simp only [mem_sdel, h.table, hm]
    · simp [List.length_eraseIdx, hp]

theorem delAtAux_congr {idxs idxs' : List Nat} (hc : ∀ p, p ∈ idxs ↔ p ∈ idxs') (k : Nat) (l : List α) :
    delAtAux idxs k l = delAtAux idxs' k l := by
  induction l generalizing k with
  | nil => simp [delAtAux]
  | cons y ys ih => simp [delAtAux, hc, ih]

theorem delAt_congr {idxs idxs' : List Nat} (hc : ∀ p, p ∈ idxs ↔ p ∈ idxs') (l : List α) :
    delAt l idxs = delAt l idxs' := delAtAux_congr hc 0 l

theorem delAtAux_length {idxs : List Nat} (hnd : idxs.Nodup) (l : List α) (k : Nat)
    (hb : ∀ p ∈ idxs, k ≤ p ∧ p < k + l.length) : (delAtAux idxs k l).length + idxs.length = l.length := by
  induction l generalizing k idxs with
  | nil =>
    have : idxs = [] := by
      cases idxs with
      | nil => rfl
      | cons p ps => have := hb p (by simp); simp at this; omega
    simp [delAtAux, this]
  | cons y ys ih =>
    unfold delAtAux
    by_cases hk : k ∈ idxs
    · simp only [hk, ↓reduceIte]
      have hnd' : (idxs.erase k).Nodup := hnd.erase k
      have hb' : ∀ p ∈ idxs.erase k, k + 1 ≤ p ∧ p < k + 1 + ys.length := by
        intro p hp
        have hpk := (List.Nodup.mem_erase_iff hnd).mp hp
        have := hb p hpk.2
        simp at this
        omega
      have hcongr : delAtAux idxs (k + 1) ys = delAtAux (idxs.erase k) (k + 1) ys := by
        -- positions ≥ k+1 are in idxs iff in idxs.erase k
        have : ∀ (l' : List α) (j : Nat), k + 1 ≤ j → delAtAux idxs j l' = delAtAux (idxs.erase k) j l' := by
          intro l'
          induction l' with
          | nil => intro j _; simp [delAtAux]
          | cons z zs ihz =>
            intro j hj
            have hjm : j ∈ idxs ↔ j ∈ idxs.erase k := by
              rw [List.Nodup.mem_erase_iff hnd]
              constructor
              · intro h; exact ⟨by omega, h⟩
              · intro h; exact h.2
            simp only [delAtAux, hjm, ihz (j + 1) (by omega)]
        exact this ys (k + 1) (Nat.le_refl _)
      rw [hcongr]
      have := ih hnd' (k + 1) hb'
      have hl : (idxs.erase k).length = idxs.length - 1 := List.length_erase_of_mem hk
      have hpos : 0 < idxs.length := List.length_pos_of_mem hk
      simp only [List.length_cons]
      omega
    · simp only [hk, ↓reduceIte, List.length_cons]
      have hb' : ∀ p ∈ idxs, k + 1 ≤ p ∧ p < k + 1 + ys.length := by
        intro p hp
        have := hb p hp
        have hne : p ≠ k := fun h => hk (h ▸ hp)
        simp at this
        omega
      have := ih hnd (k + 1) hb'
      omega

theorem delAt_length {idxs : List Nat} (hnd : idxs.Nodup) (l : List α) (hb : ∀ p ∈ idxs, p < l.length) :
    (delAt l idxs).length = l.length - idxs.length := by
  have := delAtAux_length hnd l 0 (fun p hp => ⟨Nat.zero_le _, by simpa using hb p hp⟩)
  unfold delAt; omega

theorem pickAt_nodup {l : List α} (hl : l.Nodup) {idxs : List Nat} (hnd : idxs.Nodup) :
    (pickAt l idxs).Nodup := by
  induction idxs with
  | nil => simp [pickAt]
  | cons p ps ih =>
    have hnd' := List.nodup_cons.mp hnd
    unfold pickAt
    rw [List.filterMap_cons]
    cases hg : l[p]? with
    | none => exact ih hnd'.2
    | some v =>
      simp only
      refine List.nodup_cons.mpr ⟨?_, ih hnd'.2⟩
      intro hv
      obtain ⟨q, hq, hqv⟩ := mem_pickAt.mp hv
      have hpl : p < l.length := by
        rcases Nat.lt_or_ge p l.length with h' | h'
        · exact h'
        · simp [List.getElem?_eq_none h'] at hg
      have : p = q := (List.getElem?_inj hpl hl).mp (hg.trans hqv.symm)
      exact hnd'.1 (this ▸ hq)

theorem pickAt_cons (l : List α) (p : Nat) (ps : List Nat) {v : α} (h : l[p]? = some v) :
    pickAt l (p :: ps) = v :: pickAt l ps := by
  simp [pickAt, h]

/-- sequential unlinking, when every link is in the table: no KeyError, the chain loses the
    positions, the table loses the values -/
theorem unlinkEach_ok (c0 : List α) (hc0 : c0.Nodup) :
    ∀ (todo done : List Nat) (t : List α) (n : Nat), todo.Nodup → (∀ p ∈ todo, p < c0.length) →
      (∀ x ∈ pickAt c0 todo, x ∈ t) →
      ∃ t', LinqSet.unlinkEach c0 done todo t n = (⟨delAt c0 (todo.reverse ++ done), t', n - todo.length⟩, none) ∧
        ∀ x, x ∈ t' ↔ x ∈ t ∧ x ∉ pickAt c0 todo
  | [], done, t, n, _, _, _ => ⟨t, by simp [LinqSet.unlinkEach], by simp [pickAt]⟩
  | p :: ps, done, t, n, hnd, hb, ht => by
    have hp : p < c0.length := hb p (by simp)
    have hg : c0[p]? = some c0[p] := by simp [hp]
    have hpk := pickAt_cons c0 p ps hg
    have hvt : c0[p] ∈ t := ht _ (by rw [hpk]; simp)
    have hnd' := List.nodup_cons.mp hnd
    have hpn := pickAt_nodup hc0 hnd
    rw [hpk] at hpn
    have hpn' := List.nodup_cons.mp hpn
    obtain ⟨t', he, hm⟩ := unlinkEach_ok c0 hc0 ps (p :: done) (sdel t c0[p]) (n - 1) hnd'.2
      (fun q hq => hb q (by simp [hq]))
      (fun x hx => by
        rw [mem_sdel]
        refine ⟨ht x (by rw [hpk]; simp [hx]), fun hxe => ?_⟩
        subst hxe
        exact hpn'.1 hx)
    refine ⟨t', ?_, ?_⟩
    · unfold LinqSet.unlinkEach
      simp only [hg, hvt, ↓reduceIte]
      rw [he]
      simp only [List.reverse_cons, List.append_assoc, List.singleton_append, List.length_cons]
      congr 2
      omega
    · intro x
      rw [hm, mem_sdel, hpk]
      simp only [List.mem_cons, not_or]
      constructor
      · rintro ⟨⟨h1, h2⟩, h3⟩; exact ⟨h1, h2, h3⟩
      · rintro ⟨h1, h2, h3⟩; exact ⟨⟨h1, h2⟩, h3⟩

theorem LinqSet.delSlice_sim {c : LinqSet α} {l : List α} (h : LRel c l) (s : Slice) :
    RelRes LRel (LinqSet.delSlice c s) (Spec.delSlice l s) := by
  unfold LinqSet.delSlice Spec.delSlice
  rw [h.abs, h.len]
  cases hs : sliceIdx s l.length with
  | none => exact ⟨h, .err _⟩
  | some idxs =>
    obtain ⟨hnd, hb⟩ := sliceIdx_spec hs
    obtain ⟨t', he, hm⟩ := unlinkEach_ok l h.nodup idxs [] c.table l.length hnd hb
      (fun x hx => (h.table x).mpr (pickAt_subset x hx))
    simp only [he]
    have hcg : delAt l (idxs.reverse ++ []) = delAt l idxs := delAt_congr (by simp) l
    rw [hcg]
    have hmd : ∀ x, x ∈ delAt l idxs ↔ x ∈ l ∧ x ∉ pickAt l idxs := fun x => mem_delAt_iff h.nodup
    refine ⟨⟨rfl, delAt_nodup h.nodup, ?_, ?_⟩, .ok .unit⟩
    · intro x; simp only [hm, h.table, hmd]
    · simp only; rw [delAt_length hnd l hb]

theorem LinqSet.setIdx_sim {c : LinqSet α} {l : List α} (h : LRel c l) (i : Int) (v : α) :
    RelRes LRel (LinqSet.setIdx c i v) (Spec.setIdx (linqSig α le) l i v) := by
  unfold LinqSet.setIdx Spec.setIdx
  rw [h.abs, h.len]
  cases hn : normIdx l.length i with
  | none => exact ⟨h, .err _⟩
  | some p =>
    have hp := normIdx_lt hn
    have hg : l[p]? = some l[p] := by simp [hp]
    simp only [hg]
    generalize hold : l[p] = old at hg
    have hol : old ∈ l := hold ▸ List.getElem_mem _
    rw [LinqSet.has_eq h, plain_clashes]
    have hbool : (decide (v ∈ l) && v != old) = decide (v ∈ l ∧ v ≠ old) := by
      rw [Bool.eq_iff_iff]; simp
    rw [hbool]
    by_cases hd : v ∈ l ∧ v ≠ old
    · rw [if_pos (decide_eq_true hd), if_pos hd]; exact ⟨h, .err _⟩
    · rw [if_neg (fun hc => hd (of_decide_eq_true hc)), if_neg hd]
      have hos : old ∈ c.table := (h.table old).mpr hol
      simp only [Bool.false_eq_true, ↓reduceIte, hos, not_true_eq_false]
      have hnd1 : ([p] : List Nat).Nodup := by simp
      have hb1 : ∀ x ∈ ([p] : List Nat), x < l.length := by simpa using hp
      have hpk := pickAt_single hg
      have hnd : (l.set p v).Nodup := by
        rw [← assignAt_single, assignAt_nodup_iff h.nodup hnd1 hb1 rfl, hpk]
        refine ⟨by simp, ?_⟩
        intro w hw hwl
        simp only [List.mem_singleton] at hw ⊢
        subst hw
        by_cases hwo : w = old
        · exact hwo
        · exact (hd ⟨hwl, hwo⟩).elim
      have hm : ∀ x, x ∈ l.set p v ↔ (x ∈ l ∧ x ∉ [old]) ∨ x ∈ [v] := by
        intro x; rw [← assignAt_single, mem_assignAt h.nodup hnd1 hb1 rfl, hpk]
      refine ⟨⟨rfl, hnd, ?_, ?_⟩, .ok .unit⟩
      · intro x
        simp only [mem_sadd, mem_sdel, h.table, hm, List.mem_singleton]
        exact Or.comm
      · simp [h.len]

theorem delKeys_ok : ∀ (ks t : List α), ks.Nodup → (∀ x ∈ ks, x ∈ t) →
    ∃ t', LinqSet.delKeys t ks = .ok t' ∧ ∀ x, x ∈ t' ↔ x ∈ t ∧ x ∉ ks
  | [], t, _, _ => ⟨t, rfl, by simp⟩
  | k :: ks, t, hnd, ht => by
    have hnd' := List.nodup_cons.mp hnd
    have hk : k ∈ t := ht k (by simp)
    obtain ⟨t', he, hm⟩ := delKeys_ok ks (sdel t k) hnd'.2 (fun x hx => by
      rw [mem_sdel]
      exact ⟨ht x (by simp [hx]), fun hxe => hnd'.1 (hxe ▸ hx)⟩)
    refine ⟨t', by simp [LinqSet.delKeys, hk, he], ?_⟩
    intro x
    rw [hm, mem_sdel]
    simp only [List.mem_cons, not_or]
    constructor
    · rintro ⟨⟨h1, h2⟩, h3⟩; exact ⟨h1, h2, h3⟩
    · rintro ⟨h1, h2, h3⟩; exact ⟨⟨h1, h2⟩, h3⟩

theorem LinqSet.setSlice_sim {c : LinqSet α} {l : List α} (h : LRel c l) (s : Slice) (vs : List α) :
    RelRes LRel (LinqSet.setSlice c s vs) (Spec.setSlice (linqSig α le) l s vs) := by
  unfold LinqSet.setSlice Spec.setSlice
  rw [h.abs, h.len]
  cases hs : sliceIdx s l.length with
  | none => exact ⟨h, .err _⟩
  | some idxs =>
    obtain ⟨hnd, hb⟩ := sliceIdx_spec hs
    simp only [plain_clashes]
    by_cases hlen : idxs.length = vs.length
    · simp only [hlen, ne_eq, not_true_eq_false, ↓reduceIte]
      have hiff := assignAt_nodup_iff h.nodup hnd hb hlen
      by_cases hemp : idxs.isEmpty = true
      · have hi : idxs = [] := List.isEmpty_iff.mp hemp
        subst hi
        have hv : vs = [] := List.eq_nil_of_length_eq_zero (by simpa using hlen.symm)
        subst hv
        simp [assignAt, h.nodup]
        exact ⟨h, .ok .unit⟩
      · simp only [hemp, Bool.false_eq_true, ↓reduceIte]
        have hany : (vs.any fun v => LinqSet.has c v && !(pickAt l idxs).contains v) = true ↔
            ¬ ∀ v ∈ vs, v ∈ l → v ∈ pickAt l idxs := by
          simp only [List.any_eq_true, Bool.and_eq_true, LinqSet.has_eq h, decide_eq_true_eq,
            Bool.not_eq_true', List.contains_eq_mem, decide_eq_false_iff_not]
          constructor
          · rintro ⟨v, hv, hvl, hn⟩ hall; exact hn (hall v hv hvl)
          · intro hnall
            refine Classical.byContradiction fun hne => hnall fun v hv hvl => ?_
            refine Classical.byContradiction fun hn => hne ⟨v, hv, hvl, hn⟩
        by_cases h1 : (vs.any fun v => LinqSet.has c v && !(pickAt l idxs).contains v) = true
        · have : ¬ (assignAt l idxs vs).Nodup := fun hn => (hany.mp h1) (hiff.mp hn).2
          simp only [h1, this, not_false_eq_true, ↓reduceIte]; exact ⟨h, .err _⟩
        · simp only [h1, Bool.false_eq_true, ↓reduceIte]
          have hall : ∀ v ∈ vs, v ∈ l → v ∈ pickAt l idxs := Classical.not_not.mp (fun hn => h1 (hany.mpr hn))
          by_cases h2 : (firstRepeat [] vs).isSome = true
          · have : ¬ (assignAt l idxs vs).Nodup := fun hn => (firstRepeat_isSome.mp h2) (hiff.mp hn).1
            simp only [h2, this, not_false_eq_true, ↓reduceIte]; exact ⟨h, .err _⟩
          · have hvs : vs.Nodup := Classical.not_not.mp (fun hn => h2 (firstRepeat_isSome.mpr hn))
            have hr : (assignAt l idxs vs).Nodup := hiff.mpr ⟨hvs, hall⟩
            simp only [h2, Bool.false_eq_true, ↓reduceIte, hr, not_true_eq_false]
            obtain ⟨t', he, hmt⟩ := delKeys_ok (pickAt l idxs) c.table (pickAt_nodup h.nodup hnd)
              (fun x hx => (h.table x).mpr (pickAt_subset x hx))
            simp only [he]
            have hm : ∀ x, x ∈ assignAt l idxs vs ↔ (x ∈ l ∧ x ∉ pickAt l idxs) ∨ x ∈ vs :=
              fun x => mem_assignAt h.nodup hnd hb hlen
            refine ⟨⟨rfl, hr, ?_, ?_⟩, .ok .unit⟩
            · intro x; simp only [mem_supdate, hmt, h.table, hm]
            · simp [assignAt_length, h.len]
    · simp only [ne_eq, hlen, not_false_eq_true, ↓reduceIte]; exact ⟨h, .err _⟩

theorem LinqSet.wedge_sim {c : LinqSet α} {l : List α} (h : LRel c l) (v nb : α) (rel : Int) :
    RelRes LRel (LinqSet.wedge c v nb rel) (Spec.wedge l v nb rel) := by
  unfold LinqSet.wedge Spec.wedge
  rw [LinqSet.has_eq h, LinqSet.has_eq h, h.abs]
  by_cases hr : rel ≠ 1 ∧ rel ≠ -1
  · simp only [hr, ne_eq, not_false_eq_true, and_self, ↓reduceIte]; exact ⟨h, .err _⟩
  · simp only [hr, ↓reduceIte]
    by_cases hnb : nb ∈ l
    · simp only [hnb, decide_true, Bool.not_true, Bool.false_eq_true, ↓reduceIte, not_true_eq_false]
      by_cases hv : v ∈ l
      · simp only [hv, decide_true, ↓reduceIte]; exact ⟨h, .err _⟩
      · simp only [hv, decide_false, Bool.false_eq_true, ↓reduceIte]
        have hlt : l.idxOf nb < l.length := List.idxOf_lt_length_of_mem hnb
        have hk : (if rel = 1 then l.idxOf nb + 1 else l.idxOf nb) ≤ l.length := by split <;> omega
        have hm : ∀ x, x ∈ l.insertIdx (if rel = 1 then l.idxOf nb + 1 else l.idxOf nb) v ↔ x = v ∨ x ∈ l :=
          fun x => List.mem_insertIdx hk
        refine ⟨⟨rfl, nodup_insertIdx h.nodup hv hk, ?_, ?_⟩, .ok .unit⟩
        · intro x; simp only [mem_sadd, h.table, hm]
        · simp [List.length_insertIdx, hk, h.len]
    · simp only [hnb, decide_false, Bool.not_false, ↓reduceIte, not_false_eq_true]; exact ⟨h, .err _⟩

/-- `linqset` simulates the specification list -/
theorem LinqSet.sim : Sim (LinqSet.prims (α := α)) (Spec.prims (linqSig α le)) LRel where
  empty := ⟨rfl, List.nodup_nil, fun _ => Iff.rfl, rfl⟩
  len h := by simp [LinqSet.prims, Spec.prims, h.len]
  has h r := by simp only [LinqSet.prims, Spec.prims]; rw [LinqSet.has_eq h, plain_has]
  iter h := h.abs
  riter h := by simp [LinqSet.prims, Spec.prims, h.abs]
  getIdx h i := LinqSet.getIdx_sim h i
  insert h i v := LinqSet.insert_sim h i v
  remove h r := LinqSet.remove_sim h r
  delIdx h i := LinqSet.delIdx_sim h i
  delSlice h s := LinqSet.delSlice_sim h s
  setIdx h i v := LinqSet.setIdx_sim h i v
  setSlice h s vs := LinqSet.setSlice_sim h s vs
  reverse {c l} h := by
    simp only [LinqSet.prims, Spec.prims, LinqSet.reverse, h.abs]
    exact ⟨⟨rfl, (List.reverse_perm l).nodup_iff.mpr h.nodup,
      fun x => (h.table x).trans (List.reverse_perm _).mem_iff.symm, by simp [h.len]⟩, .ok .unit⟩
  clear h := ⟨⟨rfl, List.nodup_nil, fun _ => Iff.rfl, rfl⟩, .ok .unit⟩
  copy h := by
    simp only [LinqSet.prims, Spec.prims, LinqSet.copy, h.abs]
    exact ⟨⟨rfl, h.nodup, fun x => by simp, h.len⟩, .ok .unit⟩
  sort h := by simp [LinqSet.prims, Spec.prims, plainSig]
  wedge h := by
    simp only [LinqSet.prims, Spec.prims, plainSig, ↓reduceIte]
    exact fun v nb rel => LinqSet.wedge_sim h v nb rel
  toRef := rfl
  rawRef := rfl
  refEq := rfl

/-- the hooks of a plain `qset` (none) are trivially correct -/
theorem plainHooksOK : HooksOK (plainHooks α le) (plainSig α le true false) (fun _ _ => True) where
  init := trivial
  toRef := rfl
  rawRef := rfl
  refEq := rfl
  le := rfl
  hasSort := rfl
  hasWedge := rfl
  toRef_keys v m := by simp [plainSig, eq_comm]
  has_eq {e set l} _ hs r := by
    rw [plain_has]
    simp only [plainHooks, List.contains_eq_mem]
    rw [Bool.eq_iff_iff]; simp [hs]
  check_eq _ _ arr leaving _ := by rw [plain_clashes]; rfl
  done_inv _ _ _ _ _ _ _ _ _ _ := trivial
  clear _ := trivial
  congr _ _ := trivial

end Ptx.Cont
