/-
  Ptx.Proofs.SearchQ — the quantifier layer: soundness of the executable check `invBadQ`, and "completed ⇒ saturated" for
  branches WITH quantifier nodes (new-constant and each-constant rules) from `Inv` + `InvQ`.
-/
import Ptx.Search.InvQ
import Ptx.Proofs.SearchSat
import Ptx.Proofs.SearchInv
namespace Ptx.Search
open Ptx

theorem ncReg_mem {ncs : List ((RuleKey × Nat) × List (Nat × Nat))} {k : RuleKey} {i : Nat} (hr : ncReg ncs k i = true) :
    ∃ p ∈ ncs, p.1 = (k, i) := by
  simp only [ncReg, List.any_eq_true, beq_iff_eq] at hr
  exact hr

theorem branchInvQ_of_checks {L : LogicData} {b : Branch} {h : BranchH}
    (hc : ∀ p ∈ branchChecksQ L b h, p.2 = true) : BranchInvQ L b h ∧ TickedQ L b := by
  simp only [branchChecksQ, List.mem_cons, List.not_mem_nil, or_false, forall_eq_or_imp, forall_eq] at hc
  obtain ⟨h1, h0, h2, h3, h4⟩ := hc
  refine ⟨⟨?_, ?_, ?_, ?_⟩, ?_⟩
  · intro k i nd hn hk he
    simp only [ckNcRegistered, List.all_eq_true] at h1
    have := h1 (nd, i) (by rw [List.mem_zipIdx_iff_getElem?]; exact hn)
    simp only [hk, he, Bool.not_true, Bool.false_or] at this
    exact this
  · intro k i hr
    obtain ⟨p, hp, hpk⟩ := ncReg_mem hr
    simp only [ckNcKey, List.all_eq_true] at h0
    have := h0 p hp
    rw [hpk] at this
    simp only at this
    split at this
    · next nd hnd => exact ⟨nd, hnd, by simpa using this⟩
    · cases this
  · intro k i hr c hcm
    obtain ⟨p, hp, hpk⟩ := ncReg_mem hr
    simp only [ckNcDone, List.all_eq_true] at h2
    have := h2 p hp c hcm
    rw [hpk] at this
    simp only [Bool.or_eq_true, List.contains_iff_mem, BranchH.nc] at this
    exact this
  · intro k i c hcm
    obtain ⟨p, hp, hpk⟩ := aget_mem_key (m := h.ncs) (k := (k, i)) hcm
    simp only [ckNcSub, List.all_eq_true, BranchH.nc] at h3
    have := h3 p hp c (by rw [hpk]; exact hcm)
    simpa using this
  · intro i hi sn d w r whole l0 hn hrf hw
    simp only [ckTickedQ, List.all_eq_true] at h4
    have := h4 i hi
    simp only [hn, hrf, hw, beq_self_eq_true, Bool.not_true, Bool.false_or, Bool.or_eq_true, List.isEmpty_iff,
      List.any_eq_true] at this
    rcases this with (h5 | h5) | h5
    · exact Or.inl h5
    · exact Or.inr (Or.inl h5)
    · exact Or.inr (Or.inr h5)

theorem checksQ_of_invBadQ {L : LogicData} {s : SState} (h : invBadQ L s = []) {bi : Nat} {b : Branch} {hh : BranchH}
    (htab : s.tab[bi]? = some b) (hhs : s.hs[bi]? = some hh) (hopen : b.closed = false) :
    ∀ p ∈ branchChecksQ L b hh, p.2 = true := by
  unfold invBadQ at h
  rw [List.flatMap_eq_nil_iff] at h
  have := h (b, bi) (by rw [List.mem_zipIdx_iff_getElem?]; exact htab)
  simp only [hopen, Bool.false_eq_true, ↓reduceIte, hhs] at this
  intro p hp
  rw [List.filterMap_eq_nil_iff] at this
  have := this p hp
  split at this
  · next hc => exact hc
  · cases this

/-- soundness of the run-time check of the quantifier layer -/
theorem invQ_of_invBadQ {L : LogicData} {s : SState} (h : invBadQ L s = []) : InvQ L s := by
  intro bi b hh htab hhs hopen
  exact (branchInvQ_of_checks (checksQ_of_invBadQ h htab hhs hopen)).1

/-- … and the branch property `TickedQ` of every open branch -/
theorem tickedQ_of_invBadQ {L : LogicData} {s : SState} (h : invBadQ L s = []) {bi : Nat} {b : Branch}
    (htab : s.tab[bi]? = some b) (hopen : b.closed = false) (hlen : s.hs.length = s.tab.length) : TickedQ L b := by
  have hbi : bi < s.tab.length := by
    rcases Nat.lt_or_ge bi s.tab.length with h1 | h1
    · exact h1
    · rw [List.getElem?_eq_none h1] at htab; cases htab
  obtain ⟨hh, hhs⟩ : ∃ hh, s.hs[bi]? = some hh := ⟨s.hs[bi]'(by omega), by simp [hlen, hbi]⟩
  exact (branchInvQ_of_checks (checksQ_of_invBadQ h htab hhs hopen)).2

/-! ### completed ⇒ saturated with quantifier nodes -/


/-- the worlds that carry sentence nodes (no world = world 0) -/
def sentWorlds (b : Branch) : List Nat := b.nodes.filterMap fun | .sent _ _ w => some (w.getD 0) | _ => none

/-- "within the constant limit at every world", as a Boolean -/
def constWithinB (mc : Nat) (b : Branch) : Bool := (sentWorlds b).all fun w => !constExceeded mc b (some w)

theorem constWithin_of_B {mc : Nat} {b : Branch} (h : constWithinB mc b = true) : ∀ w, constExceeded mc b w = false := by
  intro w
  have hw : constExceeded mc b w = constExceeded mc b (some (w.getD 0)) := by simp [constExceeded]
  rw [hw]
  by_cases hm : w.getD 0 ∈ sentWorlds b
  · simp only [constWithinB, List.all_eq_true, Bool.not_eq_eq_eq_not, Bool.not_true] at h
    exact h _ hm
  · have : constsAt b (w.getD 0) = [] := by
      rw [List.eq_nil_iff_forall_not_mem]
      intro c hc
      simp only [constsAt, dedupPair, List.mem_eraseDups, List.mem_flatMap] at hc
      obtain ⟨nd, hnd, hcn⟩ := hc
      cases nd with
      | sent sn d w' =>
        simp only at hcn
        split at hcn
        · next he =>
          apply hm
          simp only [sentWorlds, List.mem_filterMap]
          exact ⟨_, hnd, by simp at he; simp [he]⟩
        · cases hcn
      | access _ _ => cases hcn
      | flag _ => cases hcn
      | ellipsis => cases hcn
    simp [constExceeded, this]

section staticQ
variable {L : LogicData} {s : SState} {bi : Nat} {b : Branch} {h : BranchH}

theorem constDoneB_eq {i : Nat} {sn : Sent} {d : Option Bool} {w : Option Nat} {r : Rule} {whole l0 : Sent}
    (hi : b.nodes[i]? = some (.sent sn d w)) (hrf : L.ruleFor sn d = some (r, whole, l0)) (c : Nat × Nat) :
    constDoneB L b i c = groupsDone b (instGroups whole l0 w (some c) none r) := by
  simp [constDoneB, hi, hrf]

theorem nodeMissing_nil_quant (hQT : quantTicksB L = true) (I : BranchInv L s bi b h) (Q : BranchInvQ L b h) (T : TickedQ L b)
    (hb : s.tab[bi]? = some b) (hh : s.hs[bi]? = some h) (ho : b.closed = false)
    (hnone : ∀ r : RuleId, targets L s r bi = [])
    (hq : b.hasQuit = false) (hclim : ∀ w, constExceeded s.maxConsts b w = false) (hcl : b.constList ≠ [])
    {sn : Sent} {d : Option Bool} {w : Option Nat} (hm : Node.sent sn d w ∈ b.nodes)
    {r : Rule} {whole l0 : Sent} (hrf : L.ruleFor sn d = some (r, whole, l0))
    (hwit : r.witness = .newConst ∨ r.witness = .eachConst) :
    L.nodeMissing b sn d w = [] := by
  obtain ⟨i, hi⟩ := mem_idx hm
  obtain ⟨k, hk, hrule⟩ := ruleFor_key w hrf
  have hmemr := lookup_mem (l := L.rules) hrule
  simp only [quantTicksB, List.all_eq_true, Bool.and_eq_true, Bool.or_eq_true, Bool.not_eq_eq_eq_not, Bool.not_true] at hQT
  have hqt := hQT _ hmemr
  have hT := hnone (.table k)
  rw [targets_open hb hh ho] at hT
  simp only [tableTargets, hrule] at hT
  have hrel : releasable L s.maxWorlds s.maxConsts b h (.table k) i = false := by
    rcases hwit with hw | hw <;> simp [releasable, hrule, hw, hi, hclim]
  have hconsts : b.consts ≠ [] := by
    intro he
    apply hcl
    simp [Branch.constList, dedupPair, he]
  unfold LogicData.nodeMissing
  simp only [hrf]
  split
  · rfl
  · rcases hwit with hw | hw
    · -- new constant: the node is ticked, `tickedQ` gives the instance
      simp only [hw] at hT ⊢
      have hnl : i ∉ s.live (.table k) bi := by
        intro hl
        have := (List.flatMap_eq_nil_iff.1 hT) i hl
        simp [hi, hclim] at this
      have hti : i ∈ b.ticked := by
        rcases Classical.em (i ∈ b.ticked) with h1 | h1
        · exact h1
        · rcases I.cacheComplete (.table k) i _ hi (by simp [matchesRule, hk]) (fun _ => h1) with h2 | h2
          · exact absurd h2 hnl
          · rw [hrel] at h2; cases h2
      rcases T i hti sn d w r whole l0 hi hrf hw with h1 | h1 | ⟨c, hc, hd⟩
      · rw [hq] at h1; cases h1
      · exact absurd h1 hcl
      · rw [constDoneB_eq hi hrf] at hd
        have : (b.constList.any fun c => groupsDone b (instGroups whole l0 w (some c) none r)) = true :=
          List.any_eq_true.2 ⟨c, hc, hd⟩
        simp [this]
    · -- each constant
      simp only [hw] at hT ⊢
      have hnt : i ∉ b.ticked := by
        intro ht
        obtain ⟨sn', d', w', hn', r', whole', l0', hrf', htk, _⟩ := I.ticked i ht
        rw [hi] at hn'
        simp only [Option.some.injEq, Node.sent.injEq] at hn'
        obtain ⟨rfl, rfl, rfl⟩ := hn'
        rw [hrf] at hrf'
        simp only [Option.some.injEq, Prod.mk.injEq] at hrf'
        obtain ⟨rfl, _, _⟩ := hrf'
        rcases hqt.2 with h1 | h1
        · simp [hw] at h1
        · rw [htk] at h1; cases h1
      have hl : i ∈ s.live (.table k) bi := by
        rcases I.cacheComplete (.table k) i _ hi (by simp [matchesRule, hk]) (fun _ => hnt) with h2 | h2
        · exact h2
        · rw [hrel] at h2; cases h2
      have hfi := (List.flatMap_eq_nil_iff.1 hT) i hl
      simp only [hi, hclim, Bool.false_eq_true, ↓reduceIte] at hfi
      have hun : aget [] h.ncs (k, i) = [] := by
        have hfi' := hfi
        rcases hu : h.nc k i with _ | ⟨c0, cs⟩
        · exact hu
        · exfalso
          simp [hu] at hfi
      have hreg := Q.ncRegistered k i _ hi hk (by simp [isEachConst, hrule, hw])
      have hne : b.constList.isEmpty = false := by
        cases hcl' : b.constList with
        | nil => exact absurd hcl' hcl
        | cons _ _ => rfl
      simp only [hne, Bool.false_eq_true, ↓reduceIte, List.map_eq_nil_iff, List.filter_eq_nil_iff]
      intro c hc
      have hc' : c ∈ b.consts := by simpa [Branch.constList, dedupPair, List.mem_eraseDups] using hc
      rcases Q.ncDone k i hreg c hc' with h1 | h1
      · rw [hun] at h1; cases h1
      · rw [constDoneB_eq hi hrf] at h1
        simp [h1]

/-- identity substitution is exhausted on a branch where the identity rule has no target -/
theorem identMissing_nil (I : BranchInv L s bi b h)
    (hb : s.tab[bi]? = some b) (hh : s.hs[bi]? = some h) (ho : b.closed = false)
    (hnone : ∀ r : RuleId, targets L s r bi = []) : L.identMissing b = [] := by
  unfold LogicData.identMissing
  split
  · rfl
  next hc =>
  have hcl : L.closesSelfIdNeg = true := by simpa using hc
  have hT := hnone .ident
  rw [targets_open hb hh ho] at hT
  simp only at hT
  rw [List.flatMap_eq_nil_iff]
  intro ni hni
  split
  rotate_left
  · rfl
  next q x y w =>
  split
  · rfl
  next hq =>
  rw [List.filterMap_eq_nil_iff]
  intro np hnp
  split
  · rfl
  next hne =>
  split
  rotate_left
  · rfl
  next nd hnd =>
  split
  · rfl
  next hcond =>
  exfalso
  obtain ⟨i, hi⟩ := mem_idx hni
  obtain ⟨j, hj⟩ := mem_idx hnp
  have hq' : q = Pred.identity := by simpa using hq
  -- i is live for the identity rule
  have hnt : i ∉ b.ticked := by
    intro ht
    obtain ⟨sn, d, w', hn', r, whole, l0, hrf, _⟩ := I.ticked i ht
    rw [hi] at hn'
    simp only [Option.some.injEq, Node.sent.injEq] at hn'
    obtain ⟨rfl, _, _⟩ := hn'
    simp [LogicData.ruleFor, Sent.decomp] at hrf
  have hlive : i ∈ s.live .ident bi := by
    rcases I.cacheComplete .ident i _ hi (by simp [matchesRule, isIdentityNode, hq']) (fun _ => hnt) with h1 | h1
    · exact h1
    · simp [releasable] at h1
  -- j is a predication node
  have hjp : j ∈ predIdx b := by
    simp only [predIdx, List.mem_map, List.mem_filter]
    refine ⟨(np, j), ⟨by rw [List.mem_zipIdx_iff_getElem?]; exact hj, ?_⟩, rfl⟩
    unfold identAdd at hnd
    split at hnd
    · rfl
    · cases hnd
  have hji : (j == i) = false := by
    rcases Bool.eq_false_or_eq_true (j == i) with h1 | h1
    · exfalso
      have : j = i := by simpa using h1
      subst this
      rw [hi] at hj
      simp only [Option.some.injEq] at hj
      exact hne (by simp [hj])
    · exact h1
  have hmem : Step.ident bi i j ∈ identTargets L bi b (s.live .ident bi) := by
    unfold identTargets
    simp only [hcl, Bool.not_true, Bool.false_eq_true, ↓reduceIte]
    refine List.mem_flatMap.2 ⟨i, hlive, List.mem_flatMap.2 ⟨j, hjp, ?_⟩⟩
    simp only [hji, Bool.false_eq_true, ↓reduceIte, hi, hj, hnd]
    simp only [Bool.or_eq_true, not_or, Bool.not_eq_true] at hcond
    simp [hcond.1, hcond.2]
  rw [hT] at hmem
  cases hmem

theorem identMissing_of_no_targets (hinv : Inv L s) (hb : s.tab[bi]? = some b) (ho : b.closed = false)
    (hnone : ∀ r : RuleId, targets L s r bi = []) : L.identMissing b = [] := by
  have hlen := hinv.len
  have hbi : bi < s.tab.length := by
    rcases Nat.lt_or_ge bi s.tab.length with h1 | h1
    · exact h1
    · rw [List.getElem?_eq_none h1] at hb; cases hb
  obtain ⟨h, hh⟩ : ∃ h, s.hs[bi]? = some h := ⟨s.hs[bi]'(by omega), by simp [hlen, hbi]⟩
  exact identMissing_nil (hinv.branch bi b h hb hh ho) hb hh ho hnone

/-- `SatMod` for branches with quantifier nodes: from `Inv` and `InvQ` -/
theorem satMod_fo (hEW : EachWorldNoTick L) (hQT : quantTicksB L = true) (hmodal : L.modal = true ∨ L.frameRules = [])
    (hinv : Inv L s) (hinvq : InvQ L s) (htq : TickedQ L b) (hb : s.tab[bi]? = some b) (ho : b.closed = false)
    (hnone : ∀ r : RuleId, targets L s r bi = [])
    (hq : b.hasQuit = false) (hlim : exceeded s.maxWorlds b = false)
    (hclim : ∀ w, constExceeded s.maxConsts b w = false)
    (hcl : b.constList ≠ [] ∨ ∀ sn d w r whole l0, Node.sent sn d w ∈ b.nodes → L.ruleFor sn d = some (r, whole, l0) →
      r.witness ≠ .newConst ∧ r.witness ≠ .eachConst)
    (hident : L.identMissing b = []) : SatMod L b := by
  have hlen := hinv.len
  have hbi : bi < s.tab.length := by
    rcases Nat.lt_or_ge bi s.tab.length with h1 | h1
    · exact h1
    · rw [List.getElem?_eq_none h1] at hb; cases hb
  obtain ⟨h, hh⟩ : ∃ h, s.hs[bi]? = some h := ⟨s.hs[bi]'(by omega), by simp [hlen, hbi]⟩
  have I := hinv.branch bi b h hb hh ho
  have Q := hinvq bi b h hb hh ho
  have hC := hnone .closure
  rw [targets_open hb hh ho] at hC
  have hct : h.closeT = none := by
    cases hc : h.closeT with
    | none => rfl
    | some t => simp [hc] at hC
  refine { nodes := ?_, ident := fun sn d w hm => (I.closeNone hct sn d w hm).2,
           closure := fun sn d w hm hn => (I.closeNone hct sn d w hm).1 hn,
           frame := frameMissing_nil I hb hh ho hnone hlim hmodal, identSub := hident }
  intro sn d w hm
  cases hrf : L.ruleFor sn d with
  | none => simp [LogicData.nodeMissing, hrf]
  | some p =>
    obtain ⟨r, whole, l0⟩ := p
    cases hw : r.witness with
    | none => exact nodeMissing_nil hEW I hb hh ho hnone hq hlim hm (fun r' wh' l' he => by rw [hrf] at he; cases he; exact Or.inl hw)
    | newWorld => exact nodeMissing_nil hEW I hb hh ho hnone hq hlim hm (fun r' wh' l' he => by rw [hrf] at he; cases he; exact Or.inr (Or.inl hw))
    | eachWorld => exact nodeMissing_nil hEW I hb hh ho hnone hq hlim hm (fun r' wh' l' he => by rw [hrf] at he; cases he; exact Or.inr (Or.inr hw))
    | newConst =>
      rcases hcl with hcl | hcl
      · exact nodeMissing_nil_quant hQT I Q htq hb hh ho hnone hq hclim hcl hm hrf (Or.inl hw)
      · exact absurd hw (hcl sn d w r whole l0 hm hrf).1
    | eachConst =>
      rcases hcl with hcl | hcl
      · exact nodeMissing_nil_quant hQT I Q htq hb hh ho hnone hq hclim hcl hm hrf (Or.inr hw)
      · exact absurd hw (hcl sn d w r whole l0 hm hrf).2

end staticQ

end Ptx.Search
