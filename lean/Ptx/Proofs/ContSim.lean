/-
  Ptx.Proofs.ContSim — simulation between two implementations of the container primitives.

  If every primitive of `P` (on states `C`) simulates the corresponding primitive of `Q` (on
  states `L`) along a relation `R`, then so does every operation of the language, because the
  inherited methods (`Mixin.*`) are the same programs over the primitives.  Used with
  `R c l := Inv c ∧ abs c = l` this yields invariant preservation and refinement at once.
-/
import Ptx.Cont.Basic
namespace Ptx.Cont
variable {C L α ρ : Type}

inductive RelRet (R : C → L → Prop) : Ret α C → Ret α L → Prop
  | unit : RelRet R .unit .unit
  | val (a : α) : RelRet R (.val a) (.val a)
  | nat (n : Nat) : RelRet R (.nat n) (.nat n)
  | bool (b : Bool) : RelRet R (.bool b) (.bool b)
  | list (l : List α) : RelRet R (.list l) (.list l)
  | cont {c : C} {l : L} : R c l → RelRet R (.cont c) (.cont l)

inductive RelOut (R : C → L → Prop) : Out α C → Out α L → Prop
  | ok {r : Ret α C} {r' : Ret α L} : RelRet R r r' → RelOut R (.ok r) (.ok r')
  | err (e : Exc) : RelOut R (.err e) (.err e)

/-- results related: states by `R`, outcomes equal up to `R` on returned containers -/
def RelRes (R : C → L → Prop) (x : Res α C) (y : Res α L) : Prop := R x.1 y.1 ∧ RelOut R x.2 y.2

/-- outcome lists related pointwise -/
inductive RelOuts (R : C → L → Prop) : List (Out α C) → List (Out α L) → Prop
  | nil : RelOuts R [] []
  | cons {o : Out α C} {o' : Out α L} {os : List (Out α C)} {os' : List (Out α L)} :
      RelOut R o o' → RelOuts R os os' → RelOuts R (o :: os) (o' :: os')

inductive RelExc (R : C → L → Prop) : Except Exc C → Except Exc L → Prop
  | ok {c : C} {l : L} : R c l → RelExc R (.ok c) (.ok l)
  | error (e : Exc) : RelExc R (.error e) (.error e)

def RelOptFn {A : Type} (rel : A → A → Prop) : Option A → Option A → Prop
  | some a, some b => rel a b
  | none, none => True
  | _, _ => False

theorem RelOut.map_eq {R : C → L → Prop} {f : C → L} (hf : ∀ c l, R c l → f c = l)
    {o : Out α C} {o' : Out α L} (h : RelOut R o o') : o.map f = o' := by
  cases h with
  | err e => rfl
  | ok hr => cases hr <;> simp [Out.map, Ret.map]; exact hf _ _ (by assumption)

theorem RelOuts.map_eq {R : C → L → Prop} {f : C → L} (hf : ∀ c l, R c l → f c = l)
    {os : List (Out α C)} {os' : List (Out α L)} (h : RelOuts R os os') : os.map (Out.map f) = os' := by
  induction h with
  | nil => rfl
  | cons h1 _ ih => simp [RelOut.map_eq hf h1, ih]

/-- every container an operation returned satisfies (the left part of) the relation -/
theorem RelOuts.cont {R : C → L → Prop} {os : List (Out α C)} {os' : List (Out α L)} (h : RelOuts R os os')
    {c : C} (hc : Out.ok (.cont c) ∈ os) : ∃ l, R c l := by
  induction h with
  | nil => simp at hc
  | cons h1 _ ih =>
    rcases List.mem_cons.mp hc with hc | hc
    · subst hc
      cases h1 with
      | ok hr => cases hr with | cont hr => exact ⟨_, hr⟩
    · exact ih hc

/-- every primitive of `P` simulates that of `Q` along `R` -/
structure Sim (P : Prims C α ρ) (Q : Prims L α ρ) (R : C → L → Prop) : Prop where
  empty : R P.empty Q.empty
  len : ∀ {c l}, R c l → P.len c = Q.len l
  has : ∀ {c l}, R c l → ∀ r, P.has c r = Q.has l r
  iter : ∀ {c l}, R c l → P.iter c = Q.iter l
  riter : ∀ {c l}, R c l → P.riter c = Q.riter l
  getIdx : ∀ {c l}, R c l → ∀ i, P.getIdx c i = Q.getIdx l i
  insert : ∀ {c l}, R c l → ∀ i v, RelRes R (P.insert c i v) (Q.insert l i v)
  remove : ∀ {c l}, R c l → ∀ r, RelRes R (P.remove c r) (Q.remove l r)
  delIdx : ∀ {c l}, R c l → ∀ i, RelRes R (P.delIdx c i) (Q.delIdx l i)
  delSlice : ∀ {c l}, R c l → ∀ s, RelRes R (P.delSlice c s) (Q.delSlice l s)
  setIdx : ∀ {c l}, R c l → ∀ i v, RelRes R (P.setIdx c i v) (Q.setIdx l i v)
  setSlice : ∀ {c l}, R c l → ∀ s vs, RelRes R (P.setSlice c s vs) (Q.setSlice l s vs)
  reverse : ∀ {c l}, R c l → RelRes R (P.reverse c) (Q.reverse l)
  clear : ∀ {c l}, R c l → RelRes R (P.clear c) (Q.clear l)
  copy : ∀ {c l}, R c l → RelRes R (P.copy c) (Q.copy l)
  sort : ∀ {c l}, R c l → match P.sort, Q.sort with
    | some f, some g => ∀ b, RelRes R (f c b) (g l b)
    | none, none => True
    | _, _ => False
  wedge : ∀ {c l}, R c l → match P.wedge, Q.wedge with
    | some f, some g => ∀ v nb rel, RelRes R (f c v nb rel) (g l v nb rel)
    | none, none => True
    | _, _ => False
  toRef : P.toRef = Q.toRef
  rawRef : P.rawRef = Q.rawRef
  refEq : P.refEq = Q.refEq

namespace Sim
variable {P : Prims C α ρ} {Q : Prims L α ρ} {R : C → L → Prop}

theorem relRes_same {c : C} {l : L} (h : R c l) (o : Out α C) (o' : Out α L) (ho : RelOut R o o') :
    RelRes R (c, o) (l, o') := ⟨h, ho⟩

theorem index_eq (S : Sim P Q R) {c l} (h : R c l) (r : ρ) : Mixin.index P c r = Mixin.index Q l r := by
  unfold Mixin.index
  have h1 : P.has c = Q.has l := funext (S.has h)
  have h2 : P.getIdx c = Q.getIdx l := funext (S.getIdx h)
  rw [h1, h2, S.len h, S.refEq]

theorem append (S : Sim P Q R) {c l} (h : R c l) (v : α) :
    RelRes R (Mixin.append P c v) (Mixin.append Q l v) := by
  unfold Mixin.append
  rw [S.len h]
  exact S.insert h _ v

theorem add (S : Sim P Q R) {c l} (h : R c l) (v : α) :
    RelRes R (Mixin.add P c v) (Mixin.add Q l v) := by
  have ha := S.append h v
  unfold Mixin.add
  generalize Mixin.append P c v = x at ha
  generalize Mixin.append Q l v = y at ha
  obtain ⟨c', o⟩ := x
  obtain ⟨l', o'⟩ := y
  obtain ⟨h1, h2⟩ := ha
  cases h2 with
  | ok hr => exact ⟨h1, .ok hr⟩
  | err e => cases e <;> first | exact ⟨h1, .ok .unit⟩ | exact ⟨h1, .err _⟩

theorem discard (S : Sim P Q R) {c l} (h : R c l) (v : α) :
    RelRes R (Mixin.discard P c v) (Mixin.discard Q l v) := by
  unfold Mixin.discard
  rw [S.has h, S.toRef]
  split
  · exact S.remove h _
  · exact ⟨h, .ok .unit⟩

theorem pop (S : Sim P Q R) {c l} (h : R c l) (i : Int) :
    RelRes R (Mixin.pop P c i) (Mixin.pop Q l i) := by
  unfold Mixin.pop
  rw [S.getIdx h]
  cases Q.getIdx l i with
  | error e => exact ⟨h, .err e⟩
  | ok v =>
    have hd := S.delIdx h i
    generalize P.delIdx c i = x at hd
    generalize Q.delIdx l i = y at hd
    obtain ⟨c', o⟩ := x
    obtain ⟨l', o'⟩ := y
    obtain ⟨h1, h2⟩ := hd
    cases h2 with
    | ok hr => exact ⟨h1, .ok (.val v)⟩
    | err e => exact ⟨h1, .err e⟩

theorem each {f : C → α → Res α C} {g : L → α → Res α L}
    (hf : ∀ {c l}, R c l → ∀ v, RelRes R (f c v) (g l v)) :
    ∀ (vs : List α) {c l}, R c l → RelRes R (Mixin.each f c vs) (Mixin.each g l vs)
  | [], _, _, h => ⟨h, .ok .unit⟩
  | v :: vs, c, l, h => by
    have hv := hf h v
    unfold Mixin.each
    generalize f c v = x at hv
    generalize g l v = y at hv
    obtain ⟨c', o⟩ := x
    obtain ⟨l', o'⟩ := y
    obtain ⟨h1, h2⟩ := hv
    cases h2 with
    | ok hr => exact each hf vs h1
    | err e => exact ⟨h1, .err e⟩

theorem update (S : Sim P Q R) {c l} (h : R c l) (vs : List α) :
    RelRes R (Mixin.update P c vs) (Mixin.update Q l vs) := each (fun h v => S.add h v) vs h

theorem extend (S : Sim P Q R) {c l} (h : R c l) (vs : List α) :
    RelRes R (Mixin.extend P c vs) (Mixin.extend Q l vs) := each (fun h v => S.append h v) vs h

theorem isub (S : Sim P Q R) {c l} (h : R c l) (vs : List α) :
    RelRes R (Mixin.isub P c vs) (Mixin.isub Q l vs) := each (fun h v => S.discard h v) vs h

theorem fromIter (S : Sim P Q R) (vs : List α) : RelExc R (Mixin.fromIter P vs) (Mixin.fromIter Q vs) := by
  have hu := S.update S.empty vs
  unfold Mixin.fromIter
  generalize Mixin.update P P.empty vs = x at hu
  generalize Mixin.update Q Q.empty vs = y at hu
  obtain ⟨c', o⟩ := x
  obtain ⟨l', o'⟩ := y
  obtain ⟨h1, h2⟩ := hu
  cases h2 with
  | ok hr => exact .ok h1
  | err e => exact .error e

theorem pureRes {c l} (h : R c l) {x : Except Exc C} {y : Except Exc L} (hxy : RelExc R x y) :
    RelRes (α := α) R (Mixin.pure c x) (Mixin.pure l y) := by
  cases hxy with
  | ok hr => exact ⟨h, .ok (.cont hr)⟩
  | error e => exact ⟨h, .err e⟩

theorem or (S : Sim P Q R) {c l} (h : R c l) (vs : List α) :
    RelRes R (Mixin.or P c vs) (Mixin.or Q l vs) := by
  unfold Mixin.or
  rw [S.iter h]
  exact pureRes h (S.fromIter _)

theorem and (S : Sim P Q R) {c l} (h : R c l) (vs : List α) :
    RelRes R (Mixin.and P c vs) (Mixin.and Q l vs) := by
  unfold Mixin.and
  have : (fun v => P.has c (P.rawRef v)) = (fun v => Q.has l (Q.rawRef v)) := by
    funext v; rw [S.has h, S.rawRef]
  rw [this]
  exact pureRes h (S.fromIter _)

theorem subC (S : Sim P Q R) {c l} (h : R c l) (vs : List α) :
    RelExc R (Mixin.subC P c vs) (Mixin.subC Q l vs) := by
  unfold Mixin.subC
  have ho := S.fromIter vs
  generalize Mixin.fromIter P vs = x at ho
  generalize Mixin.fromIter Q vs = y at ho
  cases ho with
  | error e => exact .error e
  | ok hr =>
    rename_i o o'
    have : (fun v => !P.has o (P.toRef v)) = (fun v => !Q.has o' (Q.toRef v)) := by
      funext v; rw [S.has hr, S.toRef]
    simp only [this, S.iter h]
    exact S.fromIter _

theorem sub (S : Sim P Q R) {c l} (h : R c l) (vs : List α) :
    RelRes R (Mixin.sub P c vs) (Mixin.sub Q l vs) := pureRes h (S.subC h vs)

theorem xorC (S : Sim P Q R) {c l} (h : R c l) (vs : List α) :
    RelExc R (Mixin.xorC P c vs) (Mixin.xorC Q l vs) := by
  unfold Mixin.xorC
  have ho := S.fromIter vs
  generalize Mixin.fromIter P vs = x at ho
  generalize Mixin.fromIter Q vs = y at ho
  cases ho with
  | error e => exact .error e
  | ok hr =>
    rename_i o o'
    have e1 : (fun v => !P.has o (P.toRef v)) = (fun v => !Q.has o' (Q.toRef v)) := by
      funext v; rw [S.has hr, S.toRef]
    have e2 : (fun v => !P.has c (P.toRef v)) = (fun v => !Q.has l (Q.toRef v)) := by
      funext v; rw [S.has h, S.toRef]
    simp only [e1, e2, S.iter h, S.iter hr]
    have ha := S.fromIter (List.filter (fun v => !Q.has o' (Q.toRef v)) (Q.iter l))
    generalize Mixin.fromIter P (List.filter (fun v => !Q.has o' (Q.toRef v)) (Q.iter l)) = xa at ha
    generalize Mixin.fromIter Q (List.filter (fun v => !Q.has o' (Q.toRef v)) (Q.iter l)) = ya at ha
    cases ha with
    | error e => exact .error e
    | ok hra =>
      have hb := S.fromIter (List.filter (fun v => !Q.has l (Q.toRef v)) (Q.iter o'))
      generalize Mixin.fromIter P (List.filter (fun v => !Q.has l (Q.toRef v)) (Q.iter o')) = xb at hb
      generalize Mixin.fromIter Q (List.filter (fun v => !Q.has l (Q.toRef v)) (Q.iter o')) = yb at hb
      cases hb with
      | error e => exact .error e
      | ok hrb =>
        simp only [S.iter hra, S.iter hrb]
        exact S.fromIter _

theorem xor (S : Sim P Q R) {c l} (h : R c l) (vs : List α) :
    RelRes R (Mixin.xor P c vs) (Mixin.xor Q l vs) := pureRes h (S.xorC h vs)

theorem iand (S : Sim P Q R) {c l} (h : R c l) (vs : List α) :
    RelRes R (Mixin.iand P c vs) (Mixin.iand Q l vs) := by
  unfold Mixin.iand
  have hs := S.subC h vs
  generalize Mixin.subC P c vs = x at hs
  generalize Mixin.subC Q l vs = y at hs
  cases hs with
  | error e => exact ⟨h, .err e⟩
  | ok hr =>
    simp only [S.iter hr]
    exact each (fun h v => S.discard h v) _ h

theorem ixor (S : Sim P Q R) {c l} (h : R c l) (vs : List α) :
    RelRes R (Mixin.ixor P c vs) (Mixin.ixor Q l vs) := by
  unfold Mixin.ixor
  have ho := S.fromIter vs
  generalize Mixin.fromIter P vs = x at ho
  generalize Mixin.fromIter Q vs = y at ho
  cases ho with
  | error e => exact ⟨h, .err e⟩
  | ok hr =>
    simp only [S.iter hr]
    refine each (fun {c l} h v => ?_) _ h
    rw [S.has h, S.toRef]
    split
    · exact S.discard h v
    · exact S.add h v

/-- every operation of the language simulates -/
theorem step (S : Sim P Q R) {c l} (h : R c l) (op : Op α ρ) :
    RelRes R (Cont.step P c op) (Cont.step Q l op) := by
  cases op with
  | append v => exact S.append h v
  | add v => exact S.add h v
  | insert i v => exact S.insert h i v
  | wedge v nb rel =>
    have hw := S.wedge h
    simp only [Cont.step]
    revert hw
    cases P.wedge <;> cases Q.wedge <;> intro hw
    · exact ⟨h, .err _⟩
    · exact hw.elim
    · exact hw.elim
    · exact hw v nb rel
  | remove r => exact S.remove h r
  | discard v => exact S.discard h v
  | pop i => exact S.pop h i
  | delIdx i => exact S.delIdx h i
  | delSlice s => exact S.delSlice h s
  | setIdx i v => exact S.setIdx h i v
  | setSlice s vs => exact S.setSlice h s vs
  | sort b =>
    have hw := S.sort h
    simp only [Cont.step]
    revert hw
    cases P.sort <;> cases Q.sort <;> intro hw
    · exact ⟨h, .err _⟩
    · exact hw.elim
    · exact hw.elim
    · exact hw b
  | reverse => exact S.reverse h
  | clear => exact S.clear h
  | copy => exact S.copy h
  | extend vs => exact S.extend h vs
  | update vs => exact S.update h vs
  | ior vs => exact S.update h vs
  | iand vs => exact S.iand h vs
  | isub vs => exact S.isub h vs
  | ixor vs => exact S.ixor h vs
  | or vs => exact S.or h vs
  | and vs => exact S.and h vs
  | sub vs => exact S.sub h vs
  | xor vs => exact S.xor h vs
  | plus vs => exact S.or h vs
  | setBadKey v => exact ⟨h, .err _⟩
  | delBadKey => exact ⟨h, .err _⟩
  | appendUnhashable => exact ⟨h, .err _⟩
  | setSliceNonIter s => exact ⟨h, .err _⟩
  | len => simp only [Cont.step]; rw [S.len h]; exact ⟨h, .ok (.nat _)⟩
  | contains r => simp only [Cont.step]; rw [S.has h]; exact ⟨h, .ok (.bool _)⟩
  | index r =>
    simp only [Cont.step]; rw [S.index_eq h]
    cases Mixin.index Q l r with
    | ok i => exact ⟨h, .ok (.nat _)⟩
    | error e => exact ⟨h, .err _⟩
  | count r => simp only [Cont.step]; rw [S.has h]; exact ⟨h, .ok (.nat _)⟩
  | get i =>
    simp only [Cont.step]; rw [S.getIdx h]
    cases Q.getIdx l i with
    | ok v => exact ⟨h, .ok (.val _)⟩
    | error e => exact ⟨h, .err _⟩
  | iter => simp only [Cont.step]; rw [S.iter h]; exact ⟨h, .ok (.list _)⟩
  | reversed => simp only [Cont.step]; rw [S.riter h]; exact ⟨h, .ok (.list _)⟩

/-- whole sequences: final states related, outcome lists related pointwise -/
theorem runFrom (S : Sim P Q R) : ∀ (ops : List (Op α ρ)) {c l}, R c l →
    R (Cont.runFrom P c ops).1 (Cont.runFrom Q l ops).1 ∧
    RelOuts R (Cont.runFrom P c ops).2 (Cont.runFrom Q l ops).2
  | [], _, _, h => ⟨h, .nil⟩
  | op :: ops, c, l, h => by
    obtain ⟨h1, h2⟩ := S.step h op
    obtain ⟨h3, h4⟩ := runFrom S ops h1
    exact ⟨h3, .cons h2 h4⟩

theorem run (S : Sim P Q R) (ops : List (Op α ρ)) :
    R (Cont.run P ops).1 (Cont.run Q ops).1 ∧
    RelOuts R (Cont.run P ops).2 (Cont.run Q ops).2 := S.runFrom ops S.empty

end Sim
end Ptx.Cont
