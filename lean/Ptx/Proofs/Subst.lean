/-
  Ptx.Proofs.Subst — the substitution and coincidence lemmas of the spec semantics: instantiating
  a quantified body with a constant means evaluating the body with the variable assigned the
  constant's denotation; a constant that does not occur does not matter.
-/
import Ptx.Proofs.Lift
namespace Ptx
variable {L : LogicData} {M : Struct}

theorem Env.updVar_comm {D} (e : Env D) {vi vs vi' vs' : Nat} (h : ¬ (vi' = vi ∧ vs' = vs)) (x y : D) :
    (e.updVar vi' vs' y).updVar vi vs x = (e.updVar vi vs x).updVar vi' vs' y := by
  unfold Env.updVar
  congr 1
  funext i s
  by_cases h1 : i = vi ∧ s = vs
  · obtain ⟨rfl, rfl⟩ := h1
    have h2 : ¬ (i = vi' ∧ s = vs') := by rintro ⟨rfl, rfl⟩; exact h ⟨rfl, rfl⟩
    simp [h2]
  · by_cases h2 : i = vi' ∧ s = vs'
    · obtain ⟨rfl, rfl⟩ := h2
      simp [h]
    · simp [h1, h2]

theorem Env.updVar_c {D} (e : Env D) (vi vs : Nat) (d : D) : (e.updVar vi vs d).c = e.c := rfl

theorem den_psubst (e : Env M.D) (vi vs ci cs : Nat) (p : Param) :
    e.den (Param.psubst (.const ci cs) (.var vi vs) p) = (e.updVar vi vs (e.c ci cs)).den p := by
  unfold Param.psubst
  cases p with
  | const i s => simp [Env.den, Env.updVar]
  | var i s =>
    by_cases h : i = vi ∧ s = vs
    · obtain ⟨rfl, rfl⟩ := h; simp [Env.den, Env.updVar]
    · have : Param.var i s ≠ Param.var vi vs := by
        intro hh; injection hh with h1 h2; exact h ⟨h1, h2⟩
      simp [this, Env.den, Env.updVar, h]

/-- substitution lemma -/
theorem eval_psubst (hq : L.quantified = true) (vi vs ci cs : Nat) :
    ∀ (b : Sent), b.noBinder vi vs = true → b.interp L.modal L.quantified = true →
      ∀ (e : Env M.D) (w : M.W),
        eval L M e w (b.psubst (.const ci cs) (.var vi vs)) = eval L M (e.updVar vi vs (e.c ci cs)) w b := by
  intro b
  induction b with
  | atom i s => intro _ _ e w; simp [Sent.psubst, eval]
  | pred p ps =>
    intro _ _ e w
    simp only [Sent.psubst, eval, List.map_map]
    congr 1
    apply List.map_congr_left
    intro x _
    exact den_psubst e vi vs ci cs x
  | quant q vi' vs' b ih =>
    intro hnb hin e w
    simp only [Sent.noBinder, Bool.and_eq_true, Bool.not_eq_true', Bool.and_eq_false_iff, beq_eq_false_iff_ne] at hnb
    simp only [Sent.interp, Bool.and_eq_true] at hin
    simp only [Sent.psubst, eval, hq, ↓reduceIte]
    congr 2
    funext d
    rw [ih hnb.2 hin.2 (e.updVar vi' vs' d) w, Env.updVar_c]
    have hne : ¬ (vi' = vi ∧ vs' = vs) := by
      rintro ⟨h1, h2⟩
      rcases hnb.1 with h | h
      · exact h h1
      · exact h h2
    rw [Env.updVar_comm e hne]
  | op1 o a ih =>
    intro hnb hin e w
    simp only [Sent.noBinder] at hnb
    simp only [Sent.interp, Bool.and_eq_true, Bool.or_eq_true, Bool.not_eq_true'] at hin
    simp only [Sent.psubst, eval]
    split
    · next hmo =>
      have hm : L.modal = true := by
        rcases hin.1 with h | h
        · rw [hmo] at h; cases h
        · exact h
      simp only [hm, ↓reduceIte]
      congr 2
      funext w'
      exact ih hnb hin.2 e w'
    · rw [ih hnb hin.2 e w]
  | op2 o a b iha ihb =>
    intro hnb hin e w
    simp only [Sent.noBinder, Bool.and_eq_true] at hnb
    simp only [Sent.interp, Bool.and_eq_true] at hin
    simp only [Sent.psubst, eval]
    rw [iha hnb.1 hin.1 e w, ihb hnb.2 hin.2 e w]

/-- a constant that does not occur in a sentence does not influence its value -/
theorem eval_updConst (ci cs : Nat) (d : M.D) :
    ∀ (s : Sent), (ci, cs) ∉ s.consts → ∀ (e : Env M.D) (w : M.W),
      eval L M (e.updConst ci cs d) w s = eval L M e w s := by
  intro s
  induction s with
  | atom i j => intro _ e w; simp [eval]
  | pred p ps =>
    intro hc e w
    simp only [eval]
    congr 1
    apply List.map_congr_left
    intro x hx
    cases x with
    | var i j => simp [Env.den, Env.updConst]
    | const i j =>
      have : ¬ (i = ci ∧ j = cs) := by
        rintro ⟨rfl, rfl⟩
        apply hc
        simp only [Sent.consts, List.mem_filterMap]
        exact ⟨_, hx, rfl⟩
      simp [Env.den, Env.updConst, this]
  | quant q vi vs b ih =>
    intro hc e w
    simp only [Sent.consts] at hc
    simp only [eval]
    split
    · congr 2; funext x
      have : (e.updConst ci cs d).updVar vi vs x = (e.updVar vi vs x).updConst ci cs d := rfl
      rw [this, ih hc]
    · rfl
  | op1 o a ih =>
    intro hc e w
    simp only [Sent.consts] at hc
    simp only [eval]
    split
    · split
      · congr 2; funext w'; exact ih hc e w'
      · rfl
    · rw [ih hc e w]
  | op2 o a b iha ihb =>
    intro hc e w
    simp only [Sent.consts, List.mem_append, not_or] at hc
    simp only [eval]
    rw [iha hc.1 e w, ihb hc.2 e w]

/-- consts of an instantiated body: only the body's and the witness -/
theorem satNode_updConst {e : Env M.D} {σ : Nat → M.W} (ci cs : Nat) (d : M.D) (n : Node)
    (h : match n with | .sent s _ _ => (ci, cs) ∉ s.consts | _ => True) :
    satNode L M (e.updConst ci cs d) σ n ↔ satNode L M e σ n := by
  cases n with
  | sent s dd w => simp only [satNode]; rw [eval_updConst ci cs d s h]
  | access a b => simp [satNode]
  | flag _ => simp [satNode]
  | ellipsis => simp [satNode]

end Ptx
