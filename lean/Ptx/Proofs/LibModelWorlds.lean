/-
  Ptx.Proofs.LibModelWorlds — after a successful `finish` the worlds that have a frame are exactly the
  keys of the access relation, unless the serial Access class invented one.
-/
import Ptx.Proofs.LibModelData
namespace Ptx.LibModel
open Ptx

section
variable {κ β : Type} [DecidableEq κ]

theorem lookup_isSome_iff : ∀ {l : List (κ × β)} {k : κ}, (l.lookup k).isSome = true ↔ k ∈ akeys l
  | [], k => by simp [akeys]
  | (k', v) :: r, k => by
      simp only [List.lookup, akeys, List.map_cons, List.mem_cons]
      by_cases h : k = k'
      · subst h; simp
      · have : (k == k') = false := by simpa using h
        simp only [this, h, false_or]
        exact lookup_isSome_iff (l := r)

theorem mem_akeys_ainsNew {l : List (κ × β)} {k k' : κ} {d : β} :
    k' ∈ akeys (ainsNew l k d) ↔ k' ∈ akeys l ∨ k' = k := by
  unfold ainsNew
  split
  · next h =>
    have := lookup_isSome_iff.1 h
    constructor
    · exact Or.inl
    · rintro (h1 | rfl)
      · exact h1
      · exact this
  · simp [akeys]

theorem mem_akeys_foldl_ainsNew (d : β) : ∀ (ks : List κ) (l : List (κ × β)) (k' : κ),
    k' ∈ akeys (ks.foldl (fun l k => ainsNew l k d) l) ↔ k' ∈ akeys l ∨ k' ∈ ks
  | [], l, k' => by simp
  | k :: ks, l, k' => by
      simp only [List.foldl_cons, List.mem_cons]
      rw [mem_akeys_foldl_ainsNew d ks, mem_akeys_ainsNew]
      constructor
      · rintro ((h | h) | h)
        · exact Or.inl h
        · exact Or.inr (Or.inl h)
        · exact Or.inr (Or.inr h)
      · rintro (h | h | h)
        · exact Or.inl (Or.inl h)
        · exact Or.inl (Or.inr h)
        · exact Or.inr h
end

namespace Acc
theorem mem_keys_foldl_touch : ∀ (ws : List Nat) (R : Acc) (w : Nat),
    w ∈ (ws.foldl touch R).keys ↔ w ∈ R.keys ∨ w ∈ ws
  | [], R, w => by simp
  | a :: t, R, w => by
      simp only [List.foldl_cons, List.mem_cons]
      rw [mem_keys_foldl_touch t]
      simp only [touch, mem_addNew]
      constructor
      · rintro ((h | h) | h)
        · exact Or.inl h
        · exact Or.inr (Or.inl h)
        · exact Or.inr (Or.inr h)
      · rintro (h | h | h)
        · exact Or.inl (Or.inl h)
        · exact Or.inl (Or.inr h)
        · exact Or.inr h

theorem pairs_foldl_touch : ∀ (ws : List Nat) (R : Acc), (ws.foldl touch R).pairs = R.pairs
  | [], _ => rfl
  | a :: t, R => by simp only [List.foldl_cons]; rw [pairs_foldl_touch t]; rfl
end Acc

/-- `_complete_frames` (when it runs): every key of R gets a frame, every frame a key -/
theorem completeFrames_keys {L : LogicData} {m m' : Model} (h : completeFrames L m = .ok m')
    (hfc : m.frameComplete = false) :
    (∀ w, w ∈ akeys m'.frames ↔ w ∈ akeys m.frames ∨ w ∈ m.R.keys) ∧
    (∀ w, w ∈ m'.R.keys ↔ w ∈ akeys m'.frames) ∧ m'.R.pairs = m.R.pairs := by
  unfold completeFrames at h
  simp only [hfc, Bool.false_eq_true, ↓reduceIte] at h
  split at h
  · cases h
  simp only [Except.ok.injEq] at h
  subst h
  have hk : ∀ w, w ∈ akeys (List.map (fun (wf : Nat × Frame) =>
      (wf.1, ({ atomics := fillMissing (List.foldl (fun acc wf => uni acc (akeys wf.2.atomics)) m.sAtoms
                  (List.foldl (fun fs w => ainsNew fs w ({} : Frame)) m.frames m.R.keys)) L.T.unassigned wf.2.atomics,
                opaques := fillMissing (List.foldl (fun acc wf => uni acc (akeys wf.2.opaques)) ([] : List Sent)
                  (List.foldl (fun fs w => ainsNew fs w ({} : Frame)) m.frames m.R.keys)) L.T.unassigned wf.2.opaques,
                preds := List.foldl (fun ps p => ainsNew ps p ([] : Interp)) wf.2.preds
                  (List.foldl (fun acc wf => uni acc (akeys wf.2.preds)) m.sPreds
                    (List.foldl (fun fs w => ainsNew fs w ({} : Frame)) m.frames m.R.keys)) } : Frame)))
      (List.foldl (fun fs w => ainsNew fs w ({} : Frame)) m.frames m.R.keys)) ↔
      w ∈ akeys m.frames ∨ w ∈ m.R.keys := by
    intro w
    simp only [akeys, List.map_map, Function.comp_def]
    exact mem_akeys_foldl_ainsNew ({} : Frame) m.R.keys m.frames w
  refine ⟨hk, ?_, Acc.pairs_foldl_touch _ _⟩
  intro w
  simp only
  rw [Acc.mem_keys_foldl_touch, hk]
  constructor
  · rintro (h | h)
    · exact Or.inr h
    · exact (mem_akeys_foldl_ainsNew ({} : Frame) m.R.keys m.frames w).1 h
  · rintro (h | h)
    · exact Or.inr ((mem_akeys_foldl_ainsNew ({} : Frame) m.R.keys m.frames w).2 (Or.inl h))
    · exact Or.inl h

/-- the classical pass rebuilds the frame list with the same worlds, in the same order -/
theorem cplFrames_keys {hints : Hints} {m m' : Model} (h : cplFrames hints m = .ok m') :
    akeys m'.frames = akeys m.frames := by
  unfold cplFrames at h
  simp only at h
  split at h
  · next frames hfr =>
    cases h
    have gen : ∀ (todo : List (Nat × Frame)) (acc acc' : List (Nat × Frame)),
        foldRes (fun (acc : List (Nat × Frame)) (wf : Nat × Frame) =>
          match cplFrame (constParams (orderBy hints.consts m.consts))
              (orderBy ((hints.preds.lookup wf.1).getD []) (akeys wf.2.preds)) wf.2 with
          | .ok f => Except.ok (acc ++ [(wf.1, f)])
          | .error e => .error e) acc todo = .ok acc' →
        akeys acc' = akeys acc ++ akeys todo := by
      intro todo
      induction todo with
      | nil => intro acc acc' h; simp only [foldRes] at h; cases h; simp [akeys]
      | cons a t ih =>
        intro acc acc' h
        simp only [foldRes] at h
        split at h
        · next b1 h1 =>
          split at h1
          · next f1 hf1 =>
            cases h1
            rw [ih _ acc' h]
            simp [akeys]
          · cases h1
        · cases h
    simpa [akeys] using gen m.frames [] frames hfr
  · cases h

/-- after a successful first `finish` in a modal logic whose Access class is not the serial one:
    the worlds with a frame are exactly the keys of the finished access relation -/
theorem finish_worlds {L : LogicData} (hD : L.frame ≠ .D) (hints : Hints) {m m' : Model}
    (h : finish L hints m = (m', none)) (hnf : m.finished = false) (hfc : m.frameComplete = false) (hwf : m.R.WF) :
    ∀ w, w ∈ akeys m'.frames ↔ w ∈ m'.R.keys := by
  unfold finish finishX at h
  simp only [hnf, Bool.false_eq_true, ↓reduceIte] at h
  split at h
  · simp at h
  next m1 h1 =>
  obtain ⟨_, k2, k3⟩ := completeFrames_keys h1 hfc
  have hwf1 : m1.R.WF := by
    intro p hp
    rw [k3] at hp
    have := hwf p hp
    -- keys only grow
    unfold completeFrames at h1
    simp only [hfc, Bool.false_eq_true, ↓reduceIte] at h1
    split at h1
    · cases h1
    simp only [Except.ok.injEq] at h1
    subst h1
    simp only
    exact ⟨(Acc.mem_keys_foldl_touch _ _ _).2 (Or.inl this.1), (Acc.mem_keys_foldl_touch _ _ _).2 (Or.inl this.2)⟩
  split at h
  · split at h
    · simp at h
    next m2 h2 =>
    simp only [finishBase, Prod.mk.injEq, and_true] at h
    subst h
    obtain ⟨_, c2, _, _⟩ := cplFrames_frames h2
    intro w
    simp only
    rw [cplFrames_keys h2, c2, Acc.enforce_keys hD hwf1]
    exact (k2 w).symm
  · simp only [finishBase, Prod.mk.injEq, and_true] at h
    subst h
    intro w
    simp only
    rw [Acc.enforce_keys hD hwf1]
    exact (k2 w).symm

end Ptx.LibModel
