/-
  Ptx.Proofs.SearchQStep — dynamics of the quantifier layer `InvQ`: the initial state and every event.
  `QInv` talks about the nodes of a branch and the `NodeConsts` dictionaries only, so everything that does not touch `ncs`
  (searches, ticks, `lastSerial`, caches, …) is immediate; the work is `NodeConsts.after_node_add` (`updNcs`) and `after_apply`.
-/
import Ptx.Proofs.SearchQ
import Ptx.Proofs.SearchApply
namespace Ptx.Search
open Ptx

/-! ### association lists: presence, append, value maps -/

section assoc
variable {κ α : Type} [DecidableEq κ]

def present (m : List (κ × List α)) (key : κ) : Bool := m.any fun p => p.1 == key

theorem aget_of_not_present {m : List (κ × List α)} {key : κ} (h : present m key = false) : aget [] m key = [] := by
  induction m with
  | nil => rfl
  | cons p m ih =>
    obtain ⟨k0, v⟩ := p
    simp only [present, List.any_cons, Bool.or_eq_false_iff, beq_eq_false_iff_ne, ne_eq] at h
    have hne : ¬ key = k0 := fun he => h.1 he.symm
    simp only [aget, hne, ↓reduceIte]
    exact ih h.2

theorem present_append (m : List (κ × List α)) (key key' : κ) (v : List α) :
    present (m ++ [(key, v)]) key' = (present m key' || key == key') := by
  simp [present, List.any_append]

theorem mem_aget_append {m : List (κ × List α)} {key key' : κ} {v : List α} {x : α} :
    x ∈ aget [] (m ++ [(key, v)]) key' ↔ x ∈ aget [] m key' ∨ (present m key' = false ∧ key' = key ∧ x ∈ v) := by
  induction m with
  | nil =>
    simp only [List.nil_append, aget, present, List.any_nil, true_and]
    by_cases he : key' = key <;> simp [he]
  | cons p m ih =>
    obtain ⟨k0, v0⟩ := p
    simp only [List.cons_append, aget, present, List.any_cons]
    by_cases he : key' = k0
    · subst he
      simp
    · have : (k0 == key') = false := by simpa using fun h => he h.symm
      simp only [he, ↓reduceIte, this, Bool.false_or]
      exact ih

theorem present_mapVals (m : List (κ × List α)) (g : List α → List α) (key : κ) :
    present (m.map fun p => (p.1, g p.2)) key = present m key := by
  simp only [present, List.any_map]
  congr 1

theorem aget_mapVals (m : List (κ × List α)) (g : List α → List α) (key : κ) :
    aget [] (m.map fun p => (p.1, g p.2)) key = if present m key then g (aget [] m key) else [] := by
  induction m with
  | nil => simp [aget, present]
  | cons p m ih =>
    obtain ⟨k0, v0⟩ := p
    simp only [List.map_cons, aget, present, List.any_cons]
    by_cases he : key = k0
    · subst he; simp
    · have : (k0 == key) = false := by simpa using fun h => he h.symm
      simp only [he, ↓reduceIte, this, Bool.false_or]
      exact ih

/-- value map that only touches one key -/
theorem present_mapKey (m : List (κ × List α)) (key0 : κ) (g : List α → List α) (key : κ) :
    present (m.map fun p => if p.1 == key0 then (p.1, g p.2) else p) key = present m key := by
  simp only [present, List.any_map]
  congr 1
  funext p
  simp only [Function.comp]
  by_cases h : (p.1 == key0) = true <;> simp [h]

theorem aget_mapKey (m : List (κ × List α)) (key0 : κ) (g : List α → List α) (key : κ) :
    aget [] (m.map fun p => if p.1 == key0 then (p.1, g p.2) else p) key =
      if key = key0 ∧ present m key = true then g (aget [] m key) else aget [] m key := by
  induction m with
  | nil => simp [aget, present]
  | cons p m ih =>
    obtain ⟨k0, v0⟩ := p
    simp only [List.map_cons, present, List.any_cons]
    by_cases hk : k0 = key0
    · subst hk
      simp only [beq_self_eq_true, ↓reduceIte, aget]
      by_cases he : key = k0
      · subst he; simp
      · have : (k0 == key) = false := by simpa using fun h => he h.symm
        simp only [he, ↓reduceIte, this, Bool.false_or, false_and]
        rw [ih]; simp [he]
    · have hk' : (k0 == key0) = false := by simpa using hk
      simp only [hk', Bool.false_eq_true, ↓reduceIte, aget]
      by_cases he : key = k0
      · subst he
        have : ¬ key = key0 := hk
        simp [this]
      · have : (k0 == key) = false := by simpa using fun h => he h.symm
        simp only [he, ↓reduceIte, this, Bool.false_or]
        exact ih

end assoc


/-! ### `NodeConsts.after_node_add` -/

/-- the constants a node brings -/
def ndConsts : Node → List (Nat × Nat)
  | .sent s _ _ => s.consts
  | _ => []

theorem snoc_consts (b : Branch) (nd : Node) : (Branch.snoc b nd).consts = b.consts ++ ndConsts nd := by
  simp only [Branch.consts, Branch.snoc, List.flatMap_append, List.flatMap_cons, List.flatMap_nil, List.append_nil]
  cases nd <;> rfl

theorem anyKey_eq (ncs : List ((RuleKey × Nat) × List (Nat × Nat))) (key : RuleKey × Nat) :
    (ncs.any fun p => p.1 == key) = present ncs key := by
  simp only [present]
  congr 1
  funext p
  by_cases h : p.1 = key
  · subst h; simp
  · have h1 : (p.1 == key) = false := beq_false_of_ne h
    rw [h1]; exact (@beq_false_of_ne _ instBEqOfDecidableEq _ _ _ h).symm

theorem ncReg_eq (ncs : List ((RuleKey × Nat) × List (Nat × Nat))) (k : RuleKey) (i : Nat) :
    ncReg ncs k i = present ncs (k, i) := anyKey_eq ncs (k, i)

/-- registration and distribution, characterised by membership -/
theorem updNcs_spec (L : LogicData) (b : Branch) (i : Nat) (nd : Node) (ncs : List ((RuleKey × Nat) × List (Nat × Nat)))
    (k : RuleKey) (j : Nat) :
    (ncReg (updNcs L b i nd ncs) k j = true ↔
      ncReg ncs k j = true ∨ (j = i ∧ nodeKey nd = some k ∧ isEachConst L k = true)) ∧
    (∀ x, x ∈ aget [] (updNcs L b i nd ncs) (k, j) ↔
      (x ∈ aget [] ncs (k, j) ∨
       (ncReg ncs k j = false ∧ j = i ∧ nodeKey nd = some k ∧ isEachConst L k = true ∧ x ∈ b.consts)) ∨
      ((ncReg ncs k j = true ∨ (j = i ∧ nodeKey nd = some k ∧ isEachConst L k = true)) ∧
        x ∈ ndConsts nd ∧ x ∉ b.consts)) := by
  -- the registration step
  let reg : List ((RuleKey × Nat) × List (Nat × Nat)) :=
    match nodeKey nd with
    | some k' => if isEachConst L k' && !(ncs.any fun p => p.1 == (k', i)) then ncs ++ [((k', i), dedupPair b.consts)] else ncs
    | none => ncs
  have hregP : present reg (k, j) = true ↔
      present ncs (k, j) = true ∨ (j = i ∧ nodeKey nd = some k ∧ isEachConst L k = true) := by
    simp only [reg]
    cases hk : nodeKey nd with
    | none => simp
    | some k' =>
      simp only [anyKey_eq]
      split
      · next hc =>
        simp only [Bool.and_eq_true, Bool.not_eq_eq_eq_not, Bool.not_true] at hc
        rw [present_append]
        simp only [Bool.or_eq_true, beq_iff_eq, Prod.mk.injEq, Option.some.injEq]
        constructor
        · rintro (h1 | ⟨rfl, rfl⟩)
          · exact Or.inl h1
          · exact Or.inr ⟨rfl, rfl, hc.1⟩
        · rintro (h1 | ⟨rfl, rfl, _⟩)
          · exact Or.inl h1
          · exact Or.inr ⟨rfl, rfl⟩
      · next hc =>
        simp only [Option.some.injEq]
        constructor
        · exact Or.inl
        · rintro (h1 | ⟨rfl, rfl, he⟩)
          · exact h1
          · simp only [Bool.and_eq_true, Bool.not_eq_eq_eq_not, Bool.not_true, not_and, Bool.not_eq_false] at hc
            exact hc he
  have hregA : ∀ x, x ∈ aget [] reg (k, j) ↔
      x ∈ aget [] ncs (k, j) ∨
       (present ncs (k, j) = false ∧ j = i ∧ nodeKey nd = some k ∧ isEachConst L k = true ∧ x ∈ b.consts) := by
    intro x
    simp only [reg]
    cases hk : nodeKey nd with
    | none => simp
    | some k' =>
      simp only [anyKey_eq]
      split
      · next hc =>
        simp only [Bool.and_eq_true, Bool.not_eq_eq_eq_not, Bool.not_true] at hc
        rw [mem_aget_append]
        simp only [Prod.mk.injEq, Option.some.injEq, dedupPair, List.mem_eraseDups]
        constructor
        · rintro (h1 | ⟨h1, ⟨rfl, rfl⟩, h3⟩)
          · exact Or.inl h1
          · exact Or.inr ⟨h1, rfl, rfl, hc.1, h3⟩
        · rintro (h1 | ⟨h1, rfl, rfl, _, h3⟩)
          · exact Or.inl h1
          · exact Or.inr ⟨h1, ⟨rfl, rfl⟩, h3⟩
      · next hc =>
        simp only [Option.some.injEq]
        constructor
        · exact Or.inl
        · rintro (h1 | ⟨h1, rfl, rfl, he, _⟩)
          · exact h1
          · exfalso
            simp only [Bool.and_eq_true, Bool.not_eq_eq_eq_not, Bool.not_true, not_and, Bool.not_eq_false] at hc
            have := hc he
            rw [h1] at this; cases this
  -- the distribution step
  have hupd : updNcs L b i nd ncs =
      match nd with
      | .sent s _ _ =>
          if (dedupPair (s.consts.filter fun c => !b.consts.contains c)).isEmpty then reg
          else reg.map fun p => (p.1, p.2 ++ (dedupPair (s.consts.filter fun c => !b.consts.contains c)).filter fun c => !p.2.contains c)
      | _ => reg := by
    unfold updNcs
    cases nd <;> rfl
  have hnew : ∀ x, x ∈ ndConsts nd ∧ x ∉ b.consts ↔
      match nd with
      | .sent s _ _ => x ∈ dedupPair (s.consts.filter fun c => !b.consts.contains c)
      | _ => False := by
    intro x
    cases nd <;> simp [ndConsts, dedupPair, List.mem_eraseDups, List.mem_filter]
  have key : (present (updNcs L b i nd ncs) (k, j) = present reg (k, j)) ∧
      ∀ x, x ∈ aget [] (updNcs L b i nd ncs) (k, j) ↔
        x ∈ aget [] reg (k, j) ∨ (present reg (k, j) = true ∧ x ∈ ndConsts nd ∧ x ∉ b.consts) := by
    rw [hupd]
    cases nd with
    | sent s d w =>
      simp only
      split
      · next he =>
        refine ⟨rfl, fun x => ?_⟩
        have : ¬ (x ∈ ndConsts (.sent s d w) ∧ x ∉ b.consts) := by
          rw [hnew]; simp only
          have : dedupPair (s.consts.filter fun c => !b.consts.contains c) = [] := by simpa using he
          rw [this]; simp
        constructor
        · exact Or.inl
        · rintro (h1 | ⟨_, h2⟩)
          · exact h1
          · exact absurd h2 this
      · next he =>
        refine ⟨present_mapVals reg (fun v => v ++ (dedupPair (s.consts.filter fun c => !b.consts.contains c)).filter fun c => !v.contains c) (k, j), fun x => ?_⟩
        rw [aget_mapVals reg (fun v => v ++ (dedupPair (s.consts.filter fun c => !b.consts.contains c)).filter fun c => !v.contains c) (k, j)]
        have hn := hnew x
        simp only at hn
        by_cases hp : present reg (k, j) = true
        · simp only [hp, ↓reduceIte, List.mem_append, List.mem_filter, true_and]
          rw [hn]
          constructor
          · rintro (h1 | ⟨h1, _⟩)
            · exact Or.inl h1
            · exact Or.inr h1
          · rintro (h1 | h1)
            · exact Or.inl h1
            · by_cases hx : x ∈ aget [] reg (k, j)
              · exact Or.inl hx
              · exact Or.inr ⟨h1, by simpa using hx⟩
        · have hp' : present reg (k, j) = false := by simpa using hp
          simp only [hp', Bool.false_eq_true, ↓reduceIte, List.not_mem_nil, false_and, or_false, false_iff]
          rw [aget_of_not_present hp']; simp
    | access a c => exact ⟨rfl, fun x => by simp [ndConsts]⟩
    | flag n => exact ⟨rfl, fun x => by simp [ndConsts]⟩
    | ellipsis => exact ⟨rfl, fun x => by simp [ndConsts]⟩
  refine ⟨?_, fun x => ?_⟩
  · rw [ncReg_eq, ncReg_eq, key.1]; exact hregP
  · rw [key.2 x, hregA x, hregP]
    simp only [ncReg_eq]


theorem constDoneB_snoc {L : LogicData} {b : Branch} {nd : Node} {j : Nat} {c : Nat × Nat}
    (h : constDoneB L b j c = true) : constDoneB L (Branch.snoc b nd) j c = true := by
  unfold constDoneB at h ⊢
  split at h
  · next sn d w hn =>
    rw [snoc_get_of_some hn]
    simp only
    split at h
    · next r whole l0 hrf =>
      exact groupsDone_mono (snoc_sub b nd) h
    · cases h
  · cases h

/-- the quantifier layer survives one appended node (`NodeConsts.after_node_add`) -/
theorem QInv.addNode {L : LogicData} {b : Branch} {ncs : List ((RuleKey × Nat) × List (Nat × Nat))}
    (H : QInv L b ncs) (nd : Node) : QInv L (Branch.snoc b nd) (updNcs L b b.nodes.length nd ncs) := by
  have spec := fun k j => updNcs_spec L b b.nodes.length nd ncs k j
  have hcons : ∀ c, c ∈ (Branch.snoc b nd).consts ↔ c ∈ b.consts ∨ (c ∈ ndConsts nd ∧ c ∉ b.consts) := by
    intro c
    rw [snoc_consts, List.mem_append]
    constructor
    · rintro (h | h)
      · exact Or.inl h
      · by_cases hc : c ∈ b.consts
        · exact Or.inl hc
        · exact Or.inr ⟨h, hc⟩
    · rintro (h | h)
      · exact Or.inl h
      · exact Or.inr h.1
  refine ⟨?_, ?_, ?_, ?_⟩
  · intro k j x hx hk he
    rw [(spec k j).1]
    rcases snoc_get_cases hx with h1 | ⟨h1, h2⟩
    · exact Or.inl (H.ncRegistered k j x h1 hk he)
    · subst h2; exact Or.inr ⟨h1, hk, he⟩
  · intro k j hr
    rcases (spec k j).1.1 hr with h1 | ⟨h1, h2, _⟩
    · obtain ⟨x, hx, hk⟩ := H.ncKey k j h1
      exact ⟨x, snoc_get_of_some hx, hk⟩
    · subst h1
      exact ⟨nd, by simp [Branch.snoc], h2⟩
  · intro k j hr c hc
    have hr' := (spec k j).1.1 hr
    rw [(spec k j).2 c]
    rcases (hcons c).1 hc with hc1 | hc2
    · by_cases hold : ncReg ncs k j = true
      · rcases H.ncDone k j hold c hc1 with h1 | h1
        · exact Or.inl (Or.inl (Or.inl h1))
        · exact Or.inr (constDoneB_snoc h1)
      · have hold' : ncReg ncs k j = false := by simpa using hold
        rcases hr' with h1 | ⟨h1, h2, h3⟩
        · exact absurd h1 hold
        · exact Or.inl (Or.inl (Or.inr ⟨hold', h1, h2, h3, hc1⟩))
    · exact Or.inl (Or.inr ⟨hr', hc2⟩)
  · intro k j c hc
    rw [(spec k j).2 c] at hc
    rw [hcons]
    rcases hc with (h1 | ⟨_, _, _, _, h5⟩) | ⟨_, h2⟩
    · exact Or.inl (H.ncSub k j c h1)
    · exact Or.inl h5
    · exact Or.inr h2

theorem addNode_ncs (L : LogicData) (b : Branch) (h : BranchH) (nd : Node) :
    (h.addNode L b nd).ncs = updNcs L b b.nodes.length nd h.ncs := rfl

theorem QInv.grow {L : LogicData} : ∀ (ns : List Node) (b : Branch) (h : BranchH), QInv L b h.ncs →
    QInv L { b with nodes := b.nodes ++ ns } (h.grow L b ns).ncs
  | [], b, h, H => by simpa [BranchH.grow] using H
  | nd :: rest, b, h, H => by
      have H1 := H.addNode nd
      rw [← addNode_ncs] at H1
      have ih := QInv.grow rest (Branch.snoc b nd) (h.addNode L b nd) H1
      simpa [BranchH.grow, Branch.snoc] using ih

theorem QInv.empty (L : LogicData) : QInv L { nodes := [] } [] := by
  refine ⟨?_, ?_, ?_, ?_⟩
  · intro k i nd hn; simp at hn
  · intro k i hr; simp [ncReg] at hr
  · intro k i hr; simp [ncReg] at hr
  · intro k i c hc; simp [aget] at hc

/-- `QInv` only looks at the nodes of the branch -/
theorem QInv.setTicked {L : LogicData} {b : Branch} {ncs : List ((RuleKey × Nat) × List (Nat × Nat))}
    (H : QInv L b ncs) (tk : List Nat) (p : Option Nat) : QInv L { b with ticked := tk, parent := p } ncs :=
  ⟨H.ncRegistered, H.ncKey, H.ncDone, H.ncSub⟩

/-- (1a-Q) the quantifier layer holds after `build_trunk`, for any trunk -/
theorem invq_init (L : LogicData) (nodes : List Node) : InvQ L (SState.init L nodes) := by
  intro bi b h hb hh _
  match bi, hb, hh with
  | 0, hb, hh =>
    simp only [SState.init, List.getElem?_cons_zero, Option.some.injEq] at hb hh
    subst hb; subst hh
    have := QInv.grow (L := L) nodes { nodes := [] } {} (QInv.empty L)
    simpa using this
  | (n + 1), hb, _ => simp [SState.init] at hb


/-! ### events -/

theorem search_hs_ncs {L : LogicData} {s : SState} {r : RuleId} {bi bj : Nat} {h1 : BranchH}
    (hh1 : (s.search L r bi).hs[bj]? = some h1) : ∃ h, s.hs[bj]? = some h ∧ h1.ncs = h.ncs := by
  have hgc : (s.search L r bi).hs = (s.gc r).hs := by
    unfold SState.search
    simp only
    split
    · split
      · rfl
      · split <;> rfl
    · rfl
  rw [hgc] at hh1
  obtain ⟨h, c, hh, rfl, _⟩ := gc_hs hh1
  exact ⟨h, hh, rfl⟩

/-- (1b-Q) `Ev.search` does not touch `NodeConsts` -/
theorem invq_search {L : LogicData} {s : SState} (hq : InvQ L s) (r : RuleId) (bi : Nat) : InvQ L (s.search L r bi) := by
  intro bj b h1 hb hh1 ho
  rw [search_tab] at hb
  obtain ⟨h, hh, he⟩ := search_hs_ncs hh1
  have := hq bj b h hb hh ho
  simp only [BranchInvQ] at this ⊢
  rw [he]; exact this

theorem applyAt_shape {L : LogicData} {t t' : Tableau} {bi : Nat} {b : Branch} {st : Step}
    (h : applyAt L t bi b st = some t') :
    ∃ (ns0 : List Node) (tick : Option Nat) (rest : List (List Node)), t' = t.set bi (b.extend ns0 tick) ++
      rest.map (fun g => ({ b.extend g tick with parent := some bi } : Branch)) := by
  cases st with
  | rule b' n c wo =>
    simp only [applyAt] at h
    split at h
    · split at h
      · next r g0 rest hg =>
        simp only [Option.some.injEq] at h
        exact ⟨g0, _, rest, by rw [← h]; rfl⟩
      · cases h
    · cases h
  | close b' s0 w =>
    simp only [applyAt] at h
    split at h
    · exact ⟨[.flag "closure"], none, [], by simpa [closeB] using h.symm⟩
    · cases h
  | closeIdent b' n =>
    simp only [applyAt] at h
    split at h
    · split at h
      · exact ⟨[.flag "closure"], none, [], by simpa [closeB] using h.symm⟩
      · cases h
    · cases h
  | frame b' r w1 w2 w3 =>
    simp only [applyAt] at h
    split at h
    · cases h
    · split at h
      · next nd _ => exact ⟨[nd], none, [], by simpa using h.symm⟩
      · cases h
  | ident b' i p =>
    simp only [applyAt] at h
    split at h
    · cases h
    · split at h
      · split at h
        · next nd _ => exact ⟨[nd], none, [], by simpa using h.symm⟩
        · cases h
      · cases h
  | quit b' name tick =>
    simp only [applyAt] at h
    split at h
    · cases h
    · exact ⟨[.flag name], tick, [], by simpa using h.symm⟩

theorem tick_ncs (h : BranchH) (i : Nat) : (h.tick i).ncs = h.ncs := rfl

theorem upd_extend_ncs (L : LogicData) (b : Branch) (h : BranchH) (ns : List Node) (tick : Option Nat) (p : Option Nat) :
    (h.upd L b { b.extend ns tick with parent := p }).ncs = (h.grow L b ns).ncs := by
  rw [upd_extend]
  cases tick with
  | none => rfl
  | some n => simp only; split <;> rfl

/-- `QInv` of an extended branch with `BranchH.upd` -/
theorem QInv.extend {L : LogicData} {b : Branch} {h : BranchH} (H : QInv L b h.ncs) (ns : List Node) (tick : Option Nat)
    (p : Option Nat) :
    QInv L { b.extend ns tick with parent := p } (h.upd L b { b.extend ns tick with parent := p }).ncs := by
  rw [upd_extend_ncs]
  have G := H.grow ns b h
  exact G.setTicked _ p

/-- `NodeConsts.after_apply`: discarding the applied constant is justified by its instance on the branch -/
theorem QInv.afterApply {L : LogicData} {b : Branch} {h : BranchH} (H : QInv L b h.ncs) (r : RuleId) (st : Step)
    (hdone : ∀ bb n c wo, st = .rule bb n (some c) wo → constDoneB L b n c = true) :
    QInv L b (afterApply L r st h).ncs := by
  unfold Ptx.Search.afterApply
  cases r with
  | closure => exact H
  | frame fr => exact H
  | ident => exact H
  | table k =>
    simp only
    split
    rotate_left
    · exact H
    next rl hrl =>
    have hq : ∀ flag : Bool, (if (rl.witness != .none) = true then
        ({ h with quits := amod false (fun _ => flag) h.quits k } : BranchH) else h).ncs = h.ncs := by
      intro flag; split <;> rfl
    split
    · next bb n c w' hwit => show QInv L b (_ : BranchH).ncs; rw [show ∀ (x : BranchH), ({ x with nws := amod [] (· ++ [(n, w')]) x.nws k } : BranchH).ncs = x.ncs from fun _ => rfl, hq]; exact H
    · next bb n c wo hwit =>
      simp only [hq]
      have hd := hdone bb n c wo rfl
      have key : ∀ k' j, (ncReg (h.ncs.map fun p => if p.1 == (k, n) then (p.1, p.2.filter (· != c)) else p) k' j = ncReg h.ncs k' j) ∧
          ∀ x, x ∈ aget [] (h.ncs.map fun p => if p.1 == (k, n) then (p.1, p.2.filter (· != c)) else p) (k', j) ↔
            x ∈ aget [] h.ncs (k', j) ∧ ((k', j) = (k, n) → x ≠ c) := by
        intro k' j
        have e1 : (h.ncs.map fun p => if p.1 == (k, n) then (p.1, p.2.filter (· != c)) else p) =
            (h.ncs.map fun p => if (@BEq.beq _ instBEqOfDecidableEq p.1 (k, n)) then (p.1, (fun v => v.filter (· != c)) p.2) else p) := by
          apply List.map_congr_left
          intro p _
          by_cases hp : p.1 = (k, n)
          · simp [hp]
          · have h1 : (p.1 == (k, n)) = false := beq_false_of_ne hp
            have h2 : (@BEq.beq _ instBEqOfDecidableEq p.1 (k, n)) = false := @beq_false_of_ne _ instBEqOfDecidableEq _ _ _ hp
            rw [h1, h2]
        rw [e1]
        refine ⟨by rw [ncReg_eq, ncReg_eq, present_mapKey], fun x => ?_⟩
        rw [aget_mapKey]
        by_cases hk : (k', j) = (k, n) ∧ present h.ncs (k', j) = true
        · obtain ⟨he, hp⟩ := hk
          cases he
          simp only [hp, and_self, ↓reduceIte, List.mem_filter, bne_iff_ne, ne_eq, true_implies]
        · simp only [hk, ↓reduceIte]
          constructor
          · intro hx
            refine ⟨hx, fun he => ?_⟩
            exfalso
            apply hk
            refine ⟨he, ?_⟩
            rcases Bool.eq_false_or_eq_true (present h.ncs (k', j)) with h1 | h1
            · exact h1
            · rw [aget_of_not_present h1] at hx; cases hx
          · exact fun hx => hx.1
      refine ⟨?_, ?_, ?_, ?_⟩
      · intro k' j nd hn hk he
        rw [(key k' j).1]; exact H.ncRegistered k' j nd hn hk he
      · intro k' j hr
        rw [(key k' j).1] at hr; exact H.ncKey k' j hr
      · intro k' j hr c' hc'
        rw [(key k' j).1] at hr
        rw [(key k' j).2]
        rcases H.ncDone k' j hr c' hc' with h1 | h1
        · by_cases he : (k', j) = (k, n) ∧ c' = c
          · obtain ⟨he1, rfl⟩ := he
            simp only [Prod.mk.injEq] at he1
            obtain ⟨_, rfl⟩ := he1
            exact Or.inr hd
          · exact Or.inl ⟨h1, fun he1 hc => he ⟨he1, hc⟩⟩
        · exact Or.inr h1
      · intro k' j c' hc'
        rw [(key k' j).2] at hc'
        exact H.ncSub k' j c' hc'.1
    · rw [hq]; exact H


/-- a legal table-rule step with a witness constant puts that constant's instance on every resulting branch -/
theorem rule_const_done {L : LogicData} {b : Branch} {sn : Sent} {d : Option Bool} {w : Option Nat} {c : Nat × Nat}
    {wo : Option Nat} {r' : Rule} {gs : List (List Node)} {n : Nat} (hn : b.nodes[n]? = some (.sent sn d w))
    (hg : L.ruleGroups b sn d w (some c) wo = some (r', gs)) {g : List Node} (hgm : g ∈ gs) (b1 : Branch)
    (hb1 : b1.nodes = b.nodes ++ g) : constDoneB L b1 n c = true := by
  obtain ⟨whole, l0, hrf, hwg⟩ := ruleGroups_unfold hg
  obtain ⟨_, hwo, _⟩ := witnessGroups_mapOpt hwg
  have hwo' : wo = none := by
    cases wo with
    | none => rfl
    | some w' => have := (hwo w' rfl).2; cases this
  subst hwo'
  have hig := witnessGroups_instGroups hwg
  have hlt : n < b.nodes.length := by
    rcases Nat.lt_or_ge n b.nodes.length with h1 | h1
    · exact h1
    · rw [List.getElem?_eq_none h1] at hn; cases hn
  have hn1 : b1.nodes[n]? = some (.sent sn d w) := by rw [hb1, List.getElem?_append_left hlt, hn]
  rw [constDoneB_eq hn1 hrf, hig]
  refine groupsDone_of_mem hgm ?_
  simp only [Branch.hasAll, List.all_eq_true, Branch.hasNode, List.contains_iff_mem, hb1, List.mem_append]
  exact fun x hx => Or.inr hx

/-- (1b-Q) every `applyTarget` keeps the quantifier layer -/
theorem invq_applyTarget {L : LogicData} {s1 s' : SState} {r : RuleId} {st : Step} (hinv : Inv L s1) (hq : InvQ L s1)
    (hs' : applyTarget L s1 r st = some s') : InvQ L s' := by
  obtain ⟨b, h, t', hb, hh, ht⟩ := applyTarget_some hs'
  obtain ⟨b', hb', ho, ha⟩ := applyStep_open ht
  rw [hb] at hb'; simp only [Option.some.injEq] at hb'; subst hb'
  obtain ⟨ns0, tick, rest, ht'⟩ := applyAt_shape ha
  rw [ht'] at ht
  rw [applyTarget_eq hb hh ht] at hs'
  simp only [Option.some.injEq] at hs'
  subst hs'
  have H0 : QInv L b h.ncs := hq _ b h hb hh ho
  have hl := hinv.len
  have hbi : st.branch < s1.tab.length := by
    rcases Nat.lt_or_ge st.branch s1.tab.length with h1 | h1
    · exact h1
    · rw [List.getElem?_eq_none h1] at hb; cases hb
  -- the instance behind a discarded constant
  have hdone : ∀ bb n c wo, st = .rule bb n (some c) wo → constDoneB L (b.extend ns0 tick) n c = true := by
    intro bb n c wo he
    subst he
    simp only [applyAt] at ha
    split at ha
    rotate_left
    · cases ha
    next sn d w hn =>
    split at ha
    rotate_left
    · cases ha
    next r' g0 rest' hrg =>
    simp only [Option.some.injEq] at ha
    have hbi' : bb < s1.tab.length := hbi
    have hbr : (Step.rule bb n (some c) wo).branch = bb := rfl
    rw [hbr] at ht'
    have hb0 : (b.extend ns0 tick).nodes = b.nodes ++ g0 := by
      have h1 : t'[bb]? = some (b.extend g0 (if r'.ticks then some n else none)) := by
        rw [← ha]
        simp only [Tableau.fork, hbr]
        rw [List.getElem?_append_left (by simpa using hbi'), List.getElem?_set_self hbi']
      have h2 : t'[bb]? = some (b.extend ns0 tick) := by
        rw [ht', List.getElem?_append_left (by simpa using hbi'), List.getElem?_set_self hbi']
      rw [h1] at h2
      simp only [Option.some.injEq] at h2
      rw [← h2]; simp [Branch.extend]
    exact rule_const_done hn hrg (by simp) _ hb0
  intro bj b1 h1 hb1 hh1 ho1
  simp only at hb1 hh1
  by_cases hlt : bj < s1.tab.length
  · rw [List.getElem?_append_left (by simpa using hlt)] at hb1
    rw [List.getElem?_append_left (by simpa [hl] using hlt)] at hh1
    by_cases he : bj = st.branch
    · subst he
      rw [List.getElem?_set_self hlt] at hb1
      rw [List.getElem?_set_self (by omega)] at hh1
      simp only [Option.some.injEq] at hb1 hh1
      subst hb1; subst hh1
      have H1 : QInv L b ({ h with lastSerial := lsOf r st } : BranchH).ncs := H0
      have H2 := H1.extend ns0 tick b.parent
      rw [extend_parent] at H2
      exact H2.afterApply r st hdone
    · rw [List.getElem?_set_ne (Ne.symm he)] at hb1 hh1
      exact hq bj b1 h1 hb1 hh1 ho1
  · have hge : s1.tab.length ≤ bj := Nat.le_of_not_lt hlt
    rw [List.getElem?_append_right (by simpa using hge)] at hb1
    rw [List.getElem?_append_right (by simpa [hl] using hge)] at hh1
    simp only [List.length_set, List.getElem?_map] at hb1 hh1
    rw [hl] at hh1
    cases hg : rest[bj - s1.tab.length]? with
    | none => simp [hg] at hb1
    | some g =>
      simp only [hg, Option.map_some, Option.some.injEq] at hb1 hh1
      subst hb1; subst hh1
      have H1 : QInv L b ({ h with lastSerial := none } : BranchH).ncs := H0
      exact H1.extend g tick (some st.branch)

/-- (1b-Q) every legal event keeps the quantifier layer -/
theorem invq_stepEv {L : LogicData} {s s' : SState} (hinv : Inv L s) (hq : InvQ L s) (e : Ev)
    (hs' : stepEv L s e = some s') : InvQ L s' := by
  cases e with
  | search r bi =>
    simp only [stepEv, Option.some.injEq] at hs'
    subst hs'
    exact invq_search hq r bi
  | apply r st =>
    simp only [stepEv] at hs'
    exact invq_applyTarget (inv_search hinv r st.branch) (invq_search hq r st.branch) hs'

theorem reach_inv' {L : LogicData} {arg : Argument} {s : SState} (h : Reach L arg s) : Inv L s ∧ InvQ L s := by
  induction h with
  | init b hb =>
    refine ⟨?_, invq_init L b.nodes⟩
    apply inv_init
    intro hm sn d w hmem
    simp only [trunk, List.mem_singleton] at hb
    subst hb
    simp only [hm, ↓reduceIte, List.mem_append, List.mem_map, List.mem_singleton] at hmem
    rcases hmem with ⟨p, _, he⟩ | he
    · cases he; rfl
    · cases he; rfl
  | step e _ hleg hs ih => exact ⟨inv_stepEv ih.1 e hleg hs, invq_stepEv ih.1 ih.2 e hs⟩

end Ptx.Search
